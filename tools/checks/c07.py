"""C07 - anonymized overlays never send from the node's own address.

Stage 0: replay corpus/C07/*.json against the implementation through the oracle.
Stage G: translate the literal constants of TunnelEndpoint (tools/tr/tr_tunnel_ep.py -> gen/G07_consts.v).
Stage P: props/C07.v (anon_never_raw, asked_never_raw, anon_send_fate, tunnel_send_wellformed, ...).
Stage C: a real TunnelEndpoint over a recording inner endpoint, attached to a real TunnelCommunity whose
         circuits dict holds real Circuit / Hop objects driven through their life cycle; spies on the inner
         send, on send_data and on create_circuit (both call through to the real code).
         * exhaustive families: every operation sequence of a fixed length over a small alphabet is run on the
           implementation; a digest of all outputs and states is compared with the digest the model computes
           inside Coq (M07.run_enum, depth-first);
         * generated histories (random op mix, queue overflow, real Community objects launched with and without
           settings.anonymize and sending through their own code) are compared case by case (M07.run_case);
         * TunnelEndpoint.notify_listeners against M07.notify.
Oracle : an independent Python reading of the property on what the implementation did (see Oracle).
"""
from __future__ import annotations

import asyncio
import glob
import itertools
import json
import multiprocessing
import os
import random as pyrandom
import time

from tools.tr import tr_tunnel_ep
from tools.vlib import coqrun, repoenv
from tools.vlib.coqrun import cb


def zl(b):
    """byte string -> Coq term (one hexadecimal numeral, unpacked by BZ in the case file's preamble)"""
    if len(b) == 0:
        return "[]"
    if len(b) <= 2 or not isinstance(b, (bytes, bytearray)):
        return "[" + ";".join(str(x) for x in b) + "]"
    return "(BZ %d%%nat 0x%s)" % (len(b), bytes(b).hex())


PREAMBLE = ("Fixpoint BZacc (len : nat) (n : Z) (acc : bytes) : bytes :=\n"
            "  match len with O => acc | S k => BZacc k (Z.shiftr n 8) (Z.land n 255 :: acc) end.\n"
            "Definition BZ (len : nat) (n : Z) : bytes := BZacc len n [].\n")

IMPORTS = ("From Coq Require Import ZArith List Bool.\n"
           "From IPV8V Require Import lib.PyErr lib.Bytes gen.G07_consts model.M07_tunnel_ep.\n"
           "Import ListNotations.\nOpen Scope Z_scope.\n")

IMPORTS_GEN = ("From Coq Require Import ZArith List Bool.\n"
               "From IPV8V Require Import lib.PyErr lib.Bytes gen.G07_consts model.M07_tunnel_ep model.M07_tunnel_ep_rt "
               "gen.G07_tunnel_ep model.M07_tunnel_ep_gen.\n"
               "Import ListNotations.\nOpen Scope Z_scope.\n")

EXIT_IPV8 = 4                      # documented flag value (oracle side; the model's comes from the translator)
NULL = ("0.0.0.0", 0)
QUEUE_BOUND = 100                  # the bound the property text promises ("bounded queue"; documented maxlen)
CTYPES = ["DATA", "IP_SEEDER", "RP_SEEDER", "RP_DOWNLOADER"]

PFX_A = b"\x00\x02" + b"A" * 20
PFX_B = b"\x00\x02" + b"B" * 20
PFX_P = b"\x00\x02" + b"P" * 20
PKT_A = PFX_A + b"\x01a"
PKT_P = PFX_P + b"\x01p"
PKT_B = PFX_B + b"\x01b"
EXIT_AD, BTEXIT_AD, RELAY_AD = 50, 51, 60      # pool peers: address ids (flags when they are candidates)
POOL = {50: [4], 51: [2], 52: [4, 2], 53: [], 60: [1], 61: [1, 2]}


# ---------------------------------------------------------------------------- address abstraction
def addr_of(n):
    if n == 0:
        return NULL
    return ("10.%d.%d.%d" % (n >> 16 & 255, n >> 8 & 255, n & 255), 1024 + n % 60000)


def id_of(a):
    try:
        ip, port = a[0], a[1]
        if (ip, port) == NULL:
            return 0
        parts = [int(x) for x in ip.split(".")]
        if len(parts) == 4 and parts[0] == 10:
            n = parts[1] << 16 | parts[2] << 8 | parts[3]
            if n > 0 and port == 1024 + n % 60000:
                return n
    except Exception:  # noqa
        pass
    return 999999999       # an address nobody asked for


# ---------------------------------------------------------------------------- implementation harness
class _CryptoProxy:
    def __init__(self, crypto, dh):
        self._crypto, self._dh = crypto, dh

    def generate_diffie_secret(self):
        return self._dh

    def __getattr__(self, name):
        return getattr(self._crypto, name)


class Node:
    """One node: real TunnelEndpoint over a recording endpoint, real TunnelCommunity, real overlays."""

    _pool = None

    def __init__(self, full=False):
        from ipv8.keyvault.crypto import default_eccrypto
        from ipv8.messaging.anonymization.community import TunnelCommunity, TunnelSettings
        from ipv8.messaging.anonymization.endpoint import TunnelEndpoint
        from ipv8.messaging.interfaces.endpoint import Endpoint
        from ipv8.peer import Peer
        node = self

        class Rec(Endpoint):
            def __init__(self):
                super().__init__()
                self.opened = True

            def assert_open(self):
                pass

            def is_open(self):
                return self.opened

            def get_address(self):
                return ("1.2.3.4", 5)

            def send(self, socket_address, packet):
                if node.depth:
                    node.cells.append((socket_address, bytes(packet)))
                else:
                    node.log.append(("raw", id_of(socket_address), bytes(packet)))

            async def open(self):
                return True

            def close(self):
                self.opened = False

            def reset_byte_counters(self):
                pass

        if Node._pool is None:
            Node._pool = {n: Peer(default_eccrypto.generate_key("curve25519").pub(), addr_of(n)) for n in POOL}
            Node._me = Peer(default_eccrypto.generate_key("curve25519"), ("1.2.3.4", 5))
        self.full = full
        self.TunnelEndpoint, self.TunnelCommunity, self.TunnelSettings = TunnelEndpoint, TunnelCommunity, TunnelSettings
        self.Peer = Peer
        self.inner = Rec()
        self.ep = TunnelEndpoint(self.inner)
        self.tc = None
        self.keys = None
        self.overlays = []
        if not full:
            self._make_tc()
        self.reset()

    # -- construction of the tunnel community (its __init__ attaches itself and switches its own prefix off)
    def _make_tc(self):
        from ipv8.peerdiscovery.network import Network
        tc = self.TunnelCommunity(self.TunnelSettings(my_peer=Node._me, endpoint=self.ep, network=Network()))
        tc.cancel_all_pending_tasks()
        self.tc = tc
        if self.keys is None:
            self.keys = tc.crypto.generate_session_keys(b"k" * 32)
        orig_create, orig_send_data = tc.create_circuit, tc.send_data
        node = self
        if not self.full:
            # the pre-built node replays hundreds of thousands of histories: one Diffie-Hellman secret for all
            # CREATE cells (key agreement is not what is examined here)
            dh = tc.crypto.generate_diffie_secret()
            tc.crypto = _CryptoProxy(tc.crypto, dh)

        def create_circuit(goal_hops, *args, **kwargs):
            fl = kwargs.get("exit_flags")
            node.log.append(("create", goal_hops, None if fl is None else list(fl),
                             kwargs.get("ctype", args[0] if args else "DATA")))
            node.depth += 1
            try:
                return orig_create(goal_hops, *args, **kwargs)
            finally:
                node.depth -= 1

        def send_data(target, circuit_id, dest_address, source_address, data):
            c = tc.circuits.get(circuit_id)
            snap = None
            if c is not None:
                snap = {"state": c.state, "goal": c.goal_hops, "nhops": len(c.hops), "ctype": c.ctype,
                        "exit_flags": list(c.exit_flags), "first": id_of(c.hop.address) if c.hops else None}
            node.log.append(("tunnel", id_of(target), circuit_id, id_of(dest_address), tuple(source_address),
                             bytes(data), snap, node.ep.tunnel_community is tc))
            n0 = len(node.cells)
            node.depth += 1
            try:
                return orig_send_data(target, circuit_id, dest_address, source_address, data)
            finally:
                node.depth -= 1
                node.cell_of_tunnel.append((len(node.log) - 1, node.cells[n0:]))
        tc.create_circuit, tc.send_data = create_circuit, send_data

    def reset(self):
        self.log, self.cells, self.cell_of_tunnel, self.depth = [], [], [], 0
        self.cids = {}          # real circuit id -> creation index
        self.inner.__init__()
        if self.full:
            # a fresh endpoint; the tunnel community is built by the "launchtunnel" operation
            self.ep = self.TunnelEndpoint(self.inner)
            self.tc = None
        else:
            self.ep.__init__(self.inner)
            self.tc.circuits.clear()
            self.tc.request_cache.clear()
            self.tc.candidates.clear()
        self.overlays = []
        self.next_fresh = 0x7000

    def cleanup(self):
        if self.tc is not None:
            self.tc.request_cache.clear()
            self.tc.cancel_all_pending_tasks()
        for o in self.overlays:
            o.cancel_all_pending_tasks()

    # -- abstraction of the real state (alpha)
    def _note_circuits(self):
        for cid in self.tc.circuits if self.tc is not None else ():
            if cid not in self.cids:
                self.cids[cid] = len(self.cids)

    @staticmethod
    def _hop(h):
        return (id_of(h.address), list(h.flags or []))

    def alpha(self):
        ep = self.ep
        circs = []
        if self.tc is not None:
            for cid, c in self.tc.circuits.items():
                circs.append((self.cids.get(cid, -1), bool(c._closing), c.goal_hops,
                              CTYPES.index(c.ctype) if c.ctype in CTYPES else 99,
                              [self._hop(h) for h in c.hops],
                              None if c.unverified_hop is None else self._hop(c.unverified_hop)))
        return {"settings": [(bytes(k), bool(v)) for k, v in ep.settings.items()],
                "attached": ep.tunnel_community is not None, "hops": ep.hops,
                "queue": [(id_of(a), bytes(p)) for a, p in ep.send_queue],
                "circuits": circs, "next_id": len(self.cids), "qmax": ep.send_queue.maxlen}

    def _mkhop(self, ad, flags):
        peer = Node._pool.get(ad) or self.Peer(Node._pool[53].public_key, addr_of(ad))
        from ipv8.messaging.anonymization.tunnel import Hop
        return Hop(peer, keys=self.keys, flags=list(flags))

    def _nth(self, k):
        vals = list(self.tc.circuits.values()) if self.tc is not None else []
        if k == -1:                 # "the newest circuit"; the model gets the index observed
            return vals[-1] if vals else None
        return vals[k] if k < len(vals) else None

    # -- one operation on the real objects
    def apply(self, op):
        k = op[0]
        ep, tc = self.ep, self.tc
        if k in ("send", "osend"):
            cand = op[3]
            if tc is not None:      # what create_circuit will find if it is asked
                tc.candidates.clear()
                if cand:
                    tc.candidates[Node._pool[EXIT_AD]] = [4]
                    tc.candidates[Node._pool[RELAY_AD]] = [1]
        if k == "send":
            _, a, pkt, cand = op
            ep.send(addr_of(a), pkt)
        elif k == "osend":          # an overlay sends through its own code (introduction request)
            self.overlays[op[1]].walk_to(addr_of(op[2]))
        elif k == "qbound":
            # harness-side configuration (not an operation of the endpoint, not in the model): the same deque with a small
            # bound, so that "more packets than the bound" takes a handful of sends; such histories are judged by the
            # oracle only
            from collections import deque
            ep.send_queue = deque(ep.send_queue, maxlen=op[1])
        elif k == "setanon":
            ep.set_anonymity(op[1], op[2])
        elif k == "toggle":
            ep.set_anonymity(op[1], not ep.settings.get(op[1], False))
        elif k == "attach":
            ep.set_tunnel_community(tc, op[1])
        elif k == "attachd":
            ep.set_tunnel_community(tc)
        elif k == "detach":
            ep.set_tunnel_community(None)
        elif k == "launch":
            from ipv8.community import Community, CommunitySettings
            from ipv8.peerdiscovery.network import Network
            _, pfx, anonymize = op
            cls = type("Overlay%d" % len(self.overlays), (Community,), {"community_id": pfx[2:], "version": pfx[1:2]})
            ov = cls(CommunitySettings(my_peer=Node._me, endpoint=ep, network=Network(), anonymize=anonymize))
            ov.cancel_all_pending_tasks()
            self.overlays.append(ov)
        elif k == "ounload":        # Community.unload of a launched overlay (completes without a loop turn:
            co = self.overlays[op[1]].unload()     # its tasks were cancelled at launch); oracle-only histories
            try:
                for _ in range(50):
                    co.send(None)
                co.close()
                raise RuntimeError("Community.unload did not finish")
            except StopIteration:
                pass
        elif k == "launchtunnel":
            self._make_tc()
        elif k == "newcirc":
            from ipv8.messaging.anonymization.tunnel import Circuit
            _, goal, ctype, uad, ufl = op
            cid = self.next_fresh
            self.next_fresh += 1
            c = Circuit(cid, goal, CTYPES[ctype])
            c.unverified_hop = self._mkhop(uad, ufl)
            c.unverified_hop.keys = None
            tc.circuits[cid] = c
        elif k == "addhop":
            c = self._nth(op[1])
            if c is not None and len(c.hops) < c.goal_hops:       # as _ours_on_created_extended does
                c.unverified_hop = None
                c.add_hop(self._mkhop(op[2], op[3]))
        elif k == "close":
            c = self._nth(op[1])
            if c is not None:
                c.close("test")
        elif k == "remove":
            c = self._nth(op[1])
            if c is not None:
                tc.circuits.pop(c.circuit_id, None)
        else:
            raise ValueError(op)

    def run(self, ops):
        """-> list of step records {op, pre, post, log, cells, sent} (everything the oracle and the tie need)"""
        self.reset()
        steps = []
        sends = []
        ep_send = None
        if self.full:
            # learn the packets the overlays hand to TunnelEndpoint.send
            ep_send = self.ep.send

            nest = [0]

            def spy(address, packet):
                # only the outermost call is the overlay's submission; a send() that re-enters itself (or is
                # reached from below send_data) is the endpoint's own business
                if not self.depth and not nest[0]:
                    sends.append((id_of(address), bytes(packet)))
                nest[0] += 1
                try:
                    return ep_send(address, packet)
                finally:
                    nest[0] -= 1
            self.ep.send = spy
        try:
            for op in ops:
                pre = self.alpha()
                qobj0 = list(self.ep.send_queue)
                n0, c0, s0 = len(self.log), len(self.cells), len(sends)
                err = None
                try:
                    self.apply(op)
                except Exception as e:  # noqa
                    err = type(e).__name__
                self._note_circuits()
                qobj1 = list(self.ep.send_queue)
                # identity of the queue entries tells an append / an eviction apart from "unchanged"
                appended = bool(qobj1) and all(qobj1[-1] is not x for x in qobj0)
                evicted = bool(qobj0) and bool(qobj1) and all(qobj0[0] is not x for x in qobj1)
                steps.append({"op": op, "pre": pre, "post": self.alpha(), "log": self.log[n0:], "cells": self.cells[c0:],
                              "appended": appended, "evicted": evicted,
                              "sent": sends[s0:], "err": err, "tcpfx": self.tc.get_prefix() if self.tc else None,
                              "tunnel_cells": [(i - n0, cs) for i, cs in self.cell_of_tunnel if i >= n0]})
        finally:
            if ep_send is not None:
                del self.ep.send
            self.cleanup()
        return steps


# ---------------------------------------------------------------------------- model-side view of a run
def step_outs(st):
    """what the node did in one step, in the vocabulary of the model's `out` (markers derived from the queue)"""
    outs = []
    for e in st["log"]:
        if e[0] == "raw":
            outs.append(("Raw", e[1], e[2]))
        elif e[0] == "tunnel":
            org = 0 if tuple(e[4]) == NULL else id_of(e[4]) or 999999998
            outs.append(("Tunnel", e[1], e[2], e[3], org, e[5]))
        else:
            outs.append(("CreateCircuit", e[1], e[2] if e[2] is not None else [-1]))
    sent = send_args(st)
    if sent is not None:
        a, p = sent
        q0, q1 = st["pre"]["queue"], st["post"]["queue"]
        acted = any(e[0] in ("raw", "tunnel") for e in st["log"])
        if st["appended"] and q1[-1] == (a, p):
            if st["evicted"]:
                outs.append(("Evicted",) + q0[0])
            outs.append(("Queued", a, p))
        elif not st["appended"] and not st["evicted"] and q1 == q0 and not acted:
            outs.append(("Dropped", a, p))
        elif not (q1 == [] and any(e[0] == "tunnel" for e in st["log"])) and (q1 != q0 or st["appended"] or st["evicted"]):
            outs.append(("Dropped", -999, b""))      # the queue changed in a way the model has no word for
    return outs


def send_args(st):
    op = st["op"]
    if op[0] == "send":
        return (op[1], op[2])
    if op[0] == "osend":
        return st["sent"][0] if len(st["sent"]) == 1 else (op[2], b"?")
    return None


def hop_coq(h):
    return "(mkHop %d %s)" % (h[0], zl(h[1]))


def op_coq(st):
    """the model operation for a step; environment outcomes (first hop picked by create_circuit) are observed"""
    op = st["op"]
    k = op[0]
    if k in ("send", "osend"):
        a, p = send_args(st)
        pre_ids = {c[0] for c in st["pre"]["circuits"]}
        new = [c for c in st["post"]["circuits"] if c[0] not in pre_ids]
        nh = "(Some %s)" % hop_coq(new[0][5]) if new and new[0][5] is not None else "None"
        return "Send %d %s %s" % (a, zl(p), nh)
    if k == "setanon":
        return "SetAnon %s %s" % (zl(op[1]), cb(op[2]))
    if k == "toggle":
        return "Toggle %s" % zl(op[1])
    if k == "attach":
        return "Attach %s" % coqrun.cz(op[1])
    if k == "attachd":
        return "Attach ATTACH_DEFAULT_HOPS"
    if k == "detach":
        return "Detach"
    if k == "launch":
        return "Launch %s %s" % (zl(op[1]), cb(op[2]))
    if k == "launchtunnel":
        return "LaunchTunnel %s" % zl(st["tcpfx"])
    if k == "newcirc":
        return "NewCirc %s %d %s" % (coqrun.cz(op[1]), op[2], hop_coq((op[3], op[4])))
    idx = op[1]
    if idx == -1:
        idx = max(0, len(st["pre"]["circuits"]) - 1)
    if k == "addhop":
        return "AddHop %d%%nat %s" % (idx, hop_coq((op[2], op[3])))
    if k == "close":
        return "Close %d%%nat" % idx
    return "Remove %d%%nat" % idx


def static_op_coq(op):
    """model operation of an alphabet symbol of an exhaustive family (no observation available)"""
    if op[0] == "send":
        nh = "(Some %s)" % hop_coq(op[4]) if op[3] and len(op) > 4 and op[4] is not None else "None"
        return "Send %d %s %s" % (op[1], zl(op[2]), nh)
    return op_coq({"op": op, "tcpfx": None})


def out_coq(o):
    k = o[0]
    if k == "Tunnel":
        return "Tunnel %s %s %s %s %s" % (coqrun.cz(o[1]), coqrun.cz(o[2]), coqrun.cz(o[3]), coqrun.cz(o[4]), zl(o[5]))
    if k == "CreateCircuit":
        return "CreateCircuit %s %s" % (coqrun.cz(o[1]), "[" + ";".join(coqrun.cz(x) for x in o[2]) + "]")
    return "%s %s %s" % (k, coqrun.cz(o[1]), zl(o[2]))


def state_coq(s):
    cid = coqrun.cz
    circs = "; ".join("mkCirc %s %s %s %d [%s] %s" % (cid(c[0]), cb(c[1]), coqrun.cz(c[2]), c[3],
                                                       "; ".join(hop_coq(h) for h in c[4]),
                                                       "None" if c[5] is None else "(Some %s)" % hop_coq(c[5]))
                      for c in s["circuits"])
    return "(mkSt [%s] %s %s [%s] [%s] %d)" % (
        "; ".join("(%s, %s)" % (zl(k), cb(v)) for k, v in s["settings"]), cb(s["attached"]), coqrun.cz(s["hops"]),
        "; ".join("(%s, %s)" % (coqrun.cz(a), zl(p)) for a, p in s["queue"]), circs, s["next_id"])


def case_coq(steps, cidx):
    ops = "[" + "; ".join(op_coq(st) for st in steps) + "]"
    per = []
    for st in steps:
        outs = []
        for o in step_outs(st):
            if o[0] == "Tunnel":
                o = (o[0], o[1], cidx.get(o[2], -7), o[3], o[4], o[5])
            outs.append(out_coq(o))
        per.append("([%s], %d, %d)" % ("; ".join(outs), len(st["post"]["queue"]), len(st["post"]["circuits"])))
    final = steps[-1]["post"] if steps else {"settings": [], "attached": False, "hops": 0, "queue": [], "circuits": [],
                                              "next_id": 0}
    return ops, "([%s], %s)" % ("; ".join(per), state_coq(final))


# ---------------------------------------------------------------------------- digest (mirror of M07.mix_*)
HMASK = 2305843009213693951


def mix(h, x):
    return (1000003 * h + x + 1) & HMASK


def bytes_code(b):
    return len(b) + 256 * (b[2] if len(b) > 2 else 0) + 65536 * (b[-1] if b else 0)


_full = {}


def bytes_full(b):
    c = _full.get(b)
    if c is None:
        c = len(b)
        for x in b:
            c = mix(c, x)
        if len(_full) < 200000:
            _full[b] = c
    return c


def mix_zs(h, l):
    h = mix(h, len(l))
    for x in l:
        h = mix(h, x)
    return h


def mix_hop(h, x):
    return mix_zs(mix(h, x[0]), x[1])


def mix_out(bc, h, o):
    k = o[0]
    if k == "Raw":
        return mix(mix(mix(h, 1), o[1]), bc(o[2]))
    if k == "Tunnel":
        return mix(mix(mix(mix(mix(mix(h, 2), o[1]), o[2]), o[3]), o[4]), bc(o[5]))
    if k == "CreateCircuit":
        return mix_zs(mix(mix(h, 3), o[1]), o[2])
    return mix(mix(mix(h, {"Queued": 4, "Evicted": 5, "Dropped": 6}[k]), o[1]), bc(o[2]))


def mix_st(bc, h, s):
    h = mix(h, len(s["settings"]))
    for k, v in s["settings"]:
        h = mix(mix(h, bc(k)), 1 if v else 0)
    h = mix(mix(h, 1 if s["attached"] else 0), s["hops"])
    h = mix(h, len(s["queue"]))
    for a, p in s["queue"]:
        h = mix(mix(h, a), bc(p))
    h = mix(h, len(s["circuits"]))
    for c in s["circuits"]:
        h = mix(mix(h, c[0]), 1 if c[1] else 0)
        h = mix(mix(h, c[2]), c[3])
        h = mix(h, len(c[4]))
        for x in c[4]:
            h = mix_hop(h, x)
        h = mix_hop(mix(h, 1), c[5]) if c[5] is not None else mix(h, 0)
    return mix(h, s["next_id"])


REAL_CALLS = ("Raw", "Tunnel", "CreateCircuit")


def path_digest(steps, cidx, bc=bytes_code, calls_only=False):
    """mirror of M07.history_digest / dfs along one path: per step the outputs, |queue|, |circuits|; the complete
    state at the end"""
    h = 0
    for st in steps:
        h = mix(h, 7)
        for o in step_outs(st):
            if calls_only and o[0] not in REAL_CALLS:
                continue          # the generated code makes calls; Queued / Evicted / Dropped are the hand model's markers
            if o[0] == "Tunnel":
                o = (o[0], o[1], cidx.get(o[2], -7), o[3], o[4], o[5])
            h = mix_out(bc, h, o)
        h = mix(mix(h, len(st["post"]["queue"])), len(st["post"]["circuits"]))
    return mix_st(bc, h, steps[-1]["post"] if steps else EMPTY_STATE)


EMPTY_STATE = {"settings": [], "attached": False, "hops": 0, "queue": [], "circuits": [], "next_id": 0}


# ---------------------------------------------------------------------------- oracle: the property, in Python
class Oracle:
    """Reads the property text on one observed history.  It keeps its own account of which prefixes are
    switched on / which overlays asked for anonymity, whether a community is attached and with how many hops
    (from the operations, not from the implementation's state), and judges what the implementation did."""

    def __init__(self):
        self.on = {}             # prefix -> bool, from the operations
        self.attached = False
        self.hops = None
        self.asked = {}          # overlay index -> asked for anonymity
        self.bound = QUEUE_BOUND # the documented maxlen (or the smaller one a harness-side "qbound" configured)
        self.viol = []

    def bad(self, key, what):
        self.viol.append((key, what))

    def step(self, i, st, node_cidx):
        op = st["op"]
        k = op[0]
        log = st["log"]
        raws = [e for e in log if e[0] == "raw"]
        tunnels = [e for e in log if e[0] == "tunnel"]
        q0, q1 = st["pre"]["queue"], st["post"]["queue"]
        if st["err"]:
            self.bad("op/raises/%s/%s" % (k, st["err"]), "step %d %s raised %s" % (i, k, st["err"]))
        # --- bounded queue: after EVERY step, whatever the step was
        if k == "qbound":
            self.bound = min(QUEUE_BOUND, op[1])
        if len(q1) > self.bound:
            self.bad("queue/unbounded", "step %d (%s): %d packets waiting, the queue's bound is %d%s" % (
                i, k, len(q1), self.bound, "" if st["post"]["qmax"] is not None else " (the deque in place has no maxlen any more)"))
        # --- every tunnel send is well formed
        for e in tunnels:
            _, target, cid, dest, org, data, snap, same_tc = e
            if snap is None:
                self.bad("tunnel/unknown-circuit", "step %d: send_data over circuit %s that is not in circuits" % (i, cid))
                continue
            if snap["state"] != "READY" or snap["nhops"] < snap["goal"]:
                self.bad("tunnel/circuit-not-ready", "step %d: send_data over a %s circuit (%d/%d hops)" % (
                    i, snap["state"], snap["nhops"], snap["goal"]))
            if self.hops is not None and snap["goal"] != self.hops:
                self.bad("tunnel/wrong-length", "step %d: circuit of %d hops, %s configured" % (i, snap["goal"], self.hops))
            if EXIT_IPV8 not in snap["exit_flags"]:
                self.bad("tunnel/exit-not-ipv8", "step %d: exit flags %s" % (i, snap["exit_flags"]))
            if snap["ctype"] != "DATA":
                self.bad("tunnel/not-data-circuit", "step %d: circuit type %s" % (i, snap["ctype"]))
            if tuple(org) != NULL:
                self.bad("tunnel/origin-not-null", "step %d: origin %s" % (i, (org,)))
            if snap["first"] != target:
                self.bad("tunnel/not-first-hop", "step %d: cell handed to %s, first hop is %s" % (i, target, snap["first"]))
            if not self.attached or not same_tc:
                self.bad("tunnel/detached-community", "step %d: send_data while no community is attached" % i)
        # --- what reaches the socket below a tunnel send is a cell of the tunnel overlay to the first hop
        for li, cells in st["tunnel_cells"]:
            e = log[li]
            for (addr, pkt) in cells:
                if st["tcpfx"] is not None and pkt[:22] != st["tcpfx"]:
                    self.bad("tunnel/cell-foreign-prefix", "step %d: datagram below send_data starts with %s" % (i, pkt[:22].hex()))
                if id_of(addr) != e[1]:
                    self.bad("tunnel/cell-wrong-target", "step %d: cell sent to %s" % (i, addr))
                if e[5] and len(e[5]) >= 8 and e[5] in pkt:
                    self.bad("tunnel/cell-plaintext", "step %d: the packet appears unencrypted in the cell" % i)
        # --- a packet that was submitted while its prefix was anonymized (it is waiting in the queue) must never
        #     reach the raw socket, whatever the switches say by the time it leaves the queue
        waiting = list(q0)
        own = send_args(st) if k in ("send", "osend") else None
        own_used = False
        raws_all, raws = raws, []          # below, `raws` are those not accounted for as waiting packets
        for e in raws_all:
            x = (e[1], e[2])
            if own is not None and x == own and not own_used:
                own_used = True           # the packet being submitted now: judged below
                raws.append(e)
                continue
            if x not in waiting:
                raws.append(e)
            else:
                waiting.remove(x)
                self.bad("anon/queued-packet-raw", "step %d (%s): packet %s, submitted while its prefix was anonymized and waiting in "
                         "the queue, was handed to the raw socket (to %s)%s" % (
                             i, k, e[2].hex(), e[1], "" if self.on.get(e[2][:22], False) else " after its anonymity was switched off"))
        # --- sends
        if k in ("send", "osend"):
            if k == "osend":
                asked = self.asked.get(op[1], (None, False))[1]
                sent = st["sent"]
                if len(sent) != 1:
                    self.bad("overlay/send-count", "step %d: overlay made %d endpoint sends" % (i, len(sent)))
                    return
                a, p = sent[0]
                on = self.on.get(p[:22], False)
                if asked and not on:
                    # nobody switched it off, yet its packets are not covered by the switch
                    self.bad("overlay/asked-but-prefix-off", "step %d: overlay %d asked for anonymity, its packet prefix %s is not switched on"
                             % (i, op[1], p[:22].hex()))
                on = on or asked
            else:
                a, p = op[1], op[2]
                on = self.on.get(p[:22], False)
            if on:
                if raws:
                    self.bad("anon/raw-send", "step %d: packet %s of an anonymized overlay handed to the raw socket (to %s)" % (
                        i, raws[0][2].hex(), raws[0][1]))
                if tunnels:
                    want = [(a, p)] + list(q0)
                    got = [(e[3], e[5]) for e in tunnels]
                    if got != want:
                        self.bad("anon/tunnel-order-or-content", "step %d: tunnel sends %d, expected this packet then the %d waiting"
                                 % (i, len(got), len(q0)))
                    if q1:
                        self.bad("anon/queue-not-flushed", "step %d: %d packets still waiting after a tunnel send" % (i, len(q1)))
                elif st["appended"] and q1[-1] == (a, p) and len(q1) >= len(q0) and q1 == (q0 + [(a, p)])[-len(q1):]:
                    if not self.attached:
                        self.bad("anon/queued-without-community", "step %d: queued although no community is attached" % i)
                elif q1 == q0 and not st["appended"]:
                    if self.attached:
                        self.bad("anon/lost", "step %d: packet neither tunnelled nor queued although a community is attached" % i)
                else:
                    self.bad("anon/queue-corrupted", "step %d: queue went from %d to %d entries" % (i, len(q0), len(q1)))
            else:
                if [(e[1], e[2]) for e in raws] != [(a, p)] or tunnels or q1 != q0 or any(e[0] == "create" for e in log):
                    self.bad("plain/affected", "step %d: plain send produced raw=%d tunnel=%d queue %d->%d" % (
                        i, len(raws), len(tunnels), len(q0), len(q1)))
        else:
            if raws or tunnels or q1 != q0:
                self.bad("nonsend/side-effect", "step %d: %s produced raw=%d tunnel=%d queue %d->%d" % (
                    i, k, len(raws), len(tunnels), len(q0), len(q1)))
        # --- leaving the queue only as tunnel data or by overflow
        if st["evicted"] and not tunnels:
            if not (st["appended"] and st["pre"]["qmax"] is not None and len(q0) == st["pre"]["qmax"] and len(q1) == len(q0)):
                self.bad("queue/packet-vanished", "step %d: a waiting packet left the queue without a tunnel send or overflow" % i)
        elif len(q1) < len(q0) or (q1 != q0 and not st["appended"]):
            tun = [(e[3], e[5]) for e in tunnels]
            gone = list(q0)
            for x in q1:
                if x in gone:
                    gone.remove(x)
            for x in gone:
                if x in tun:
                    tun.remove(x)
                else:
                    self.bad("queue/packet-vanished", "step %d: a waiting packet left the queue without a tunnel send" % i)
        # --- book-keeping from the operation itself
        if k == "setanon":
            self.on[op[1]] = op[2]
        elif k == "toggle":
            self.on[op[1]] = not self.on.get(op[1], False)
        if k in ("setanon", "toggle") and not self.on[op[1]]:
            # anonymity explicitly switched off for that prefix: the overlay's request is withdrawn
            self.asked = {i: (pfx, a and pfx != op[1]) for i, (pfx, a) in self.asked.items()}
        if k in ("attach", "attachd"):
            self.attached, self.hops = True, (op[1] if k == "attach" else 1)
        elif k == "detach":
            self.attached, self.hops = False, None
        elif k == "launch":
            self.asked[len(self.asked)] = (op[1], op[2])
            if op[2]:
                self.on[op[1]] = True
        elif k == "ounload":
            # the unloaded overlay's own request ends; a sibling instance with the same prefix that asked for
            # anonymity keeps relying on the switch.  If nobody alive relies on it, either state is acceptable.
            pfx = self.asked.get(op[1], (None, False))[0]
            self.asked[op[1]] = (pfx, False)
            if pfx is not None and not any(b and p_ == pfx for p_, b in self.asked.values()):
                self.on[pfx] = dict(st["post"]["settings"]).get(pfx, False)
        elif k == "launchtunnel":
            self.attached, self.hops = True, 1
            if st["tcpfx"] is not None:
                self.on[st["tcpfx"]] = False
        # the implementation's switch must agree with the operations
        for pfx, b in self.on.items():
            if dict(st["post"]["settings"]).get(pfx, False) != b:
                self.bad("switch/out-of-sync", "step %d: prefix %s should be %s" % (i, pfx.hex(), "on" if b else "off"))
                self.on[pfx] = not b

    def judge(self, steps, cidx=None):
        for i, st in enumerate(steps):
            self.step(i, st, cidx)
        return self.viol


# ---------------------------------------------------------------------------- worker side
_NODE = {}


def _node(full):
    n = _NODE.get(full)
    if n is None:
        repoenv.setup()
        n = _NODE[full] = Node(full=full)
    return n


def run_ops(ops, full=False):
    node = _node(full)
    steps = node.run(ops)
    cidx = dict(node.cids)
    return steps, cidx


async def _work_cases(cases):
    out = []
    for (full, ops) in cases:
        steps, cidx = run_ops(ops, full)
        viol = Oracle().judge(steps, cidx)
        if any(op[0] in ("qbound", "ounload") for op in ops):   # not comparable with the model (its bound is the source's; it has no unload)
            out.append((None, viol, summarize(steps)))
            continue
        out.append((case_coq(steps, cidx) + (str(path_digest(steps, cidx, bytes_full)),
                                               str(path_digest(steps, cidx, bytes_full, calls_only=True))),
                    viol, summarize(steps)))
    await asyncio.sleep(0)
    return out


def summarize(steps):
    n_t = sum(1 for st in steps for e in st["log"] if e[0] == "tunnel")
    n_r = sum(1 for st in steps for e in st["log"] if e[0] == "raw")
    n_c = sum(1 for st in steps for e in st["log"] if e[0] == "create")
    qmax = max([len(st["post"]["queue"]) for st in steps] + [0])
    return (n_r, n_t, n_c, qmax)


def work_cases(cases):
    loop = asyncio.new_event_loop()
    asyncio.set_event_loop(loop)
    try:
        return loop.run_until_complete(_work_cases(cases))
    finally:
        loop.run_until_complete(asyncio.sleep(0))
        loop.close()


async def _work_enum(alpha, pre, depth):
    """digest over all |w| = depth words over alpha after `pre`; also the oracle on every run"""
    node = _node(False)
    acc = 0
    viols = []
    nontrivial = 0
    nseq = 0
    for w in itertools.product(range(len(alpha)), repeat=depth):
        ops = pre + [impl_op(alpha[i]) for i in w]
        steps = node.run(ops)
        cidx = node.cids
        acc = mix(acc, path_digest(steps, cidx))
        nseq += 1
        if any(st["log"] for st in steps[len(pre):]):
            nontrivial += 1
        v = Oracle().judge(steps, cidx)
        if v and len(viols) < 5:
            viols.append((ops, v))
    await asyncio.sleep(0)
    return acc, viols, nseq, nontrivial


async def _work_enum_oracle(alpha, pre, depth):
    """every word over an alphabet of MACRO symbols (each a list of operations) after `pre`, judged by the oracle
    only (histories with a harness-side queue bound have no counterpart in the model)"""
    node = _node(False)
    viols, nseq, nontrivial = [], 0, 0
    for w in itertools.product(range(len(alpha)), repeat=depth):
        ops = list(pre)
        for i in w:
            ops.extend(alpha[i])
        steps = node.run(ops)
        nseq += 1
        if any(len(st["post"]["queue"]) >= st["post"]["qmax"] for st in steps if st["post"]["qmax"]):
            nontrivial += 1
        v = Oracle().judge(steps, node.cids)
        if v and len(viols) < 3:
            viols.append((ops, v))
    await asyncio.sleep(0)
    return viols, nseq, nontrivial


def work_enum_oracle(args):
    loop = asyncio.new_event_loop()
    asyncio.set_event_loop(loop)
    try:
        return loop.run_until_complete(_work_enum_oracle(*args))
    finally:
        loop.run_until_complete(asyncio.sleep(0))
        loop.close()


SMALL_BOUND = 3


def family_overflow(quick):
    """F/overflow-after-flush: a small harness-side bound; packets wait, the circuit becomes ready, a send flushes,
    the circuit goes away, a burst of bound+1 sends"""
    burst = [("send", 20 + i, PFX_A + b"\x0c" + bytes([i]), False) for i in range(SMALL_BOUND + 1)]
    alpha = [[("send", 7, PKT_A, True)], [("addhop", 0, EXIT_AD, [4])], [("close", 0)], [("remove", 0)], burst,
             [("detach",), ("attach", 1)]]
    return {"name": "F/overflow-after-flush (bound %d, oracle only)" % SMALL_BOUND,
            "pre": [("qbound", SMALL_BOUND), ("setanon", PFX_A, True), ("attach", 1)],
            "alpha": alpha, "depth": 5 if quick else 7, "split": 1 if quick else 2}


def impl_op(sym):
    """alphabet symbol -> operation for Node.apply (drops the static first-hop annotation)"""
    return sym[:4] if sym[0] == "send" else sym


def work_enum(args):
    alpha, pre, depth = args
    loop = asyncio.new_event_loop()
    asyncio.set_event_loop(loop)
    try:
        return loop.run_until_complete(_work_enum(alpha, pre, depth))
    finally:
        loop.run_until_complete(asyncio.sleep(0))
        loop.close()


# ---------------------------------------------------------------------------- exhaustive families
EXIT_H, RELAY_H, BT_H = (EXIT_AD, [4]), (RELAY_AD, [1]), (BTEXIT_AD, [2])


def families(quick):
    fa = {"name": "A/one-hop", "pre": [("setanon", PFX_A, True), ("attach", 1)],
          "alpha": [("send", 7, PKT_A, True, EXIT_H), ("send", 8, PKT_P, True, EXIT_H), ("addhop", 0, EXIT_AD, [4]),
                    ("close", 0), ("remove", 0), ("detach",), ("attach", 1), ("toggle", PFX_A)],
          "depth": 6 if quick else 7, "split": 2}
    fb = {"name": "B/unusable-circuits", "pre": [("launch", PFX_A, True), ("attach", 1)],
          "alpha": [("send", 7, PKT_A, True, EXIT_H), ("send", 9, PKT_A, False, None), ("addhop", 0, BTEXIT_AD, [2]),
                    ("addhop", 0, EXIT_AD, [4]), ("newcirc", 2, 0, RELAY_AD, [1]), ("newcirc", 1, 3, EXIT_AD, [4]),
                    ("addhop", 1, EXIT_AD, [4]), ("close", 0), ("remove", 0)],
          "depth": 5 if quick else 6, "split": 1 if quick else 2}
    fc = {"name": "C/two-hops", "pre": [("setanon", PFX_A, True), ("attach", 2)],
          "alpha": [("send", 7, PKT_A, True, RELAY_H), ("send", 8, PKT_P, False, None), ("addhop", 0, RELAY_AD, [1]),
                    ("addhop", 0, EXIT_AD, [4]), ("close", 0), ("remove", 0), ("detach",), ("attach", 2)],
          "depth": 5 if quick else 6, "split": 1 if quick else 2}
    fd = {"name": "D/from-init", "pre": [],
          "alpha": [("send", 7, PKT_A, True, EXIT_H), ("send", 8, PKT_P, False, None), ("addhop", 0, EXIT_AD, [4]),
                    ("close", 0), ("attachd",), ("detach",), ("setanon", PFX_A, True), ("setanon", PFX_A, False)],
          "depth": 5, "split": 1}
    fe = {"name": "E/two-anonymized-prefixes", "pre": [("setanon", PFX_A, True), ("setanon", PFX_B, True), ("attach", 1)],
          "alpha": [("send", 7, PKT_A, True, EXIT_H), ("send", 9, PKT_B, True, EXIT_H), ("addhop", 0, EXIT_AD, [4]),
                    ("toggle", PFX_A), ("toggle", PFX_B), ("close", 0), ("remove", 0)],
          "depth": 5 if quick else 7, "split": 1 if quick else 2}
    return [fa, fb, fc, fd, fe]


# ---------------------------------------------------------------------------- generated histories
def gen_hop(r):
    ad = r.choice(list(POOL))
    fl = r.choice([POOL[ad], [4], [1], [2], [4, 2], [], [1, 4], [8]])
    return ad, list(fl)


def gen_packet(r, n):
    pfx = r.choice([PFX_A, PFX_A, PFX_A, PFX_B, PFX_P, PFX_P])
    kind = r.random()
    if kind < 0.06:
        return pfx[:r.choice([0, 1, 21])]                          # shorter than a prefix
    if kind < 0.12:
        b = bytearray(pfx)
        b[r.randrange(22)] ^= 1 << r.randrange(8)                  # near miss
        return bytes(b) + b"\x01" + bytes([n % 256])
    if kind < 0.15:
        return pfx                                                 # exactly a prefix
    return pfx + bytes([r.randrange(256)]) + r.randbytes(r.choice([0, 1, 5, 30])) + n.to_bytes(2, "big")


def gen_ops(r, n, hops_choices=(1, 1, 2, 2, 3, 0), h_cur=1):
    ops = []
    ncirc = 0
    for i in range(n):
        k = r.choices(["send", "setanon", "toggle", "attach", "attachd", "detach", "newcirc", "addhop", "close", "remove", "ready"],
                      [10, 2, 1, 2, 1, 1, 2, 4, 2, 2, 4])[0]
        if k == "ready":
            # the hops a circuit of the current length needs, the last one an IPv8 exit (mostly)
            j = r.choice([0, 0, max(0, ncirc - 1), r.randrange(0, max(1, min(ncirc, 4)))])
            for _ in range(max(0, h_cur - 1)):
                ops.append(("addhop", j, r.choice([60, 61]), [1]))
            ops.append(("addhop", j, r.choice([50, 52]), r.choice([[4], [4], [4, 2], [2]])))
        elif k == "send":
            ops.append(("send", r.randrange(1, 40), gen_packet(r, i), r.random() < 0.6))
            ncirc += 1
        elif k == "setanon":
            ops.append(("setanon", r.choice([PFX_A, PFX_A, PFX_B, PFX_P, PFX_A[:21]]), r.random() < 0.75))
        elif k == "toggle":
            ops.append(("toggle", r.choice([PFX_A, PFX_B])))
        elif k == "attach":
            h_cur = r.choice(hops_choices)
            ops.append(("attach", h_cur))
        elif k == "newcirc":
            ad, fl = gen_hop(r)
            ops.append(("newcirc", r.choice([0, 1, 1, 2, 2, 3, h_cur, h_cur]), r.choice([0, 0, 0, 0, 0, 1, 2, 3]), ad, fl))
            ncirc += 1
        elif k == "addhop":
            ad, fl = gen_hop(r)
            if r.random() < 0.5:
                fl = [4] if r.random() < 0.7 else [4, 2]
            ops.append(("addhop", r.randrange(0, max(1, min(ncirc, 4))), ad, fl))
        elif k in ("close", "remove"):
            ops.append((k, r.randrange(0, max(1, min(ncirc, 4)))))
        else:
            ops.append((k,))
    return ops


def gen_history(r, n):
    """mostly-valid stream: anonymity on, attached, then a random mix"""
    pre = []
    if r.random() < 0.85:
        pre.append(("setanon", PFX_A, True))
    h = 1
    if r.random() < 0.85:
        h = r.choice([1, 1, 2, 2, 3])
        pre.append(("attach", h))
    r.shuffle(pre)
    return pre + gen_ops(r, n, h_cur=h)


def gen_scenario(r, n):
    """the life of an anonymized overlay: circuit requested, built, used, closed, removed, rebuilt - with
    random other operations interleaved"""
    h = r.choice([1, 1, 2, 3])
    ops = [("setanon", PFX_A, True), ("attach", h)]
    two = r.random() < 0.5            # a second anonymized overlay shares the endpoint (and its queue)
    if two:
        ops.insert(r.randrange(3), ("setanon", PFX_B, True))
    k = 0

    def anon_pfx():
        return r.choice([PFX_A, PFX_B]) if two else PFX_A

    def noise():
        if r.random() < 0.2:
            ops.extend(gen_ops(r, r.choice([1, 1, 2]), hops_choices=(h,), h_cur=h))

    alive = 0       # circuits in the dict (approximately: noise may add / remove some)
    for _ in range(n):
        phase = r.choices(["build", "use", "close", "remove", "plain", "switch", "off-while-waiting"], [4, 6, 1, 1, 1, 1, 1.5])[0]
        if phase == "off-while-waiting":
            # packets wait (no usable circuit: the first one is closed / removed), their overlay's anonymity is switched
            # off, a circuit becomes ready, somebody else's anonymized packet triggers the flush
            pfx = anon_pfx()
            ops.append(r.choice([("close", 0), ("remove", 0), ("remove", -1)]))
            for _ in range(r.choice([1, 2, 3])):
                k += 1
                ops.append(("send", r.randrange(1, 40), pfx + b"\x06" + k.to_bytes(2, "big"), True))
                noise()
            ops.append(r.choice([("toggle", pfx), ("setanon", pfx, False)]))
            for _ in range(h - 1):
                ops.append(("addhop", -1, r.choice([60, 61]), [1]))
            ops.append(("addhop", -1, r.choice([50, 52]), [4]))
            k += 1
            other = PFX_B if pfx == PFX_A else PFX_A
            ops.append(("setanon", other, True))
            ops.append(("send", r.randrange(1, 40), other + b"\x07" + k.to_bytes(2, "big"), True))
            ops.append(("setanon", pfx, True))
            continue
        if phase == "build":
            ops.append(("send", r.randrange(1, 40), PFX_A + b"\x04" + k.to_bytes(2, "big"), True))
            j = r.choice([-1, -1, -1, 0])
            alive += 1
            for _ in range(h - 1):
                ops.append(("addhop", j, r.choice([60, 61]), [1]))
                noise()
            ops.append(("addhop", j, r.choice([50, 52]), r.choice([[4], [4], [4], [4, 2], [2]])))
        elif phase == "use":
            for _ in range(r.choice([1, 2, 4])):
                k += 1
                ops.append(("send", r.randrange(1, 40), anon_pfx() + b"\x02" + k.to_bytes(2, "big"), r.random() < 0.5))
        elif phase == "close":
            ops.append(("close", r.choice([0, 0, -1])))
        elif phase == "remove":
            ops.append(("remove", r.choice([0, 0, -1])))
            alive = max(0, alive - 1)
        elif phase == "plain":
            k += 1
            ops.append(("send", r.randrange(1, 40), PFX_P + b"\x03" + k.to_bytes(2, "big"), False))
        else:
            sw = r.choice([("detach",), ("attach", h), ("toggle", PFX_A), ("setanon", PFX_A, True), ("toggle", PFX_B)])
            ops.append(sw)
            if sw[0] in ("detach", "toggle") and r.random() < 0.7:       # and back, after a send or two
                ops.append(("send", r.randrange(1, 40), PFX_A + b"\x05" + k.to_bytes(2, "big"), True))
                ops.append(("attach", h) if sw[0] == "detach" else sw)
        noise()
    return ops


def gen_overflow_after_flush(r, bound=None):
    """packets wait -> the circuit becomes ready -> a send flushes the backlog -> the circuit goes away -> more than a
    queue full of sends.  bound: a small harness-side bound (oracle only), None: the real one (compared with the model)"""
    h = r.choice([1, 1, 2])
    ops = ([("qbound", bound)] if bound else []) + [("setanon", PFX_A, True), ("attach", h)]
    n = bound or QUEUE_BOUND
    for i in range(r.choice([1, 2, 3])):
        ops.append(("send", 1 + i, PFX_A + b"\x09" + i.to_bytes(2, "big"), i == 0))
    for _ in range(h - 1):
        ops.append(("addhop", 0, RELAY_AD, [1]))
    ops.append(("addhop", 0, EXIT_AD, [4]))
    for i in range(r.choice([1, 1, 2])):
        ops.append(("send", 5 + i, PFX_A + b"\x0aflush" + bytes([i]), False))
    ops.append(r.choice([("close", 0), ("remove", 0), ("detach",), ("attach", h + 1)]))
    if ops[-1] == ("detach",):
        ops.append(("attach", h + 1))           # (while detached packets are dropped, not queued)
    for i in range(n + r.choice([1, 2, 5])):
        ops.append(("send", 1 + i % 30, PFX_A + b"\x0b" + i.to_bytes(2, "big"), False))
    return ops


def gen_overflow(r, variant):
    """more than a queue full of waiting packets, then a circuit becomes ready (or not)"""
    if variant == 4:
        return gen_overflow_after_flush(r)
    h = r.choice([1, 2])
    ops = [("setanon", PFX_A, True), ("attach", h)]
    n = QUEUE_BOUND + r.choice([-1, 0, 1, 5, 30])
    for i in range(n):
        ops.append(("send", 1 + i % 30, PFX_A + b"\x07" + i.to_bytes(2, "big"), i == 0 or (variant == 2 and r.random() < 0.05)))
        if variant == 1 and i == n // 2:
            ops.append(("send", 3, PKT_P, False))
    if variant != 3:
        for _ in range(h - 1):
            ops.append(("addhop", 0, RELAY_AD, [1]))
        ops.append(("addhop", 0, EXIT_AD, [4]))
    else:
        ops.append(("close", 0))
    ops.append(("send", 33, PFX_A + b"\x08last", False))
    ops.append(("send", 34, PFX_A + b"\x08after", False))
    return ops


def gen_siblings(r):
    """two or three instances of overlays on one endpoint, some sharing a community id (an overlay re-created
    before its predecessor is unloaded); one is unloaded, the others keep sending through their own code
    (seed C07h: Community.unload switched the shared prefix's anonymity off).  Oracle only: the model has no unload."""
    pf = [PFX_A, PFX_A, r.choice([PFX_A, PFX_B])]
    asked = [r.random() < 0.85 for _ in pf]
    n = r.choice([2, 2, 3])
    ops = [("launch", pf[i], asked[i]) for i in range(n)]
    if r.random() < 0.5:
        ops.insert(r.randrange(len(ops) + 1), ("launchtunnel",))
    else:
        ops.append(("launchtunnel",))
    live = list(range(n))
    if r.random() < 0.8:            # a ready one-hop circuit with an IPv8-capable exit
        ops += [("osend", r.choice(live), r.randrange(1, 40), True), ("addhop", -1, 50, [4])]
    dead = r.choice(live)
    live.remove(dead)
    for _ in range(r.choice([0, 1, 2])):
        ops.append(("osend", r.choice(live + [dead]), r.randrange(1, 40), True))
    ops.append(("ounload", dead))
    for _ in range(r.choice([1, 2, 4])):
        ops.append(("osend", r.choice(live), r.randrange(1, 40), r.random() < 0.8))
        if r.random() < 0.3:
            ops.append(("addhop", -1, r.choice([50, 52]), [4]))
    return ops


def gen_full(r, n):
    """real overlays launched on the endpoint, sending through their own code"""
    ops = []
    novl = 0
    asked = []
    cids = [PFX_A, PFX_B, PFX_P, b"\x00\x02" + b"Q" * 20]
    r.shuffle(cids)
    if r.random() < 0.4:          # overlays launched before the tunnel community exists
        a = r.random() < 0.7
        ops.append(("launch", cids[novl], a))
        asked.append(a)
        novl += 1
        if r.random() < 0.7:
            ops.append(("osend", 0, r.randrange(1, 40), True))
    ops.append(("launchtunnel",))
    ncirc = 0
    for i in range(n):
        k = r.choices(["launch", "osend", "send", "attach", "detach", "newcirc", "addhop", "close", "remove", "toggle"],
                      [2 if novl < 4 else 0, 12 if novl else 0, 2, 0.5, 0.5, 1, 3, 1, 1, 0.3])[0]
        if k == "launch":
            a = r.random() < 0.6
            ops.append(("launch", cids[novl], a))
            asked.append(a)
            novl += 1
        elif k == "osend":
            ops.append(("osend", r.randrange(novl), r.randrange(1, 40), r.random() < 0.8))
            ncirc += 1
            if r.random() < 0.35:
                ops.append(("addhop", r.choice([-1, -1, 0]), r.choice([50, 52]), r.choice([[4], [4], [4], [2]])))
        elif k == "send":
            ops.append(("send", r.randrange(1, 40), gen_packet(r, i), r.random() < 0.6))
            ncirc += 1
        elif k == "attach":
            ops.append(("attach", r.choice([1, 1, 1, 2])))
        elif k == "newcirc":
            ad, fl = gen_hop(r)
            ops.append(("newcirc", r.choice([1, 1, 2]), r.choice([0, 0, 0, 3]), ad, fl))
            ncirc += 1
        elif k == "addhop":
            ad, fl = gen_hop(r)
            if r.random() < 0.7:
                ad, fl = r.choice([50, 52]), [4]
            ops.append(("addhop", r.choice([0, r.randrange(0, max(1, min(ncirc, 3)))]), ad, fl))
        elif k in ("close", "remove"):
            ops.append((k, r.randrange(0, max(1, min(ncirc, 3)))))
        elif k == "toggle":
            ops.append(("toggle", r.choice(cids[:max(1, novl)])))
        else:
            ops.append((k,))
    return ops


# ---------------------------------------------------------------------------- delivery filter
def run_notify_impl(listeners, from_tunnel, open_=True):
    """real TunnelEndpoint.notify_listeners over listeners registered on the wrapped endpoint"""
    from ipv8.messaging.interfaces.endpoint import EndpointListener
    got = []

    class L(EndpointListener):
        def __init__(self, ep, i):      # (the base constructor only estimates LAN addresses)
            self.endpoint = ep
            self.i = i

        def on_packet(self, packet):
            got.append(self.i)
    n = _node(False)
    n.reset()
    n.inner.opened = open_
    objs = []
    for (i, an) in listeners:
        o = L(n.ep, abs(i))
        if an is not None:
            o.anonymize = an
        objs.append(o)
        if i < 0:       # registered for the packet's prefix only (as a Community does)
            n.ep.add_prefix_listener(o, PFX_A)
        else:
            n.ep.add_listener(o)
    n.ep.notify_listeners((addr_of(3), PKT_A), from_tunnel) if from_tunnel is not None else n.ep.notify_listeners((addr_of(3), PKT_A))
    return got


# ---------------------------------------------------------------------------- shrinking a failing history
def valid_history(ops, full):
    """histories the harness can execute meaningfully: an overlay sends only after it was launched; with real
    construction (full) the tunnel community exists only after its launch"""
    novl, tc, dead = 0, not full, set()
    for n_, op in enumerate(ops):
        k = op[0]
        if k == "qbound":
            if n_ != 0:
                return False
        elif k == "launch":
            novl += 1
        elif k == "osend" and (op[1] >= novl or op[1] in dead):
            return False
        elif k == "ounload":
            if op[1] >= novl or op[1] in dead or not full:
                return False
            dead.add(op[1])
        elif k == "launchtunnel":
            if tc:
                return False
            tc = True
        elif k in ("attach", "attachd", "newcirc", "addhop", "close", "remove") and not tc:
            return False
    return True


def shrink(ops, full, key, budget_s=25.0):
    """smallest history found (within the time budget) on which the oracle still reports `key`; -> (ops, what)"""
    t_end = time.time() + budget_s

    def fails(o):
        if not valid_history(o, full):
            return None
        try:
            steps, cidx = run_ops(o, full)
        except Exception:  # noqa
            return None
        for k, what in Oracle().judge(steps, cidx):
            if k == key:
                return what
        return None
    cur = list(ops)
    what = fails(cur)
    if what is None:
        return cur, None
    # cut everything after the step that violates
    lo, hi = 1, len(cur)
    while lo < hi and time.time() < t_end:
        mid = (lo + hi) // 2
        w = fails(cur[:mid])
        if w is not None:
            hi, what = mid, w
        else:
            lo = mid + 1
    cur = cur[:hi]
    # remove chunks, then single operations
    chunk = max(1, len(cur) // 2)
    while chunk >= 1 and time.time() < t_end:
        i = 0
        progress = False
        while i < len(cur) and time.time() < t_end:
            cand = cur[:i] + cur[i + chunk:]
            w = fails(cand) if cand else None
            if w is not None:
                cur, what, progress = cand, w, True
            else:
                i += chunk
        if chunk == 1 and not progress:
            break
        chunk = chunk // 2 if chunk > 1 else (1 if progress else 0)
    # operations that only cancel in pairs (toggle / toggle, attach / detach): try every pair, then singles again
    progress = True
    while progress and len(cur) <= 24 and time.time() < t_end:
        progress = False
        for i, j in itertools.combinations(range(len(cur)), 2):
            if time.time() >= t_end:
                break
            cand = [o for n, o in enumerate(cur) if n not in (i, j)]
            w = fails(cand) if cand else None
            if w is not None:
                cur, what, progress = cand, w, True
                break
        for i in range(len(cur) - 1, -1, -1):
            cand = cur[:i] + cur[i + 1:]
            w = fails(cand) if cand and time.time() < t_end else None
            if w is not None:
                cur, what, progress = cand, w, True
    return cur, what


def ops_json(ops):
    return [[x.hex() if isinstance(x, bytes) else x for x in op] for op in ops]


def ops_from_json(js):
    out = []
    for op in js:
        k = op[0]
        if k == "send":
            out.append(("send", op[1], bytes.fromhex(op[2]), op[3]))
        elif k in ("setanon", "launch"):
            out.append((k, bytes.fromhex(op[1]), op[2]))
        elif k == "toggle":
            out.append((k, bytes.fromhex(op[1])))
        else:
            out.append(tuple(op))
    return out


def report(ctx, ops, full, viol):
    """one shrunk witness per violation key and run; further cases with the same key are only counted"""
    seen = ctx.extra.setdefault("violation_counts", {})
    shown = ctx.__dict__.setdefault("_c07_shown", [])
    small_bound = any(op[0] == "qbound" for op in ops)
    for key, what in viol:
        seen[key] = seen.get(key, 0) + 1
        if [key, small_bound] in shown:       # one witness per key under the real configuration, one under a harness-side bound
            continue
        shown.append([key, small_bound])
        loop = asyncio.new_event_loop()
        asyncio.set_event_loop(loop)
        try:
            small, what2 = loop.run_until_complete(_shrink_async(ops, full, key))
        finally:
            loop.run_until_complete(asyncio.sleep(0))
            loop.close()
        ctx.violation(key, (what2 or what) + " [history of %d ops, shrunk from %d]" % (len(small), len(ops)),
                      {"kind": "hist", "full": full, "ops": ops_json(small), "key": key})


async def _shrink_async(ops, full, key):
    return shrink(ops, full, key)


# ---------------------------------------------------------------------------- the check
def run(ctx):
    r = ctx.rng("main")
    pyrandom.seed(ctx.seed)
    # stage 0: corpus
    for path in sorted(glob.glob(os.path.join(repoenv.VERIF, "corpus", "C07", "*.json"))):
        js = json.load(open(path))
        for c in js.get("cases", []):
            ops = ops_from_json(c["ops"])
            (_, viol, _), = work_cases([(c.get("full", False), ops)])
            for key, what in viol[:3]:
                ctx.violation(key, "corpus %s: %s" % (os.path.basename(path), what),
                              {"kind": "hist", "full": c.get("full", False), "ops": c["ops"], "key": key})
    # stage G
    try:
        text = tr_tunnel_ep.write()
        ctx.extra["generated"] = {"gen/G07_consts.v": len(text)}
    except Exception as e:  # noqa  (fail closed)
        ctx.broke("translator tr_tunnel_ep aborted", e)
        text = None
    # stage P
    proofs_ok = ctx.proofs() if text is not None else False
    # extension: the function bodies translated from the AST (gen/G07_tunnel_ep.v); refinement and transferred theorems
    # in props/C07x.v
    gtext = translate_gen(ctx) if text is not None else None
    if gtext is not None:
        ctx.proofs(part="C07x")
    ctx.coverage["trusted_base"] = [
        "Coq 8.16.1 kernel (coqc, vm_compute); no axioms (Print Assumptions: closed)",
        "translator tools/tr/tr_tunnel_ep.py (literal constants -> gen/G07_consts.v; the bodies of TunnelEndpoint.__init__ / "
        "set_tunnel_community / set_anonymity / send / notify_listeners and TunnelCommunity.find_circuits -> gen/G07_tunnel_ep.v, "
        "fail closed) and the run-time library coq/model/M07_tunnel_ep_rt.v (monad, deque, recorded calls) that gives the "
        "generated text its meaning",
        "hand model coq/model/M07_tunnel_ep.v of TunnelEndpoint.send / set_anonymity / set_tunnel_community / "
        "notify_listeners, Community.__init__ opt-in, Circuit.state / exit_flags / hop, find_circuits; tied by this "
        "run's correspondence (harness: tools/checks/c07.py, alpha abstraction, spies on inner send / send_data / create_circuit)",
        "what TunnelCommunity.send_data does with the packet below the spy (cell encryption, C04/C05) is only spot-checked "
        "(datagram carries the tunnel prefix, goes to the first hop, packet not in clear)",
    ]
    ctx.assumptions = [
        "outside the translated set (runtime): create_circuit adds at most one fresh EXTENDING circuit and nothing else; "
        "send_data does not change what the endpoint reads; Circuit.state / exit_flags / hop / circuit_id / goal_hops / ctype "
        "are the hand model's; Circuit objects are truthy; which listeners are candidates is the wrapped endpoint's business",
        "the overlay's endpoint is a TunnelEndpoint (Community.__init__ only logs a warning otherwise)",
        "the tunnel overlay's own prefix is never switched on (TunnelCommunity.__init__ switches it off)",
        "every packet of an overlay starts with the 22-byte prefix the overlay registered (ezr_pack / _prefix)",
        "single-threaded use of the endpoint (no concurrent send)",
    ]
    jobs = 14
    pool = multiprocessing.Pool(jobs)
    try:
        _stage_c(ctx, r, pool, text is not None, gtext is not None)
    finally:
        pool.terminate()
        pool.join()


def translate_gen(ctx):
    """stage G of the extension; returns the generated text or None (reported as broken)"""
    try:
        gtext = tr_tunnel_ep.write_gen()
        ctx.extra.setdefault("generated", {})["gen/G07_tunnel_ep.v"] = len(gtext)
        return gtext
    except Exception as e:  # noqa  tr_expr.Unsupported or anything else: fail closed
        ctx.broke("translator tr_tunnel_ep (function bodies) aborted", e)
        try:
            os.remove(tr_tunnel_ep.GEN_DEST)     # nothing may be proved or evaluated against stale definitions
        except OSError:
            pass
        return None


def _stage_c(ctx, r, pool, have_model, have_gen=False):
    t0 = time.time()
    tm = ctx.extra.setdefault("stage_wall_s", {})
    # ---- exhaustive families: digest of implementation runs vs digest computed by the model in Coq
    fams = families(ctx.quick)
    enum_jobs, enum_cases, enum_meta = [], [], []
    for f in fams:
        alpha, pre, depth, split = f["alpha"], f["pre"], f["depth"], f["split"]
        for head in itertools.product(range(len(alpha)), repeat=split):
            pre_ops = pre + [impl_op(alpha[i]) for i in head]
            enum_jobs.append((alpha, pre_ops, depth - split))
            enum_meta.append((f["name"], head))
            pre_coq = "[" + "; ".join([static_op_coq(o) for o in pre] + [static_op_coq(alpha[i]) for i in head]) + "]"
            enum_cases.append("([%s], %s, %d%%nat)" % ("; ".join(static_op_coq(o) for o in alpha), pre_coq, depth - split))
    async_enum = pool.map_async(work_enum, enum_jobs, chunksize=1)
    ff = family_overflow(ctx.quick)
    f_jobs = []
    for head in itertools.product(range(len(ff["alpha"])), repeat=ff["split"]):
        f_jobs.append((ff["alpha"], ff["pre"] + [o for i in head for o in ff["alpha"][i]], ff["depth"] - ff["split"]))
    async_f = pool.map_async(work_enum_oracle, f_jobs, chunksize=1)

    # ---- generated histories (pre-built node): random mix, overflow
    nh = 1500 if ctx.quick else 6000
    cases = []
    for i in range(nh):
        n = r.choice([3, 6, 10, 16, 30]) if i % 20 else 60
        cases.append((False, gen_history(r, n) if i % 2 else gen_scenario(r, max(2, n // 2))))
    for i in range(15 if ctx.quick else 60):
        cases.append((False, gen_overflow(r, i % 5)))
    for i in range(80 if ctx.quick else 600):          # overflow after a flush under a small harness-side bound, with noise
        ops = gen_overflow_after_flush(r, bound=r.choice([1, 2, 3, 5, 8]))
        for _ in range(r.choice([0, 0, 1, 3])):
            ops.insert(r.randrange(3, len(ops) + 1), r.choice(gen_ops(r, 1, hops_choices=(1, 2), h_cur=1) or [("detach",)]))
        cases.append((False, ops))
    # ---- histories with real overlays (full construction per case)
    for i in range(400 if ctx.quick else 2000):
        cases.append((True, gen_full(r, r.choice([4, 8, 14, 25]))))
    rs = ctx.rng("siblings")        # its own stream: the histories above stay what they were
    for i in range(120 if ctx.quick else 600):
        cases.append((True, gen_siblings(rs)))
    chunks = [cases[i:i + 50] for i in range(0, len(cases), 50)]
    results = [x for part in pool.map(work_cases, chunks, chunksize=1) for x in part]
    tm["impl_histories"] = round(time.time() - t0, 1)
    coq_cases, full_obs, kinds = [], [], {}
    dist = {"raw": 0, "tunnel": 0, "create": 0, "hist_with_tunnel": 0, "hist_queue_full": 0}
    gen_digs, cmp_cases, n_oracle_only, failing = [], [], 0, []
    for (full, ops), (c_all, viol, summ) in zip(cases, results):
        for op in ops:
            kinds[op[0]] = kinds.get(op[0], 0) + 1
        ctx.count(("hist", full, tuple(map(tuple_op, ops))), nontrivial=summ[1] > 0 or summ[3] > 0)
        dist["raw"] += summ[0]
        dist["tunnel"] += summ[1]
        dist["create"] += summ[2]
        dist["hist_with_tunnel"] += 1 if summ[1] else 0
        dist["hist_queue_full"] += 1 if summ[3] >= QUEUE_BOUND else 0
        if viol:
            failing.append((ops, full, viol))
        if c_all is None:           # history with a harness-side queue bound: oracle only
            n_oracle_only += 1
            continue
        c_ops, c_exp, c_dig, c_gdig = c_all
        coq_cases.append((c_ops, c_dig))
        cmp_cases.append((full, ops))
        gen_digs.append(c_gdig)
        full_obs.append(c_exp)
    ctx.extra["histories_oracle_only"] = n_oracle_only
    for ops, full, viol in sorted(failing, key=lambda x: len(x[0])):       # short histories first: smaller witnesses
        report(ctx, ops, full, viol)
    for (full, ops), (_, _, summ) in list(zip(cases, results))[:3]:
        ctx.sample({"history": ops_json(ops)[:12], "real_overlays": full, "raw/tunnel/create/maxqueue": summ})
    ctx.extra["op_mix"] = kinds
    ctx.extra["distribution"] = dist
    if have_model:
        # the model's digest of the whole history (all outputs, all byte strings, final state) against the
        # same digest of what the implementation did
        shard = 150 if ctx.quick else 250
        gen_mism = []
        if have_gen:
            # one pass: the hand model AND the functions generated from the source (model/M07_tunnel_ep_gen.run_gen; its
            # digest covers the real calls and the states) against what the implementation did
            both = [(c, "(%s, %s)" % (d, g)) for (c, d), g in zip(coq_cases, gen_digs)]
            mism2, errs = eval_cases("(fun ops => (run_case_digest ops, gen_history_digest ops))",
                                     "(fun a b => Z.eqb (fst a) (fst b) && Z.eqb (snd a) (snd b))", both,
                                     os.path.join(ctx.scratch, "hist"), "list op * (Z * Z)", shard, imports=IMPORTS_GEN)
            mism = []
            if mism2 and not errs:       # which of the two differs
                sub = [coq_cases[i] for i in mism2]
                m3, errs = eval_cases("run_case_digest", "Z.eqb", sub, os.path.join(ctx.scratch, "hist2"), "list op * Z", shard)
                mism = [mism2[j] for j in m3]
                gen_mism = [i for i in mism2 if i not in mism]
            if not errs:
                ctx.coverage["traces_validated_against_generated"] = len(both) - len(gen_mism) - len(mism)
        else:
            mism, errs = eval_cases("run_case_digest", "Z.eqb", coq_cases, os.path.join(ctx.scratch, "hist"),
                                    "list op * Z", shard)
        for e in errs:
            ctx.broke("model evaluation failed (histories)", e)
        for i in gen_mism[:4]:
            ctx.broke("correspondence: history differs between the GENERATED functions (gen/G07_tunnel_ep.v) and the implementation",
                      json.dumps({"full": cmp_cases[i][0], "ops": ops_json(cmp_cases[i][1]), "impl": full_obs[i][:1500]}))
        for n, i in enumerate(mism[:8]):
            model_says = ""
            if n == 0:
                model_says = coqrun.eval_terms(IMPORTS, ["run_case %s" % coq_cases[i][0]], os.path.join(ctx.scratch, "diag"),
                                               preamble=PREAMBLE)[-3000:]
            ctx.broke("correspondence: history differs between model and implementation",
                      json.dumps({"full": cmp_cases[i][0], "ops": ops_json(cmp_cases[i][1]), "impl": full_obs[i][:1500],
                                  "model": model_says}))
        ctx.coverage["traces_validated_against_impl"] += len(coq_cases) - len(mism)

    tm["model_histories"] = round(time.time() - t0, 1)
    # ---- delivery filter
    ncases, nexp = [], []
    lsets = []
    for n in range(0, 4):
        for flags in itertools.product([None, False, True], repeat=n):
            lsets.append([(i + 1, f) for i, f in enumerate(flags)])
    for _ in range(40 if ctx.quick else 400):
        lsets.append([(i + 1, r.choice([None, False, True])) for i in range(r.randrange(4, 9))])
    njobs = [(ls, ft, True) for ls in lsets for ft in (False, True, None)] + [([(1, True), (2, False)], True, False)]
    ngot = pool.apply(work_notify_batch, (njobs,))
    for (ls, ft, _), got in zip(njobs[:-1], ngot[:-1]):
        eff = bool(ft)
        want = [i for (i, an) in ls if bool(an) == eff]      # the property, directly
        ctx.count(("notify", tuple(ls), ft), nontrivial=len(ls) > 0)
        if got != want:
            extra = [i for i in got if i not in want]
            key = "delivery/wrong-origin" if extra else "delivery/missing"
            ctx.violation(key, "notify_listeners(from_tunnel=%s) over listeners %s delivered to %s, expected %s" % (ft, ls, got, want),
                          {"kind": "notify", "listeners": [[i, an] for i, an in ls], "from_tunnel": ft})
        ncases.append(("([%s], %s)" % ("; ".join("(%d, %s)" % (i, "None" if an is None else "Some " + cb(an)) for i, an in ls), cb(eff)),
                       "[" + "; ".join(str(i) for i in got) + "]"))
    # listeners registered per prefix (which of them the endpoint considers differs between versions of
    # notify_listeners; that none with the wrong flag is served does not)
    pjobs = []
    for _ in range(60 if ctx.quick else 400):
        ls = [((i + 1) * r.choice([1, -1]), r.choice([None, False, True])) for i in range(r.randrange(1, 7))]
        pjobs.append((ls, r.choice([False, True]), True))
    for (ls, ft, _), got in zip(pjobs, pool.apply(work_notify_batch, (pjobs,))):
        allowed = [abs(i) for (i, an) in ls if bool(an) == ft]
        ctx.count(("notify-prefixed", tuple(ls), ft), nontrivial=True)
        if any(i not in allowed for i in got):
            ctx.violation("delivery/wrong-origin", "notify_listeners(from_tunnel=%s) over listeners %s (negative: prefix-registered) "
                          "delivered to %s" % (ft, ls, got),
                          {"kind": "notify", "listeners": [[i, an] for i, an in ls], "from_tunnel": ft, "safety_only": True})
    closed = ngot[-1]
    if closed:
        ctx.violation("delivery/closed-endpoint", "delivery on a closed endpoint to %s" % closed,
                      {"kind": "notify", "listeners": [[1, True], [2, False]], "from_tunnel": True, "closed": True})
    if have_model:
        mism, errs = coqrun.eval_mismatches(IMPORTS_GEN if have_gen else IMPORTS,
                                            "(fun c => run_notify c ++ 0 :: run_notify_gen c)" if have_gen else "run_notify",
                                            "list_eqb Z.eqb",
                                            [(c, "(%s ++ 0 :: %s)" % (e, e)) for c, e in ncases] if have_gen else ncases,
                                            os.path.join(ctx.scratch, "ntf"),
                                            ctype="notify_case * list Z", shard=400, jobs=4, preamble=PREAMBLE)
        for e in errs:
            ctx.broke("model evaluation failed (notify)", e)
        for i in mism[:5]:
            ctx.broke("correspondence: delivery filter differs", ncases[i])
        ctx.coverage["traces_validated_against_impl"] += len(ncases) - len(mism)

    # ---- collect the exhaustive families
    tm["notify"] = round(time.time() - t0, 1)
    enum_res = async_enum.get()
    f_res = async_f.get()
    ctx.coverage["evaluations"] += sum(x[1] for x in f_res)
    ctx._distinct.add(("enum-oracle", ff["name"], sum(x[2] for x in f_res)))
    for viols, _, _ in f_res:
        for ops, v in viols[:1]:
            report(ctx, ops, False, v)
    tm["impl_exhaustive"] = round(time.time() - t0, 1)
    nseq_total = 0
    for (name, head), (acc, viols, nseq, nontriv), job in zip(enum_meta, enum_res, enum_jobs):
        nseq_total += nseq
        ctx.coverage["evaluations"] += nseq
        ctx._distinct.add(("enum", name, head, nontriv))
        for ops, v in viols[:2]:
            report(ctx, ops, False, v)
    ctx.extra["exhaustive"] = [{"family": f["name"], "alphabet": len(f["alpha"]), "depth": f["depth"],
                                "sequences": len(f["alpha"]) ** f["depth"]} for f in fams + [ff]]
    ctx.coverage["distinct_nontrivial_enum"] = sum(x[3] for x in enum_res)
    if have_model:
        ecases = [(c, str(res[0])) for c, res in zip(enum_cases, enum_res)]
        mism, errs = coqrun.eval_mismatches(IMPORTS, "run_enum", "Z.eqb", ecases, os.path.join(ctx.scratch, "enum"),
                                            ctype="enum_case * Z", shard=1 if not ctx.quick else 2, jobs=14, timeout=1500, preamble=PREAMBLE)
        for e in errs:
            ctx.broke("model evaluation failed (exhaustive family)", e)
        for i in mism[:4]:
            name, head = enum_meta[i]
            detail = locate_enum_mismatch(ctx, enum_jobs[i])
            ctx.broke("correspondence: exhaustive family %s, subtree %s: implementation and model digests differ" % (name, list(head)),
                      detail)
        ctx.coverage["traces_validated_against_impl"] += sum(res[2] for j, res in enumerate(enum_res) if j not in mism)
    tm["model_exhaustive"] = round(time.time() - t0, 1)
    ctx.sample({"exhaustive": ctx.extra["exhaustive"]})
    ctx.coverage["rule"] = (
        "exhaustive: every operation sequence of the stated depth over 4 alphabets (send-anon, send-plain, circuit gains hop / "
        "ready, close, remove, attach, detach, toggle, foreign/unusable circuits) on the real objects, digest-compared with the "
        "model; generated: random op mixes incl. short / near-miss prefixes, hops 0..3, foreign circuits, queue overflow "
        "(>100 waiting packets, also after a flush: wait -> ready -> flush -> circuit gone -> overflow; the same exhaustively and "
        "with noise under a small harness-side bound, oracle only), and real Community objects launched with/without settings.anonymize sending introduction "
        "requests; delivery filter: all listener flag combinations up to 3 listeners + random; non-trivial = history with a "
        "tunnel send or a queued packet")
    ctx.coverage["exhaustive"] = False


def tuple_op(op):
    return tuple(tuple(x) if isinstance(x, list) else x for x in op)


def locate_enum_mismatch(ctx, job):
    """find a shortest concrete sequence below a differing subtree (explicit case-by-case comparison)"""
    alpha, pre, depth = job
    cases, meta = [], []
    for d in range(0, min(depth, 3) + 1):
        for w in itertools.product(range(len(alpha)), repeat=d):
            ops = pre + [impl_op(alpha[i]) for i in w]
            meta.append(ops)
    res = [x for x in work_cases([(False, o) for o in meta])]
    cases = [(c[0], c[1]) for (c, _, _) in res]
    mism, errs = coqrun.eval_mismatches(IMPORTS, "run_case", "obs_eqb", cases, os.path.join(ctx.scratch, "loc"),
                                        ctype="list op * obs", shard=200, jobs=8, preamble=PREAMBLE)
    if mism:
        i = min(mism, key=lambda j: len(meta[j]))
        return json.dumps({"ops": ops_json(meta[i]), "impl": cases[i][1][:1500]})
    return "no difference up to %d further operations; prefix %s" % (min(depth, 3), ops_json(pre))


def replay(path):
    """Re-run the recorded failing cases against the implementation and print what happens."""
    repoenv.setup()
    js = json.load(open(path))
    rc = 0
    for v in js.get("violations", []):
        c = v["case"]
        if c.get("kind") == "notify":
            ls = [(i, an) for i, an in c["listeners"]]
            got = work_notify(ls, c["from_tunnel"], not c.get("closed", False))
            want = [] if c.get("closed") else [abs(i) for (i, an) in ls if bool(an) == bool(c["from_tunnel"])]
            print("notify_listeners(from_tunnel=%s) listeners=%s -> delivered %s, %s %s" % (
                c["from_tunnel"], ls, got, "allowed" if c.get("safety_only") else "expected", want))
            rc |= int(any(i not in want for i in got) if c.get("safety_only") else got != want)
            continue
        ops = ops_from_json(c["ops"])
        (_, viol, summ), = work_cases([(c.get("full", False), ops)])
        for op in ops:
            print("  op", [x.hex() if isinstance(x, bytes) else x for x in op])
        print("raw/tunnel/create/maxqueue:", summ)
        for key, what in viol:
            print("VIOLATES", key, "::", what)
        rc |= int(bool(viol))
    for b in js.get("no_longer_checks", []):
        print("no longer checks:", b["what"])
        print(b.get("detail", "")[:2000])
        rc = 1
    return rc


def work_notify_batch(jobs):
    loop = asyncio.new_event_loop()
    asyncio.set_event_loop(loop)
    try:
        async def go():
            return [run_notify_impl(ls, ft, op) for (ls, ft, op) in jobs]
        return loop.run_until_complete(go())
    finally:
        loop.run_until_complete(asyncio.sleep(0))
        loop.close()


def work_notify(ls, ft, open_):
    return work_notify_batch([(ls, ft, open_)])[0]


# ---------------------------------------------------------------------------- evaluation inside Coq, compact case files
_BZ = __import__("re").compile(r"\(BZ (\d+)%nat 0x([0-9a-f]+)\)")


def eval_cases(run, eqb, cases, scratch, ctype, shard, jobs=14, timeout=900, imports=None):
    """coqrun.eval_mismatches with one twist: inside a shard every distinct byte string is defined once
    (Definition b<i> := BZ ...) and referred to by name, which keeps the case terms small."""
    mism, errs = [], []
    groups = []
    for start in range(0, len(cases), shard):
        part = cases[start:start + shard]
        names = {}

        def sub(m):
            key = (m.group(1), m.group(2))
            if key not in names:
                names[key] = "b%d" % len(names)
            return names[key]
        part2 = [(_BZ.sub(sub, c), _BZ.sub(sub, e)) for c, e in part]
        pre = PREAMBLE + "".join("Definition %s : bytes := Eval vm_compute in BZ %s%%nat 0x%s.\n" % (n, k[0], k[1])
                                 for k, n in names.items())
        groups.append((start, part2, pre))
    from concurrent.futures import ThreadPoolExecutor

    def one(g):
        start, part2, pre = g
        return start, coqrun.eval_mismatches(imports or IMPORTS, run, eqb, part2, os.path.join(scratch, "s%d" % start), ctype=ctype,
                                             shard=len(part2), jobs=1, timeout=timeout, preamble=pre)
    with ThreadPoolExecutor(max_workers=jobs) as ex:
        for start, (m, e) in ex.map(one, groups):
            mism.extend(start + i for i in m)
            errs.extend(e)
    return sorted(mism), errs
