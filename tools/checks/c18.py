"""C18 - attribute proofs accept the true value and reject others.

Stage 0: replay corpus/C18/*.json through the oracle.
Stage G: translate primitives/value.py (FP2Value, _modinv) -> coq/gen/G18_fp2.v           (tools/tr/tr_value.py)
         translate the protocol code -> coq/gen/G18_proofs.v (tools/tr/tr_proofs.py): boudot EL/SQR create+check,
         create_attest_pair, PengBaoPublicData.check, generate_response, boneh.decode, bonehexact create_challenge_response /
         process_challenge_response / binary_relativity_match / _certainty, AttestationCommunity.on_challenge_response;
         props/C18x.v proves gen_refines_hand_model for each and restates the theorems over the generated code
Stage P: props/C18.v  (field arithmetic correct for all operands and moduli, equality decides fraction equality
         for prime moduli, field laws, intpow = power, modinv; decode.encode, homomorphism; the honest bit-pair
         round reconstructs binary_relativity in any order / subset, true value scores 1-2^-n, other profiles 0;
         range-proof completeness algebra; serialisation round trips)
Stage C: (1) real FP2Value / _modinv against the translated model on generated operands (general denominators,
             moduli 0, +-1, small, composite, primes up to 512 bits), single operations and expression trees;
         (2) binary_relativity / _match / _certainty / process_challenge_response against model M18_bitpairs;
         (3) end-to-end runs of the real algorithms with fresh keys (three exact formats, custom key sizes, the
             range format), all orders/subsets for short bit spaces, random subsets for long ones; the profile
             the verifier reconstructs is also compared with the model's binary_relativity of the hash;
         (4) two real AttestationCommunity nodes: honest prover, and a prover who forges answers;
         (5) ipack/iunpack/_sipack/_siunpack/key/attestation serialisation and the range-proof model.
Oracle : independent Python statements (fraction arithmetic in Z_p[x]/(x^2+x+1), bit counting on the hash,
         exact rationals for the scores) evaluated on what the implementation returned.
"""
from __future__ import annotations

import asyncio
import glob
import hashlib
import itertools
import json
import math
import os
import struct
from fractions import Fraction

from tools.tr import tr_expr, tr_value
from tools.vlib import coqrun
from tools.vlib.repoenv import VERIF

IMPORTS = ("From Coq Require Import ZArith List Bool QArith.\n"
           "From IPV8V Require Import lib.PyErr lib.Bytes model.M18_base gen.G18_fp2 model.M18_fexpr model.M18_hom "
           "model.M18_bitpairs model.M18_ser model.M18_range.\n"
           "Import ListNotations.\nOpen Scope Z_scope.\n")

IMPORTS_GEN = IMPORTS.replace("model.M18_range.", "model.M18_range model.M18_gen_rt model.M18_driver gen.G18_proofs model.M18_gen_run.")
HAVE_GEN = [False]

COQ_EXN = {"AssertionError", "ZeroDivisionError", "TypeError", "ValueError", "IndexError", "KeyError", "StructError", "OutOfFuel",
           "RuntimeError"}


def cz(n):
    return str(n) if n >= 0 else "(%d)" % n


def zl(l):
    return "[" + "; ".join(cz(int(x)) for x in l) + "]"


def coq_res(r):
    """('ok', [ints]) / ('exc', name) -> Coq term of type res (list Z)"""
    if r[0] == "ok":
        return "Ok %s" % zl(r[1])
    return "Raise %s" % (r[1] if r[1] in COQ_EXN else "OSError")     # OSError: never produced by the model


# =============================================================================== small number theory (harness)
def is_prime(n, _bases=(2, 3, 5, 7, 11, 13, 17, 19, 23, 29, 31, 37)):
    if n < 2:
        return False
    for q in _bases:
        if n % q == 0:
            return n == q
    d, s = n - 1, 0
    while d % 2 == 0:
        d //= 2
        s += 1
    for a in _bases:
        x = pow(a, d, n)
        if x in (1, n - 1):
            continue
        for _ in range(s - 1):
            x = x * x % n
            if x == n - 1:
                break
        else:
            return False
    return True


def gen_prime(r, bits, mod3=None):
    while True:
        n = r.getrandbits(bits) | (1 << (bits - 1)) | 1
        if (mod3 is None or n % 3 == mod3) and is_prime(n):
            return n


# =============================================================================== oracle: fractions over R_p
def red3(p, a, b, c):
    return ((a - c) % p, (b - c) % p)


def rmul(p, s, t):
    # (s0 + s1 x)(t0 + t1 x) with x^2 = -x - 1
    return ((s[0] * t[0] - s[1] * t[1]) % p, (s[0] * t[1] + s[1] * t[0] - s[1] * t[1]) % p)


def radd(p, s, t):
    return ((s[0] + t[0]) % p, (s[1] + t[1]) % p)


def rsub(p, s, t):
    return ((s[0] - t[0]) % p, (s[1] - t[1]) % p)


def rpow(p, s, k):
    out = (1 % p, 0)
    while k:
        if k & 1:
            out = rmul(p, out, s)
        s = rmul(p, s, s)
        k >>= 1
    return out


def nd(p, f):
    """numerator, denominator of raw fields [mod,a,b,c,aC,bC,cC]"""
    return red3(p, f[1], f[2], f[3]), red3(p, f[4], f[5], f[6])


def fr_equal(p, x, y):
    return rmul(p, x[0], y[1]) == rmul(p, y[0], x[1])


SPEC_BIN = {
    "OAdd": lambda p, x, y: (radd(p, rmul(p, x[0], y[1]), rmul(p, y[0], x[1])), rmul(p, x[1], y[1])),
    "OSub": lambda p, x, y: (rsub(p, rmul(p, x[0], y[1]), rmul(p, y[0], x[1])), rmul(p, x[1], y[1])),
    "OMul": lambda p, x, y: (rmul(p, x[0], y[0]), rmul(p, x[1], y[1])),
    "ODiv": lambda p, x, y: (rmul(p, x[0], y[1]), rmul(p, x[1], y[0])),
}
WHAT = {"OAdd": "add/wrong-sum", "OSub": "sub/wrong-difference", "OMul": "mul/wrong-product", "ODiv": "div/wrong-quotient"}


# =============================================================================== implementation side: FP2Value
def fields(v):
    return [v.mod, v.a, v.b, v.c, v.aC, v.bC, v.cC]


def impl_fp2(op, lx, ly, k):
    from ipv8.attestation.wallet.primitives import value as V
    try:
        if op == "OModinv":
            return ("ok", [V._modinv(lx[0], lx[1])])
        x = V.FP2Value(*lx)
        if op == "OInit":
            return ("ok", fields(x))
        if op == "ONorm":
            return ("ok", fields(x.normalize()))
        if op == "OInv":
            return ("ok", fields(x.inverse()))
        if op == "OPow":
            return ("ok", fields(x.intpow(k)))
        if op == "ONom":
            return ("ok", fields(x.wp_nominator()))
        if op == "ODenInv":
            return ("ok", fields(x.wp_denom_inverse()))
        if op == "OCompress":
            return ("ok", fields(x.wp_compress()))
        y = V.FP2Value(*ly)
        if op == "OAdd":
            return ("ok", fields(x + y))
        if op == "OSub":
            return ("ok", fields(x - y))
        if op == "OMul":
            return ("ok", fields(x * y))
        if op == "ODiv":
            return ("ok", fields(x // y))
        if op == "OEq":
            return ("ok", [1 if x == y else 0])
        raise RuntimeError(op)
    except Exception as e:  # noqa: BLE001
        return ("exc", type(e).__name__)


def oracle_fp2(ctx, op, lx, ly, k, res):
    """The property on one operation of the implementation; appends violations. Returns True if judged."""
    case = {"kind": "fp2", "op": op, "x": [str(v) for v in lx], "y": [str(v) for v in ly], "k": str(k)}
    if op == "OModinv":
        e, m = lx
        if m > 1 and e >= 0 and math.gcd(e, m) == 1:
            if res[0] != "ok" or (res[1][0] * e) % m != 1 or not 0 <= res[1][0] < m:
                ctx.violation("fp2/modinv/not-an-inverse", "_modinv(%d, %d) = %r" % (e, m, res), case)
            return True
        return False
    p = lx[0]
    if p == 0:
        if res != ("exc", "ZeroDivisionError"):
            ctx.violation("fp2/zero-modulus-accepted", "modulus 0 gave %r" % (res,), case)
        return True
    x = nd(p, [p] + [v % p for v in lx[1:]])
    if op in SPEC_BIN or op == "OEq":
        if ly[0] != p:
            return False
        y = nd(p, [p] + [v % p for v in ly[1:]])
        if op == "OEq":
            if not (p > 1 and is_prime(p)):
                return False
            exp = fr_equal(p, x, y)
            if res != ("ok", [1 if exp else 0]):
                ctx.violation("fp2/eq/disagrees-with-cross-multiplication",
                              "%s == %s gave %r mod %d, fractions are %sequal" % (lx[1:], ly[1:], res, p, "" if exp else "not "), case)
            return True
        exp = SPEC_BIN[op](p, x, y)
        if res[0] != "ok" or nd(p, res[1]) != exp:
            ctx.violation("fp2/" + WHAT[op], "%s on %s, %s mod %d: implementation %r, fraction arithmetic %r" % (
                op, lx[1:], ly[1:], p, res if res[0] != "ok" else nd(p, res[1]), exp), case)
        return True
    if op == "OInv":
        if res[0] != "ok" or nd(p, res[1]) != (x[1], x[0]):
            ctx.violation("fp2/inverse/wrong", "inverse of %s mod %d -> %r" % (lx[1:], p, res), case)
        return True
    if not (p > 1 and is_prime(p)):
        return False
    if op == "ONorm":
        ok = res[0] == "ok" and fr_equal(p, nd(p, res[1]), x) and (lx[4] % p == 0 or res[1][4] == 1)
        if not ok:
            ctx.violation("fp2/normalize/changes-value", "normalize of %s mod %d -> %r" % (lx[1:], p, res), case)
        return True
    if op == "OPow":
        n, d = x
        if k < 0:
            n, d = d, n
        exp = (rpow(p, n, abs(k)), rpow(p, d, abs(k)))
        ok = res[0] == "ok" and fr_equal(p, nd(p, res[1]), exp) and (k < 0 or nd(p, res[1]) == exp)
        if not ok:
            ctx.violation("fp2/intpow/not-the-power", "%s ** %d mod %d -> %r, expected %r" % (lx[1:], k, p, res, exp), case)
        return True
    return False


LAWS = [
    ("add-commutative", lambda x, y, z: x + y, lambda x, y, z: y + x, "FAdd V0 V1", "FAdd V1 V0"),
    ("add-associative", lambda x, y, z: (x + y) + z, lambda x, y, z: x + (y + z), "FAdd (FAdd V0 V1) V2", "FAdd V0 (FAdd V1 V2)"),
    ("mul-commutative", lambda x, y, z: x * y, lambda x, y, z: y * x, "FMul V0 V1", "FMul V1 V0"),
    ("mul-associative", lambda x, y, z: (x * y) * z, lambda x, y, z: x * (y * z), "FMul (FMul V0 V1) V2", "FMul V0 (FMul V1 V2)"),
    ("distributive", lambda x, y, z: x * (y + z), lambda x, y, z: x * y + x * z,
     "FMul V0 (FAdd V1 V2)", "FAdd (FMul V0 V1) (FMul V0 V2)"),
    ("sub-is-add-neg", lambda x, y, z: x - y, lambda x, y, z: x + type(x)(x.mod, -1) * y,
     "FSub V0 V1", "FAdd V0 (FMul (FInt (-1)) V1)"),
    ("mul-inverse", lambda x, y, z: x * x.inverse(), lambda x, y, z: type(x)(x.mod, 1), "FMul V0 (FInv V0)", "FInt 1"),
    ("div-is-mul-inverse", lambda x, y, z: x // y, lambda x, y, z: x * y.inverse(), "FDiv V0 V1", "FMul V0 (FInv V1)"),
    ("div-mul-cancel", lambda x, y, z: (x // y) * y, lambda x, y, z: x, "FMul (FDiv V0 V1) V1", "V0"),
    ("sum-of-fractions", lambda x, y, z: (x // y) + (z // y), lambda x, y, z: (x + z) // y,
     "FAdd (FDiv V0 V1) (FDiv V2 V1)", "FDiv (FAdd V0 V2) V1"),
    ("add-shift-denominators", lambda x, y, z: x + (y // z), lambda x, y, z: (x * z + y) // z,
     "FAdd V0 (FDiv V1 V2)", "FDiv (FAdd (FMul V0 V2) V1) V2"),
]


def gen_mod(r, primes, heavy=False):
    """heavy: the operation runs the extended Euclid / many multiplications inside Coq's binary Z (cubic in the
    width), so wide moduli are kept rare there"""
    k = r.random()
    if k < 0.30:
        return r.choice([2, 3, 5, 7, 11, 13, 17, 23, 29, 101])
    if k < 0.65:
        q = r.random()
        if heavy:
            return r.choice(primes[:4] if q < 0.86 else primes[4:6] + primes[8:] if q < 0.985 else primes[6:8])
        return r.choice(primes[:4] if q < 0.6 else primes[4:6] + primes[8:] if q < 0.92 else primes[6:8])
    if k < 0.80:
        return r.choice([4, 6, 9, 15, 21, 35, 64, 77, 1 << 61, 3 ** 40, r.choice(primes[:4]) * r.choice([2, 3, 5, 7])])
    if k < 0.85:
        return r.choice([1, -1, -7, -11, 0])
    return r.getrandbits(r.choice([8, 16, 64, 64, 100] if heavy else [8, 16, 64, 200])) + 2


def gen_raw(r, p):
    """seven raw constructor arguments; general denominators are the common case"""
    big = abs(p) + 2
    def c():
        q = r.random()
        if q < 0.15:
            return 0
        if q < 0.25:
            return r.choice([1, -1, 2, big - 3, big + 5])
        if q < 0.35:
            return -r.randrange(big * 3)
        return r.randrange(big)
    kind = r.random()
    if kind < 0.12:
        return [p, c(), 0, 0, 1, 0, 0]
    if kind < 0.24:
        return [p, c(), c(), 0, 1, 0, 0]
    if kind < 0.34:
        return [p, c(), c(), 0, c(), 0, 0]
    if kind < 0.70:
        return [p, c(), c(), 0, c(), c(), 0]
    if kind < 0.74:
        return [p, 0, 0, 0, c(), c(), c()]
    if kind < 0.78:
        return [p, c(), c(), c(), 0, c(), 0]
    return [p, c(), c(), c(), c(), c(), c()]


HEAVY = {"OEq", "ONorm", "OPow", "ODenInv", "OCompress"}
FOPS = ["OAdd", "OAdd", "OSub", "OMul", "ODiv", "OEq", "OEq", "ONorm", "OInv", "OPow", "ONom", "ODenInv", "OCompress",
        "OInit", "OModinv"]


def stage_fp2(ctx, have_model):
    r = ctx.rng("fp2")
    primes = [gen_prime(r, b, 2) for b in (16, 31, 64, 71, 128, 135, 256, 512)] + [gen_prime(r, 40, 1), gen_prime(r, 90, 1)]
    n = 3000 if ctx.quick else 20000
    cases, meta = [], []
    dist = {}
    for i in range(n):
        op = r.choice(FOPS)
        heavy = op in HEAVY
        p = gen_mod(r, primes, heavy)
        lx = gen_raw(r, p)
        ly = gen_raw(r, p if r.random() < 0.93 else gen_mod(r, primes, heavy))
        k = 0
        if op == "OPow":
            # square-and-multiply inside Coq costs about width^2 * bits of the exponent
            eb = max(4, min(512, (1 << 20) // (abs(p).bit_length() ** 2 + 1)))
            k = r.choice([0, 1, 2, 3, -1, -2, r.randrange(-40, 40), r.getrandbits(r.choice([8, eb])), -r.getrandbits(r.choice([8, eb]))])
        if op == "OModinv":
            m = gen_mod(r, primes, r.random() < 0.8)
            lx = [r.choice([0, 1, r.randrange(abs(m) + 3), r.randrange(abs(m) + 3) % max(1, abs(m))]), m]
            ly = []
        if op == "OEq" and r.random() < 0.5 and lx[0] != 0:
            # equal fractions in a different representation: scale numerator and denominator by the same unit
            s = [lx[0], r.randrange(1, abs(lx[0]) + 1), r.randrange(abs(lx[0]) + 1), 0, 1, 0, 0]
            try:
                from ipv8.attestation.wallet.primitives.value import FP2Value
                X, S = FP2Value(*lx), FP2Value(*s)
                Y = (X * S) // S
                ly = fields(Y)
                if r.random() < 0.3:
                    ly[1] += 1
            except Exception:  # noqa: BLE001
                pass
        res = impl_fp2(op, lx, ly, k)
        judged = oracle_fp2(ctx, op, lx, ly, k, res)
        dist[op] = dist.get(op, 0) + 1
        ctx.count(("fp2", op, tuple(lx), tuple(ly), k), nontrivial=res[0] == "ok")
        cases.append(("(%s, %s, %s, %s)" % (op, zl(lx), zl(ly), cz(k)), coq_res(res)))
        meta.append((op, lx, ly, k, res, judged))
        if i < 2:
            ctx.sample({"fp2_op": op, "x": [str(v) for v in lx], "y": [str(v) for v in ly], "k": str(k), "impl": str(res)})
    ctx.extra["fp2_op_mix"] = dist
    ctx.extra["fp2_oracle_judged"] = sum(1 for m in meta if m[5])
    # laws and expression trees on the implementation
    from ipv8.attestation.wallet.primitives.value import FP2Value
    nl = 30 if ctx.quick else 300
    ecases, emeta = [], []
    for i in range(nl):
        q = r.random()
        p = r.choice([5, 11, 17, 23] + primes[:4]) if q < 0.8 else r.choice(primes[4:6] + primes[8:]) if q < 0.97 else r.choice(primes[6:8])
        raws = [gen_raw(r, p) for _ in range(3)]
        x, y, z = (FP2Value(*w) for w in raws)
        for name, f1, f2, c1, c2 in LAWS:
            try:
                v1, v2 = f1(x, y, z), f2(x, y, z)
                eq = v1 == v2
                res = ("ok", fields(v1) + [1 if eq else 0])
            except Exception as e:  # noqa: BLE001
                eq, res = None, ("exc", type(e).__name__)
            ctx.count(("law", name, p, tuple(map(tuple, raws))))
            if eq is not True:
                ctx.violation("fp2/law/" + name, "%s fails for x,y,z = %s mod %d (%r)" % (name, [w[1:] for w in raws], p, res),
                              {"kind": "law", "law": name, "p": str(p), "raws": [[str(v) for v in w] for w in raws]})
            ecases.append(("(%s, [%s], %s, %s)" % (cz(p), "; ".join(zl(w) for w in raws), c1, c2), coq_res(res)))
            emeta.append((name, p, raws))
    if have_model:
        pre = "Definition V0 := FVar 0. Definition V1 := FVar 1. Definition V2 := FVar 2.\n"
        mism, errs = coqrun.eval_mismatches(IMPORTS, "run_fp2", "res_eqb zlist_eqb", cases, os.path.join(ctx.scratch, "fp2"),
                                            ctype="(fop * list Z * list Z * Z) * res (list Z)", shard=250, jobs=14)
        for e in errs:
            ctx.broke("model evaluation failed (fp2)", e)
        for i in mism[:10]:
            ctx.broke("correspondence: FP2Value.%s differs between translated model and implementation" % meta[i][0],
                      json.dumps({"op": meta[i][0], "x": [str(v) for v in meta[i][1]], "y": [str(v) for v in meta[i][2]],
                                  "k": str(meta[i][3]), "impl": str(meta[i][4])}))
        ctx.coverage["traces_validated_against_impl"] += len(cases) - len(mism)
        mism, errs = coqrun.eval_mismatches(IMPORTS, "run_fexpr", "res_eqb zlist_eqb", ecases, os.path.join(ctx.scratch, "fex"),
                                            ctype="(Z * list (list Z) * fexpr * fexpr) * res (list Z)", shard=120, jobs=14,
                                            preamble=pre)
        for e in errs:
            ctx.broke("model evaluation failed (fexpr)", e)
        for i in mism[:10]:
            ctx.broke("correspondence: expression %s differs between translated model and implementation" % emeta[i][0],
                      json.dumps({"law": emeta[i][0], "p": str(emeta[i][1]), "raws": [[str(v) for v in w] for w in emeta[i][2]]}))
        ctx.coverage["traces_validated_against_impl"] += len(ecases) - len(mism)


# =============================================================================== bit pairs
def profile_of_int(value, bitspace):
    """independent: count the classes of the bit pairs of `value` written on `bitspace` bits (MSB first)"""
    out = [0, 0, 0, 0]
    for i in range(bitspace // 2):
        hi = (value >> (bitspace - 1 - 2 * i)) & 1
        lo = (value >> (bitspace - 2 - 2 * i)) & 1
        out[hi + lo] += 1
    return out


def exact_scores(e, o):
    """match and certainty as exact rationals, from the documented meaning"""
    if any(e[k] < o[k] for k in range(4)):
        m = Fraction(0)
    else:
        m = Fraction(1)
        for k in range(4):
            if e[k] and o[k]:
                m *= Fraction(o[k], e[k])
    return m, m * (1 - Fraction(1, 2) ** sum(o))


def qlit(f):
    fr = Fraction(f)
    return "(%s # %d)" % (cz(fr.numerator), fr.denominator)


def stage_bitpairs(ctx, have_model):
    from ipv8.attestation.wallet.bonehexact import attestation as A
    r = ctx.rng("bitpairs")
    n = 400 if ctx.quick else 6000
    cases = []
    for i in range(n):
        bs = r.choice([0, 1, 2, 3, 4, 5, 8, 16, 31, 32, 33, 64, 256, 512, r.randrange(0, 70)])
        kind = r.random()
        if kind < 0.75:
            v = r.getrandbits(bs) if bs else 0
        elif kind < 0.9:
            v = r.getrandbits(bs + r.randrange(1, 9))        # longer than the bit space
        elif kind < 0.95:
            v = r.choice([0, 1, (1 << bs) - 1 if bs else 0, 1 << bs])
        else:
            v = -r.getrandbits(8) - 1
        try:
            m = A.binary_relativity(v, bs)
            res = ("ok", [m[0], m[1], m[2], m[3]])
        except Exception as e:  # noqa: BLE001
            res = ("exc", type(e).__name__)
        ctx.count(("rel", v, bs), nontrivial=bs >= 2)
        if 0 <= v < (1 << bs) and bs % 2 == 0:
            exp = profile_of_int(v, bs)
            if res != ("ok", exp):
                ctx.violation("bitpairs/binary-relativity-wrong", "binary_relativity(%d, %d) = %r, bit pairs give %r" % (v, bs, res, exp),
                              {"kind": "rel", "value": str(v), "bitspace": bs})
        cases.append(("(%s, %d)" % (cz(v), bs), coq_res(res)))
    if have_model:
        mism, errs = coqrun.eval_mismatches(IMPORTS, "run_relativity", "res_eqb zlist_eqb", cases, os.path.join(ctx.scratch, "rel"),
                                            ctype="(Z * Z) * res (list Z)", shard=200)
        for e in errs:
            ctx.broke("model evaluation failed (binary_relativity)", e)
        for i in mism[:10]:
            ctx.broke("correspondence: binary_relativity differs", cases[i])
        ctx.coverage["traces_validated_against_impl"] += len(cases) - len(mism)
    # tallies: process_challenge_response over response sequences, including unknown keys
    tcases = []
    for i in range(150 if ctx.quick else 2000):
        seq = [r.choice([0, 1, 2, 3]) for _ in range(r.randrange(0, 40))]
        if r.random() < 0.2:
            seq.insert(r.randrange(len(seq) + 1), r.choice([4, 5, 255, -1]))
        m = A.create_empty_relativity_map()
        try:
            for k in seq:
                A.process_challenge_response(m, k)
            res = ("ok", [m[0], m[1], m[2], m[3]])
        except Exception as e:  # noqa: BLE001
            res = ("exc", type(e).__name__)
            if A.multithread_update_lock.locked():
                A.multithread_update_lock.release()
        ctx.count(("tally", tuple(seq)), nontrivial=len(seq) > 1)
        tcases.append((zl(seq), coq_res(res)))
    if have_model:
        mism, errs = coqrun.eval_mismatches(IMPORTS, "run_tally", "res_eqb zlist_eqb", tcases, os.path.join(ctx.scratch, "tal"),
                                            ctype="list Z * res (list Z)", shard=300)
        for e in errs:
            ctx.broke("model evaluation failed (tally)", e)
        for i in mism[:10]:
            ctx.broke("correspondence: process_challenge_response sequence differs", tcases[i])
        ctx.coverage["traces_validated_against_impl"] += len(tcases) - len(mism)
    if HAVE_GEN[0]:
        mism, errs = coqrun.eval_mismatches(IMPORTS_GEN, "run_tally_gen", "res_eqb zlist_eqb", tcases, os.path.join(ctx.scratch, "talg"),
                                            ctype="list Z * res (list Z)", shard=300)
        for e in errs:
            ctx.broke("model evaluation failed (translated process_challenge_response)", e)
        for i in mism[:10]:
            ctx.broke("correspondence: the TRANSLATED process_challenge_response differs from the implementation", tcases[i])
        ctx.coverage["traces_validated_against_impl"] += len(tcases) - len(mism)
    # scores
    scases = []
    for i in range(500 if ctx.quick else 8000):
        npairs = r.choice([1, 2, 3, 8, 16, 16, 40, 53, 54, 128, 256])
        cuts = sorted(r.randrange(npairs + 1) for _ in range(2))
        e = [cuts[0], cuts[1] - cuts[0], npairs - cuts[1], 0]
        kind = r.random()
        if kind < 0.25:
            o = list(e)
        elif kind < 0.6:
            o = [r.randrange(x + 1) for x in e]
        elif kind < 0.8:
            cuts = sorted(r.randrange(npairs + 1) for _ in range(2))
            o = [cuts[0], cuts[1] - cuts[0], npairs - cuts[1], 0]
        else:
            o = [r.randrange(x + 2) for x in e[:3]] + [r.choice([0, 0, 1])]
        ed, od = dict(enumerate(e)), dict(enumerate(o))
        fm, fc = A.binary_relativity_match(ed, od), A.binary_relativity_certainty(ed, od)
        em, ec = exact_scores(e, o)
        ctx.count(("score", tuple(e), tuple(o)))
        exact = em == 0 or (e == o and sum(o) <= 53)
        case = {"kind": "score", "expected": e, "value": o}
        if em == 0 and (fm != 0.0 or fc != 0.0):
            ctx.violation("scores/exceeded-class-not-zero", "expected %r observed %r scores %r" % (e, o, fc), case)
        elif e == o and sum(o) <= 53 and Fraction(fc) != 1 - Fraction(1, 2) ** sum(o):
            ctx.violation("scores/true-value-not-1-2^-n", "profile %r scores %r" % (e, fc), case)
        elif abs(Fraction(fc) - ec) > Fraction(1, 10 ** 12) or abs(Fraction(fm) - em) > Fraction(1, 10 ** 12):
            ctx.violation("scores/differs-from-rational", "expected %r observed %r: %r / %r vs %s / %s" % (e, o, fm, fc, em, ec), case)
        scases.append(("(%s, %s, %s, %s, %s)" % (zl(e), zl(o), "true" if exact else "false", qlit(fm), qlit(fc)), "true"))
    if have_model:
        mism, errs = coqrun.eval_mismatches(
            IMPORTS, "(fun c : list Z * list Z * bool * Q * Q => let '(e, o, x, fm, fc) := c in check_scores (e, o) x fm fc)",
            "Bool.eqb", scases, os.path.join(ctx.scratch, "sc"), ctype="(list Z * list Z * bool * Q * Q) * bool", shard=250)
        for e in errs:
            ctx.broke("model evaluation failed (scores)", e)
        for i in mism[:10]:
            ctx.broke("correspondence: binary_relativity_match/_certainty differ from the rational model", scases[i])
        ctx.coverage["traces_validated_against_impl"] += len(scases) - len(mism)
    if HAVE_GEN[0]:
        mism, errs = coqrun.eval_mismatches(
            IMPORTS_GEN, "(fun c : list Z * list Z * bool * Q * Q => let '(e, o, x, fm, fc) := c in check_scores_gen (e, o) x fm fc)",
            "Bool.eqb", scases, os.path.join(ctx.scratch, "scg"), ctype="(list Z * list Z * bool * Q * Q) * bool", shard=250)
        for e in errs:
            ctx.broke("model evaluation failed (translated scores)", e)
        for i in mism[:10]:
            ctx.broke("correspondence: the TRANSLATED binary_relativity_match/_certainty differ from the implementation's floats", scases[i])
        ctx.coverage["traces_validated_against_impl"] += len(scases) - len(mism)


# =============================================================================== guarded key generation
class KeygenTimeout(BaseException):
    """generate_keypair searches for a 'good' Weil pairing by brute force: with broken arithmetic it never ends"""


_DEADLINE = [None]       # absolute time by which the current end-to-end stage has to finish


def _on_alarm(signum, frame):
    raise KeygenTimeout


def guarded(fn, seconds=90):
    """Run fn() in the main thread under an alarm (nested inside the stage's overall deadline)."""
    import signal
    import time
    now = time.time()
    limit = now + seconds if _DEADLINE[0] is None else min(now + seconds, _DEADLINE[0])
    signal.signal(signal.SIGALRM, _on_alarm)
    signal.alarm(max(1, int(limit - now) + 1))
    try:
        return fn()
    finally:
        if _DEADLINE[0] is None:
            signal.alarm(0)
        else:
            signal.alarm(max(1, int(_DEADLINE[0] - time.time()) + 1))


def with_deadline(fn, seconds):
    import signal
    import time
    _DEADLINE[0] = time.time() + seconds
    signal.signal(signal.SIGALRM, _on_alarm)
    signal.alarm(int(seconds) + 1)
    try:
        return fn()
    finally:
        signal.alarm(0)
        _DEADLINE[0] = None


# =============================================================================== end to end, algorithm level
HASHES = {
    "sha256_4": (lambda b: int.from_bytes(hashlib.sha256(b).digest()[:4], "big"), 32),
    "sha256": (lambda b: int.from_bytes(hashlib.sha256(b).digest(), "big"), 256),
    "sha512": (lambda b: int.from_bytes(hashlib.sha512(b).digest(), "big"), 512),
}


def exact_alg(hash_mode, key_size):
    from ipv8.attestation.wallet.bonehexact.algorithm import BonehExactAlgorithm
    return BonehExactAlgorithm("f", {"f": {"algorithm": "bonehexact", "key_size": key_size, "hash": hash_mode}})


def exact_run(alg, hash_mode, value, others, order_fn, r):
    """One honest exact-match proof with a fresh key. Returns observations."""
    sk = guarded(alg.generate_secret_key)
    pk = sk.public_key()
    blob = alg.attest(pk, value)
    cls = alg.get_attestation_class()
    att_priv = cls.unserialize_private(sk, blob, "f")
    att_pub = cls.unserialize(att_priv.serialize(), "f")
    challenges = alg.create_challenges(att_pub.PK, att_pub)
    obs = {"n": len(challenges), "runs": [], "ser": []}
    # serialisation round trips
    sk2 = alg.load_secret_key(sk.serialize())
    pk2 = alg.load_public_key(pk.serialize())
    obs["ser"].append(("secret-key", sk2 is not None and sk2.serialize() == sk.serialize() and
                       (sk2.p, sk2.n, sk2.t1, sk2.g.a, sk2.g.b, sk2.h.a, sk2.h.b) == (sk.p, sk.n, sk.t1, sk.g.a, sk.g.b, sk.h.a, sk.h.b)))
    obs["ser"].append(("public-key", pk2 is not None and (pk2.p, pk2.g.a, pk2.g.b, pk2.h.a, pk2.h.b) == (pk.p, pk.g.a, pk.g.b, pk.h.a, pk.h.b)))
    obs["ser"].append(("attestation", att_pub.serialize() == blob and len(att_pub.bitpairs) == len(att_priv.bitpairs) and all(
        (x.a.a, x.a.b, x.b.a, x.b.b, x.complement.a, x.complement.b) == (y.a.a, y.a.b, y.b.a, y.b.b, y.complement.a, y.complement.b)
        for x, y in zip(att_pub.bitpairs, att_priv.bitpairs))))
    for order in order_fn(len(challenges)):
        agg = alg.create_certainty_aggregate(att_pub)
        hon = []
        for step, ci in enumerate(order):
            if r.random() < 0.15:          # interleaved honesty check, as on_challenge_response does
                hv = r.choice([0, 1, 2])
                hch = alg.create_honesty_challenge(att_pub.PK, hv)
                hon.append((hv, alg.process_honesty_challenge(hv, alg.create_challenge_response(sk, att_priv, hch)),
                            alg.process_honesty_challenge((hv + 1) % 3, alg.create_challenge_response(sk, att_priv, hch))))
            resp = alg.create_challenge_response(sk, att_priv, challenges[ci])
            alg.process_challenge_response(agg, challenges[ci], resp)
        obs["runs"].append({"order": list(order), "agg": [agg[0], agg[1], agg[2], agg[3]],
                            "score": alg.certainty(value, agg), "others": [alg.certainty(o, agg) for o in others],
                            "honesty": hon})
    return obs


def judge_exact(ctx, hash_mode, key_size, value, others, obs, rel_cases):
    hfun, bitspace = HASHES[hash_mode]
    truth = profile_of_int(hfun(value), bitspace)
    n = bitspace // 2
    base = {"kind": "exact", "hash": hash_mode, "key_size": key_size, "value": value.hex(), "others": [o.hex() for o in others]}
    if obs["n"] != n:
        ctx.violation("exact/number-of-challenges", "%d challenges for %d bit pairs" % (obs["n"], n), base)
    for name, ok in obs["ser"]:
        if not ok:
            ctx.violation("serialisation/%s-roundtrip" % name, "%s does not survive serialisation" % name, base)
    for run in obs["runs"]:
        case = dict(base, order=run["order"])
        m = len(run["order"])
        full = sorted(run["order"]) == list(range(n))
        agg = run["agg"]
        for hv, ok_true, ok_false in run["honesty"]:
            if not ok_true or ok_false:
                ctx.violation("honesty/check-misjudges-honest-prover", "honesty value %d: accepted=%s, wrong value accepted=%s" % (hv, ok_true, ok_false), case)
        if full:
            if agg != truth:
                ctx.violation("exact/profile-not-reconstructed", "aggregate %r, profile of the hash %r" % (agg, truth), case)
            want = 1 - Fraction(1, 2) ** n
            if (n <= 53 and Fraction(run["score"]) != want) or abs(Fraction(run["score"]) - want) > Fraction(1, 10 ** 12):
                ctx.violation("exact/true-value-score", "true value scores %r after %d answers" % (run["score"], n), case)
            for o, s in zip(others, run["others"]):
                po = profile_of_int(hfun(o), bitspace)
                if po != truth and s != 0.0:
                    ctx.violation("exact/other-profile-accepted", "value %s with profile %r scores %r against %r" % (o.hex(), po, s, truth), case)
                if po == truth and Fraction(s) != Fraction(run["score"]):
                    ctx.violation("exact/same-profile-different-score", "value %s" % o.hex(), case)
            rel_cases.append(("(%s, %d)" % (cz(hfun(value)), bitspace), coq_res(("ok", agg))))
        else:
            if sum(agg) != m or agg[3] != 0 or any(agg[k] > truth[k] for k in range(3)):
                ctx.violation("exact/partial-aggregate-exceeds-profile", "after %d answers aggregate %r, profile %r" % (m, agg, truth), case)
            em, ec = exact_scores(truth, agg)
            if abs(Fraction(run["score"]) - ec) > Fraction(1, 10 ** 12) or (m > 0 and run["score"] <= 0.0):
                ctx.violation("exact/partial-score", "after %d answers true value scores %r, expected %s" % (m, run["score"], ec), case)
            for o, s in zip(others, run["others"]):
                po = profile_of_int(hfun(o), bitspace)
                if any(agg[k] > po[k] for k in range(4)) and s != 0.0:
                    ctx.violation("exact/exceeded-profile-accepted", "value %s scores %r" % (o.hex(), s), case)


def small_bitspace_run(ctx, r, bitspace, rel_cases):
    """attest()/create_challenge()/create_challenge_response() directly: all orders and all subsets."""
    from ipv8.attestation.wallet.bonehexact import attestation as A
    from ipv8.attestation.wallet.primitives.boneh import generate_keypair
    pk, sk = guarded(lambda: generate_keypair(32))
    value = r.getrandbits(bitspace)
    att = A.attest(pk, value, bitspace)
    truth = profile_of_int(value, bitspace)
    n = bitspace // 2
    responses = [A.create_challenge_response(sk, A.create_challenge(pk, bp)) for bp in att.bitpairs]
    case = {"kind": "small", "bitspace": bitspace, "value": value}
    if len(att.bitpairs) != n:
        ctx.violation("exact/number-of-challenges", "%d bit pairs for bitspace %d" % (len(att.bitpairs), bitspace), case)
        return
    count = 0
    for m in range(n + 1):
        for sub in itertools.permutations(range(n), m):
            agg = A.create_empty_relativity_map()
            for i in sub:
                A.process_challenge_response(agg, A.create_challenge_response(sk, A.create_challenge(pk, att.bitpairs[i]))
                                             if m == n and count % 7 == 0 else responses[i])
            count += 1
            lagg = [agg[0], agg[1], agg[2], agg[3]]
            score = A.binary_relativity_certainty(A.binary_relativity(value, bitspace), agg)
            em, ec = exact_scores(truth, lagg)
            ctx.count(("small", bitspace, value, sub))
            if m == n and lagg != truth:
                ctx.violation("exact/profile-not-reconstructed", "order %r aggregate %r profile %r" % (sub, lagg, truth), dict(case, order=list(sub)))
            if any(lagg[k] > truth[k] for k in range(4)) or sum(lagg) != m:
                ctx.violation("exact/partial-aggregate-exceeds-profile", "subset %r aggregate %r profile %r" % (sub, lagg, truth), dict(case, order=list(sub)))
            if abs(Fraction(score) - ec) > Fraction(1, 10 ** 12) or (ec == 0 and score != 0.0) or (m == n and Fraction(score) != ec):
                ctx.violation("exact/partial-score", "subset %r scores %r expected %s" % (sub, score, ec), dict(case, order=list(sub)))
            # every other value of this bit space
            if m == n and bitspace <= 8:
                for w in range(1 << bitspace):
                    pw = profile_of_int(w, bitspace)
                    s = A.binary_relativity_certainty(A.binary_relativity(w, bitspace), agg)
                    if (pw != truth and s != 0.0) or (pw == truth and abs(Fraction(s) - ec) > Fraction(1, 10 ** 12)):
                        ctx.violation("exact/other-profile-accepted", "value %d profile %r scores %r against %r" % (w, pw, s, truth),
                                      dict(case, order=list(sub), other=w))
    rel_cases.append(("(%d, %d)" % (value, bitspace), coq_res(("ok", truth))))


def stage_exact(ctx, have_model):
    r = ctx.rng("exact")
    rel_cases = []
    plan = []
    if ctx.quick:
        plan += [("sha256_4", 32)] * 24 + [("sha256_4", r.choice([33, 40, 48])) for _ in range(4)] + [("sha256", 64)] * 3 + [("sha512", 96)] * 1
    else:
        plan += [("sha256_4", 32)] * 120 + [("sha256_4", r.randrange(32, 65)) for _ in range(60)] + [("sha256", 64)] * 14 + \
                [("sha256", r.randrange(32, 65)) for _ in range(6)] + [("sha512", 96)] * 4 + [("sha512", 64)] * 1
    for hash_mode, ks in plan:
        alg = exact_alg(hash_mode, ks)
        value = r.randbytes(r.choice([0, 1, 2, 5, 8, 20, 64])) if r.random() < 0.8 else r.choice([b"", b"\x00", b"AttributeValue", b"\xff" * 40])
        others = [r.randbytes(r.choice([1, 3, 8])) for _ in range(6)] + [value + b"\x00", value[:-1]]
        n = HASHES[hash_mode][1] // 2

        def orders(nn):
            full = list(range(nn))
            r.shuffle(full)
            yield list(full)
            yield list(reversed(full))
            sub = [i for i in full if r.random() < 0.5]
            yield sub
            yield full[:r.randrange(nn)]
        obs = exact_run(alg, hash_mode, value, others, orders, r)
        ctx.count(("exact", hash_mode, ks, value), nontrivial=True)
        judge_exact(ctx, hash_mode, ks, value, others, obs, rel_cases)
        if len(ctx.coverage["samples"]) < 5:
            ctx.sample({"exact_proof": hash_mode, "key_size": ks, "value": value.hex(), "aggregate": obs["runs"][0]["agg"],
                        "score": obs["runs"][0]["score"], "other_scores": obs["runs"][0]["others"][:3]})
    for bs in ([2, 4, 6, 8] if ctx.quick else [2, 4, 4, 6, 6, 6, 8, 8, 8, 8, 10]):
        small_bitspace_run(ctx, r, bs, rel_cases)
    ctx.extra["exact_proofs"] = len(plan)
    if have_model and rel_cases:
        mism, errs = coqrun.eval_mismatches(IMPORTS, "run_relativity", "res_eqb zlist_eqb", rel_cases, os.path.join(ctx.scratch, "e2e"),
                                            ctype="(Z * Z) * res (list Z)", shard=100)
        for e in errs:
            ctx.broke("model evaluation failed (end-to-end profile)", e)
        for i in mism[:10]:
            ctx.broke("correspondence: the verifier's aggregate differs from the model's binary_relativity of the hash", rel_cases[i])
        ctx.coverage["traces_validated_against_impl"] += len(rel_cases) - len(mism)


# =============================================================================== range proofs
class Diverged(Exception):
    """the construction drew more random numbers than any terminating run does"""


class Draws:
    """Deterministic replacement of the urandom-based draws of pengbaorange, with a log."""

    def __init__(self, r, forced=None, limit=300):
        self.r, self.forced, self.limit = r, list(forced or []), limit
        self.log, self.sec = [], []

    def random_number(self, bytelen):
        if len(self.log) >= self.limit:
            raise Diverged
        v = self.forced.pop(0) if self.forced else self.r.getrandbits(8 * bytelen)
        self.log.append(v)
        return v


def patched_range(r, forced=None):
    """context manager: route every random draw of pengbaorange through ctx's stream"""
    import contextlib
    from ipv8.attestation.wallet.pengbaorange import algorithm as PA, attestation as PT, boudot as PB

    @contextlib.contextmanager
    def cm():
        d = Draws(r, forced)
        saved = (PT._random_number, PB.secure_randint, PB.urandom, PA.urandom)
        orig_sec = PB.secure_randint

        def sec(nmin, nmax):
            v = orig_sec(nmin, nmax)
            d.sec.append(v)
            return v
        PT._random_number = d.random_number
        PB.urandom = lambda n: r.randbytes(n)
        d.alg_forced = []          # values the next _safe_rndint draws of algorithm.py shall see (as urandom bytes)
        PA.urandom = lambda n: d.alg_forced.pop(0).to_bytes(n, "big") if d.alg_forced else r.randbytes(n)
        PB.secure_randint = sec
        try:
            yield d
        finally:
            PT._random_number, PB.secure_randint, PB.urandom, PA.urandom = saved
    return cm()


def accepted_draws(log, v, a, b):
    """Re-trace the loops of create_attest_pair over the logged draws -> the draw each loop accepted.
    Returns (dict, float_sqrt_is_exact)."""
    r_, ra, raa0, w = log[:4]
    rest = list(log[4:])
    w2 = w * w
    mst = w2 * (v - a + 1) * (b - v + 1)
    out = {"r": r_, "ra": ra, "raa": raa0, "w": w, "m4": 0, "m1": 0, "r1": 0, "r2": 0}
    exact = True
    if mst < 0:
        return out, exact

    def loop(mod):
        while rest:
            d = rest.pop(0)
            if mod != 0 and d % mod:
                return d
            if mod == 0:
                return d
        return 0
    fs = int(math.sqrt(mst))
    exact = fs == math.isqrt(mst)
    out["m4"] = loop(fs - 1)
    m4 = out["m4"] % (fs - 1) if fs - 1 else 0
    out["m1"] = loop(mst - m4)
    rst = w2 * ((b - v + 1) * r_ + ra) + raa0 * raa0
    out["r1"] = loop(rst // 2 - 1)
    out["r2"] = loop(rst // 2 - 1)
    return out, exact


def vec_add(x, y):
    return (x[0] + y[0], x[1] + y[1])


def vec_scale(k, x):
    return (k * x[0], k * x[1])


def coq_ev(x):
    return "(%s, %s)" % (cz(x[0]), cz(x[1]))


def range_model_case(v, a, b, a2, b2, s, t, acc, sec, cs):
    """Coq case for run_range; sec = the 11 secure_randint results, cs = (c_el, c_sqr1, c_sqr2)"""
    sec = list(sec) + [0] * (11 - len(sec))
    elr, s1, s2 = sec[0:3], sec[3:7], sec[7:11]
    rd = "(MkRR %s %s %s %s %s %s %s %s (%s, %s, %s) (%s, %s, %s, %s) (%s, %s, %s, %s))" % tuple(
        cz(x) for x in [acc["r"], acc["ra"], acc["raa"], acc["w"], acc["m4"], acc["m1"], acc["r1"], acc["r2"]] + elr + s1 + s2)
    tbl = []
    if cs is not None:
        g, h = (1, 0), (0, 1)
        r_, ra, raa, w = acc["r"], acc["ra"], acc["raa"] * acc["raa"], acc["w"]
        c1 = (v - a + 1, r_)
        ca = vec_add(vec_scale(b - v + 1, c1), vec_scale(ra, h))
        mst = w * w * (v - a + 1) * (b - v + 1)
        fs = math.isqrt(mst) if mst >= 0 else 0
        m4 = acc["m4"] % (fs - 1) if fs - 1 else 0
        # EL(x=b-v+1; g, h, c1, h)
        tbl.append((vec_add(vec_scale(elr[0], g), vec_scale(elr[1], h)), vec_add(vec_scale(elr[0], c1), vec_scale(elr[2], h)), cs[0]))
        # SQR1(x=w; ca, h): F = ca^w h^r2 ; EL(g1=ca, h1=h, g2=F, h2=h)
        F1 = vec_add(vec_scale(w, ca), vec_scale(s1[0], h))
        tbl.append((vec_add(vec_scale(s1[1], ca), vec_scale(s1[2], h)), vec_add(vec_scale(s1[1], F1), vec_scale(s1[3], h)), cs[1]))
        # SQR2(x=m4; g, h)
        F2 = vec_add(vec_scale(m4, g), vec_scale(s2[0], h))
        tbl.append((vec_add(vec_scale(s2[1], g), vec_scale(s2[2], h)), vec_add(vec_scale(s2[1], F2), vec_scale(s2[3], h)), cs[2]))
    tbl_s = "[" + "; ".join("(%s, %s, %s)" % (coq_ev(x), coq_ev(y), cz(c)) for x, y, c in tbl) + "]"
    return "((%s, %s, %s, %s, %s, %s, %s), %s, %s)" % (cz(v), cz(a), cz(b), cz(a2), cz(b2), cz(s), cz(t), rd, tbl_s)


def cheating_attest_pair(PK, value, a, b, bitspace, r, variant):
    """A prover who follows create_attest_pair for a value OUTSIDE [a, b], except where honesty is impossible:
    mst is negative, so instead of writing it as m1 + m2 + m4^2 with positive parts he lets one part go negative.
    Every equation the verifier tests still holds; only the sign tests on the answers can stop him."""
    from ipv8.attestation.wallet.pengbaorange.boudot import EL, SQR
    from ipv8.attestation.wallet.pengbaorange.structs import (PengBaoAttestation, PengBaoCommitment,
                                                               PengBaoCommitmentPrivate, PengBaoPublicData)
    rn = lambda n: r.getrandbits(8 * n) + 1
    bytespace = bitspace // 8
    rr, ra, raa, w = rn(bytespace), rn(bytespace), rn(bitspace // 16) ** 2, rn(bytespace)
    w2 = w * w
    c = PK.g.intpow(value) * PK.h.intpow(rr)
    c1 = c // (PK.g.intpow(a - 1))
    c2 = PK.g.intpow(b + 1) // c
    ca = c1.intpow(b - value + 1) * PK.h.intpow(ra)
    caa = ca.intpow(w2) * PK.h.intpow(raa)
    mst = w2 * (value - a + 1) * (b - value + 1)
    m4 = rn(bytespace)
    m3 = m4 * m4
    m1 = rn(bytespace * 2) if variant == 0 else -rn(bytespace * 2)
    m2 = mst - m1 - m3
    rst = w2 * ((b - value + 1) * rr + ra) + raa
    r1, r2 = rn(bytespace * 4), rn(bytespace * 4)
    r3 = rst - r1 - r2
    ca1 = PK.g.intpow(m1) * PK.h.intpow(r1)
    ca2 = PK.g.intpow(m2) * PK.h.intpow(r2)
    ca3 = caa // (ca1 * ca2)
    el = EL.create(b - value + 1, -rr, ra, PK.g, PK.h, c1, PK.h, b, bitspace)
    sqr1 = SQR.create(w, raa, ca, PK.h, b, bitspace)
    sqr2 = SQR.create(m4, r3, PK.g, PK.h, b, bitspace)
    pub = PengBaoPublicData(PK, bitspace, PengBaoCommitment(c, c1, c2, ca, ca1, ca2, ca3, caa), el, sqr1, sqr2)
    return PengBaoAttestation(pub, PengBaoCommitmentPrivate(m1, m2, m3, r1, r2, r3))


def site_queues(log, v, a, b):
    """the draws each _random_number call site of create_attest_pair consumed, rejected ones included"""
    q = [[x] for x in log[:4]] + [[] for _ in range(4 - min(4, len(log)))]
    rest = list(log[4:])
    if len(log) < 4:
        return q + [[], [], [], []]
    w2 = log[3] * log[3]
    mst = w2 * (v - a + 1) * (b - v + 1)
    if mst < 0:
        return q + [[], [], [], []]

    def take(mod):
        out = []
        while rest:
            d_ = rest.pop(0)
            out.append(d_)
            if mod == 0 or d_ % mod:
                break
        return out
    k4 = int(math.sqrt(mst)) - 1
    q4 = take(k4)
    m4 = (q4[-1] % k4) if q4 and k4 else 0
    q5 = take(mst - m4) if q4 and k4 and m4 else []
    rst = w2 * ((b - v + 1) * log[0] + log[1]) + log[2] * log[2]
    kr = rst // 2 - 1
    ok5 = bool(q5) and (mst - m4) != 0 and q5[-1] % (mst - m4) != 0
    q6 = take(kr) if ok5 else []
    ok6 = bool(q6) and kr != 0 and q6[-1] % kr != 0
    q7 = take(kr) if ok6 else []
    return q + [q4, q5, q6, q7]


def range_gen_case(v, a, b, a2, b2, s, t, ks, d, acc, cs):
    """Coq case for run_range_gen: the generated builder reads the real queues of draws"""
    base = range_model_case(v, a, b, a2, b2, s, t, acc, d.sec, cs)
    tbl = base[base.rindex(", [") + 2:-1] if cs is not None else "[]"
    rq = "[" + "; ".join(zl(q_) for q_ in site_queues(d.log, v, a, b)) + "]"
    return "((%s, %s, %s, %s, %s, %s, %s, %s), %s, %s, %s)" % (cz(v), cz(a), cz(b), cz(a2), cz(b2), cz(s), cz(t), cz(ks), rq, zl(d.sec), tbl)


def range_alg(a, b, ks=32):
    from ipv8.attestation.wallet.pengbaorange.algorithm import PengBaoRangeAlgorithm
    return PengBaoRangeAlgorithm("f", {"f": {"algorithm": "pengbaorange", "key_size": ks, "min": a, "max": b}})


def int_to_value(v):
    return v.to_bytes(max(1, (v.bit_length() + 7) // 8), "big")


# Open finding (model: range_soundness_against_key_owner_refuted).  In the deployed trust model the commitments
# come from a trusted attester, so this is reported through the verdict only once the coordinator has registered
# the key as an open finding in known_findings.jsonl; it is always counted in the evidence (range_stats).
FORGERY_KEY = "range/forged-proof-accepted-by-key-owner"


def stage_range(ctx, have_model):
    from tools.vlib import findings
    open_findings = findings.open_keys("C18")
    from ipv8.attestation.wallet.pengbaorange.attestation import create_attest_pair
    from ipv8.attestation.wallet.pengbaorange.structs import PengBaoAttestation
    from ipv8.attestation.wallet.primitives.structs import unpack_pair
    r = ctx.rng("range")
    nranges = 5 if ctx.quick else 24
    cases, meta, gcases = [], [], []
    stats = {"inside": 0, "outside": 0, "float_sqrt_dev": 0, "forced": 0, "case_errors": 0}

    class NotProvable(Exception):
        """the honest builder failed for a value inside the inclusive range"""

    def inside_case(alg, sk, pk, a, b, ks, v, case, with_wrong):
            with patched_range(r) as d:
                try:
                    att = create_attest_pair(pk, v, a, b, ks)
                    if v in (a, b):      # the path the community takes: PengBaoRangeAlgorithm.attest on the value's bytes
                        alg.attest(pk, int_to_value(v))
                except Diverged:
                    raise NotProvable("the construction does not terminate") from None
                except Exception as e:  # noqa: BLE001
                    raise NotProvable("%s: %s" % (type(e).__name__, e)) from None
                blob = att.serialize_private(pk)
                att_p = PengBaoAttestation.unserialize_private(sk, blob, "f")
                att_v = PengBaoAttestation.unserialize(att_p.serialize(), "f")
                priv = att.privatedata
                pv = att_p.privatedata
                if (priv.m1, priv.m2, priv.m3, priv.r1, priv.r2, priv.r3) != (pv.m1, pv.m2, pv.m3, pv.r1, pv.r2, pv.r3) or \
                        att_v.serialize() != att.serialize() or att_p.serialize() != att.serialize():
                    ctx.violation("serialisation/range-attestation-roundtrip", "range attestation does not survive serialisation", case)
                challenges = alg.create_challenges(att_v.PK, att_v)
                agg = alg.create_certainty_aggregate(att_v)
                if alg.certainty(b"\x01", agg) != 0.0:
                    ctx.violation("range/accepted-without-any-answer", "certainty %r before any challenge was answered" % alg.certainty(b"\x01", agg), case)
                for ch in challenges:
                    resp = alg.create_challenge_response(sk, att_p, ch)
                    alg.process_challenge_response(agg, ch, resp)
                acc_score, rej_score = alg.certainty(b"\x01", agg), alg.certainty(b"\x00", agg)
                stats["inside"] += 1
                ctx.count(("range-in", a, b, v, tuple(d.log[:4])))
                if acc_score != 1.0 or rej_score != 0.0:
                    ctx.violation("range/inside-rejected", "value %d in [%d, %d]: certainty %r (m2 = %d)" % (v, a, b, acc_score, priv.m2), case)
                # the verifier's random source forced to the boundaries of the domain it accepts (_safe_rndint keeps a draw
                # unless it is < LARGE_INTEGER; a draw is key_size bits reduced modulo p - 1): every such challenge must be
                # answered honestly and the in-range value accepted
                if v in (a, b) or with_wrong:
                    from ipv8.attestation.wallet.pengbaorange import algorithm as PA_
                    L = PA_.LARGE_INTEGER
                    top = min((1 << (8 * (ks // 8))) - 1, pk.g.mod - 2)
                    ordinary = lambda: r.randrange(L + 2, top)
                    for bs, bt in [(L, None), (None, L), (L, L), (L + 1, None), (None, L + 1), (L + 1, L + 1), (top, None), (None, top),
                                   (top, top), (L, top), (L - 1 + 1, L + 1)]:
                        s_f, t_f = (bs if bs is not None else ordinary()), (bt if bt is not None else ordinary())
                        d.alg_forced = [s_f, t_f]
                        chs = alg.create_challenges(att_v.PK, att_v)
                        got = tuple(unpack_pair(chs[0])[0:2])
                        aggb = alg.create_certainty_aggregate(att_v)
                        for ch in chs:
                            alg.process_challenge_response(aggb, ch, alg.create_challenge_response(sk, att_p, ch))
                        sc = alg.certainty(b"\x01", aggb)
                        ctx.count(("range-boundary-challenge", a, b, v, s_f, t_f))
                        stats["boundary_challenges"] = stats.get("boundary_challenges", 0) + 1
                        if got != (s_f, t_f):
                            ctx.broke("harness: forcing the verifier's draws did not take effect", "%r instead of %r" % (got, (s_f, t_f)))
                        elif sc != 1.0:
                            ctx.violation("range/inside-rejected-at-challenge-boundary",
                                          "value %d in [%d, %d], challenge (s, t) = (%d, %d) (LARGE_INTEGER = %d): certainty %r"
                                          % (v, a, b, s_f, t_f, L, sc), dict(case, kind="range-challenge", s=s_f, t=t_f))
                # the same proof presented for ranges that do not contain the value
                for (a2, b2) in [(v + 1, max(b, v + 1) + 3), (max(0, a - 3) if v > 0 else 0, v - 1), (a + 1, b + 1), (a - 1, b - 1)]:
                    if not with_wrong or a2 <= v <= b2 or b2 < a2 or (a2, b2) == (a, b):
                        continue
                    alg2 = range_alg(a2, b2, ks)
                    agg2 = alg2.create_certainty_aggregate(att_v)
                    for ch in challenges:
                        alg2.process_challenge_response(agg2, ch, alg.create_challenge_response(sk, att_p, ch))
                    s2 = alg2.certainty(b"\x01", agg2)
                    ctx.count(("range-wrong", a2, b2, v))
                    if s2 != 0.0:
                        ctx.violation("range/outside-accepted", "proof for %d in [%d, %d] accepted for [%d, %d]" % (v, a, b, a2, b2),
                                      dict(case, a2=a2, b2=b2))
                    s_, t_, _ = unpack_pair(challenges[0])
                    x, y, u, w_ = priv.generate_response(s_, t_)
                    verdict = att_v.publicdata.check(a2, b2, s_, t_, x, y, u, w_)
                    acc, exact = accepted_draws(d.log, v, a, b)
                    if exact:
                        e0, e1, e2 = att.publicdata.el, att.publicdata.sqr1.el, att.publicdata.sqr2.el
                        exp = [priv.m1, priv.m2, priv.m3, priv.r1, priv.r2, priv.r3, e0.c, e0.D, e0.D1, e0.D2, e1.c, e1.D, e1.D1, e1.D2,
                               e2.c, e2.D, e2.D1, e2.D2, x, y, u, w_, 1 if verdict else 0]
                        cases.append((range_model_case(v, a, b, a2, b2, s_, t_, acc, d.sec, (e0.c, e1.c, e2.c)), coq_res(("ok", exp))))
                        gcases.append((range_gen_case(v, a, b, a2, b2, s_, t_, ks, d, acc, (e0.c, e1.c, e2.c)), coq_res(("ok", exp))))
                        meta.append(dict(case, a2=a2, b2=b2))
                # tampered answers
                s_, t_, _ = unpack_pair(challenges[0])
                x, y, u, w_ = priv.generate_response(s_, t_)
                for tam in [(x + 1, y, u, w_), (x, y, u + 1, w_), (x, y + s_, u, w_), (-x, y, u, w_)]:
                    if att_v.publicdata.check(a, b, s_, t_, *tam):
                        ctx.violation("range/tampered-answer-accepted", "answer %r accepted" % (tam,), case)
                verdict = att_v.publicdata.check(a, b, s_, t_, x, y, u, w_)
                acc, exact = accepted_draws(d.log, v, a, b)
                if not exact:
                    stats["float_sqrt_dev"] += 1
                else:
                    e0, e1, e2 = att.publicdata.el, att.publicdata.sqr1.el, att.publicdata.sqr2.el
                    exp = [priv.m1, priv.m2, priv.m3, priv.r1, priv.r2, priv.r3, e0.c, e0.D, e0.D1, e0.D2, e1.c, e1.D, e1.D1, e1.D2,
                           e2.c, e2.D, e2.D1, e2.D2, x, y, u, w_, 1 if verdict else 0]
                    cases.append((range_model_case(v, a, b, a, b, s_, t_, acc, d.sec, (e0.c, e1.c, e2.c)), coq_res(("ok", exp))))
                    gcases.append((range_gen_case(v, a, b, a, b, s_, t_, ks, d, acc, (e0.c, e1.c, e2.c)), coq_res(("ok", exp))))
                    meta.append(case)
            return acc_score, priv

    # every shipped range format, then generated ranges
    from ipv8.attestation.default_identity_formats import FORMATS
    shipped = [(f["min"], f["max"], f["key_size"]) for f in FORMATS.values() if f.get("algorithm") == "pengbaorange"]
    for i in range(nranges):
        if i < len(shipped):
            a, b, ks = shipped[i]
        elif i % 4 == 0:
            a, b, ks = 18, 200, 32
        else:
            a = r.choice([0, 1, 5, 18, 1000, r.randrange(0, 5000)])
            b = max(1, a + r.choice([0, 1, 2, 10, 182, 4000, r.randrange(0, 60000)]))   # max = 0 is not supported (EL.create)
            ks = 32 if r.random() < 0.8 else r.choice([40, 48, 64])
        alg = range_alg(a, b, ks)
        sk = guarded(alg.generate_secret_key)
        pk = sk.public_key()
        # both inclusive boundaries and their inner neighbours are always tried (a-1, b+1, a-2, b+2 are among the outside values)
        inside_vals = []
        for cand in [a, b, a + 1, b - 1, (a + b) // 2, r.randint(a, b)]:
            if a <= cand <= b and cand not in inside_vals:
                inside_vals.append(cand)
        wrong_idx = r.randrange(len(inside_vals))
        for j, v in enumerate(inside_vals):
            case = {"kind": "range", "a": a, "b": b, "v": v, "key_size": ks}
            try:
                acc_score, priv = inside_case(alg, sk, pk, a, b, ks, v, case, j == wrong_idx or v == b)
                if i < 1 and j < 1:
                    ctx.sample({"range_proof": [a, b], "value": v, "accepted": acc_score, "m": [priv.m1, priv.m2, priv.m3]})
            except NotProvable as e:
                ctx.count(("range-in", a, b, v, "unprovable"))
                ctx.violation("range/inside-not-provable", "the honest attester cannot build a range proof for value %d inside [%d, %d] (%s)"
                              % (v, a, b, e), case)
            except Exception:  # noqa: BLE001
                import traceback
                stats["case_errors"] += 1
                ctx.broke("range case raised: value %d in [%d, %d]" % (v, a, b), traceback.format_exc())
        # values outside the range with the same key: nothing acceptable can be built
        for vo in sorted({a - 1, b + 1, a - 2, b + 2, max(0, a - r.randrange(1, 50)), b + r.randrange(1, 50), 0} - set(range(a, b + 1))):
            if vo < 0:
                continue
            stats["outside"] += 1
            ctx.count(("range-out", a, b, vo))
            case_o = {"kind": "range-out", "a": a, "b": b, "v": vo, "key_size": ks}
            try:
                with patched_range(r) as d:
                    try:
                        att_o = create_attest_pair(pk, vo, a, b, ks)
                        res = ("built", None)
                    except Diverged:
                        res = ("exc", "OutOfFuel")
                    except Exception as e:  # noqa: BLE001
                        res = ("exc", type(e).__name__)
                    if res[0] == "built":
                        pub = PengBaoAttestation.unserialize(att_o.serialize(), "f")
                        agg = alg.create_certainty_aggregate(pub)
                        for ch in alg.create_challenges(pub.PK, pub):
                            alg.process_challenge_response(agg, ch, alg.create_challenge_response(sk, att_o, ch))
                        if alg.certainty(b"\x01", agg) != 0.0:
                            ctx.violation("range/outside-accepted", "a proof built for %d was accepted for [%d, %d]" % (vo, a, b), case_o)
                        else:
                            ctx.violation("range/outside-buildable", "create_attest_pair returned a proof for %d outside [%d, %d]" % (vo, a, b), case_o)
                    else:
                        for variant in (0, 1):      # a prover who does not give up: negative m2 / negative m1
                            forged = cheating_attest_pair(pk, vo, a, b, ks, r, variant)
                            pubf = PengBaoAttestation.unserialize(forged.serialize(), "f")
                            aggf = alg.create_certainty_aggregate(pubf)
                            for ch in alg.create_challenges(pubf.PK, pubf):
                                try:
                                    alg.process_challenge_response(aggf, ch, alg.create_challenge_response(sk, forged, ch))
                                except Exception:  # noqa: BLE001   a negative answer cannot even be serialised
                                    stats["forged_unsendable"] = stats.get("forged_unsendable", 0) + 1
                                # observation, not judged: the key owner knows the group order n = t1*t2 and can
                                # send the answers reduced modulo n (see the report: trust model of the range proof)
                                s_, t_, _ = unpack_pair(ch)
                                xs = forged.privatedata.generate_response(s_, t_)
                                if pubf.publicdata.check(a, b, s_, t_, *[q % sk.n for q in xs]):
                                    stats["forged_mod_group_order_accepted"] = stats.get("forged_mod_group_order_accepted", 0) + 1
                                    if FORGERY_KEY in open_findings:
                                        ctx.violation(FORGERY_KEY, "a forged proof for %d, answers reduced modulo n = t1*t2, was accepted for [%d, %d]"
                                                      % (vo, a, b), dict(case_o, kind="range-cheat-mod-n", variant=variant))
                            ctx.count(("range-cheat", a, b, vo, variant))
                            if alg.certainty(b"\x01", aggf) != 0.0:
                                ctx.violation("range/outside-accepted", "a forged proof (negative part of the decomposition, variant %d) "
                                              "for %d was accepted for [%d, %d]" % (variant, vo, a, b), dict(case_o, kind="range-cheat", variant=variant))
                        lg = list(d.log) + [0] * 5       # (a builder that refuses the value before drawing leaves the log empty)
                        acc = {"r": lg[0], "ra": lg[1], "raa": lg[2], "w": lg[3], "m4": lg[4],
                               "m1": 0, "r1": 0, "r2": 0}
                        cases.append((range_model_case(vo, a, b, a, b, 40000, 50000, acc, [], None), coq_res(res)))
                        gcases.append((range_gen_case(vo, a, b, a, b, 40000, 50000, ks, d, acc, None), coq_res(res)))
                        meta.append(case_o)
            except Exception:  # noqa: BLE001
                import traceback
                stats["case_errors"] += 1
                ctx.broke("range case raised: value %d outside [%d, %d]" % (vo, a, b), traceback.format_exc())
    # forced draws: degenerate randomness, model correspondence only (not judged by the oracle)
    from ipv8.attestation.wallet.primitives.boneh import generate_keypair
    pk, sk = guarded(lambda: generate_keypair(32))
    # (the draws [.., w=3, m4=5, m1=20001] leave m2 = mst - m1 - m4^2 negative for 30 in [18, 200]: y <= 0)
    for forced in ([5, 6, 7, 0], [5, 6, 7, 1], [5, 6, 7, 2], [5, 6, 7, 3], [0, 0, 0, 1], [1, 1, 1, 2], [9, 9, 9, 1 << 20],
                   [5, 6, 7, 3, 5, 20001], [5, 6, 7, 4, 7, 35000]):
        for (a, b, v) in [(18, 200, 18), (18, 200, 30), (5, 5, 5), (0, 3, 1)]:
            stats["forced"] += 1
            with patched_range(r, forced) as d:
                try:
                    att = create_attest_pair(pk, v, a, b, 32)
                    priv = att.privatedata
                    x, y, u, w_ = priv.generate_response(40000, 50000)
                    verdict = att.publicdata.check(a, b, 40000, 50000, x, y, u, w_)
                    e0, e1, e2 = att.publicdata.el, att.publicdata.sqr1.el, att.publicdata.sqr2.el
                    res = ("ok", [priv.m1, priv.m2, priv.m3, priv.r1, priv.r2, priv.r3, e0.c, e0.D, e0.D1, e0.D2, e1.c, e1.D, e1.D1, e1.D2,
                                  e2.c, e2.D, e2.D1, e2.D2, x, y, u, w_, 1 if verdict else 0])
                    cs = (e0.c, e1.c, e2.c)
                except Diverged:
                    res, cs = ("exc", "OutOfFuel"), None
                except Exception as e:  # noqa: BLE001
                    res, cs = ("exc", type(e).__name__), None
                acc, exact = accepted_draws(d.log, v, a, b) if len(d.log) >= 4 else ({}, False)
                if len(d.log) < 4 and a <= v <= b:
                    ctx.broke("range case (degenerate draws): the builder refused value %d inside [%d, %d] before drawing" % (v, a, b), str(res))
                if exact and len(d.log) >= 4:
                    cases.append((range_model_case(v, a, b, a, b, 40000, 50000, acc, d.sec, cs), coq_res(res)))
                    gcases.append((range_gen_case(v, a, b, a, b, 40000, 50000, 32, d, acc, cs), coq_res(res)))
                    meta.append({"kind": "range-forced", "forced": forced, "a": a, "b": b, "v": v})
    ctx.extra["range_stats"] = stats
    if have_model and cases:
        mism, errs = coqrun.eval_mismatches(IMPORTS, "run_range", "res_eqb zlist_eqb", cases, os.path.join(ctx.scratch, "rng"),
                                            ctype="((Z * Z * Z * Z * Z * Z * Z) * range_rand * list (ev * ev * Z)) * res (list Z)",
                                            shard=12, jobs=14)
        for e in errs:
            ctx.broke("model evaluation failed (range)", e)
        for i in mism[:10]:
            ctx.broke("correspondence: range proof construction/check differs between model and implementation",
                      json.dumps({"case": meta[i], "coq": cases[i][0][:1500], "impl": cases[i][1][:1500]}))
        ctx.coverage["traces_validated_against_impl"] += len(cases) - len(mism)
    if HAVE_GEN[0] and gcases:
        mism, errs = coqrun.eval_mismatches(IMPORTS_GEN, "run_range_gen", "res_eqb zlist_eqb", gcases, os.path.join(ctx.scratch, "rngg"),
                                            ctype="((Z * Z * Z * Z * Z * Z * Z * Z) * list (list Z) * list Z * list (ev * ev * Z)) * res (list Z)",
                                            shard=12, jobs=14)
        for e in errs:
            ctx.broke("model evaluation failed (translated range code)", e)
        for i in mism[:10]:
            ctx.broke("correspondence: range proof construction/check differs between the TRANSLATED code and the implementation",
                      json.dumps({"coq": gcases[i][0][:1500], "impl": gcases[i][1][:1500]}))
        ctx.coverage["traces_validated_against_impl"] += len(gcases) - len(mism)


# =============================================================================== serialisation
def stage_ser(ctx, have_model):
    from ipv8.attestation.wallet.pengbaorange import boudot as PB
    from ipv8.attestation.wallet.primitives import structs as S
    r = ctx.rng("ser")

    def call(f, *a):
        try:
            return ("ok", f(*a))
        except Exception as e:  # noqa: BLE001
            n = type(e).__name__
            return ("exc", "StructError" if n == "error" else n)

    def gen_int():
        k = r.random()
        if k < 0.2:
            return r.choice([0, 1, 15, 16, 255, 256, 65535, 65536, 1 << 64, (1 << 2048) - 1 if r.random() < 0.1 else 1 << 255, 1 << 256])
        if k < 0.3:
            return -r.getrandbits(r.choice([1, 4, 8, 9, 12, 16, 40])) - 1
        return r.getrandbits(r.choice([1, 7, 8, 9, 16, 31, 64, 71, 135, 135, 256, 256, 600, 2100 if r.random() < 0.05 else 300]))
    n = 200 if ctx.quick else 1000
    pc, uc, sc, suc = [], [], [], []
    for i in range(n):
        v = gen_int()
        res = call(S.ipack, v)
        ctx.count(("ipack", v))
        pc.append((cz(v), coq_res(res if res[0] == "exc" else ("ok", list(res[1])))))
        if res[0] == "ok":
            rest = r.randbytes(r.choice([0, 0, 1, 5]))
            back = call(S.iunpack, res[1] + rest)
            if back != ("ok", (v, rest)):
                ctx.violation("serialisation/ipack-roundtrip", "iunpack(ipack(%d)) = %r" % (v, back), {"kind": "ipack", "n": str(v)})
        # iunpack on arbitrary / truncated input
        buf = r.randbytes(r.choice([0, 1, 2, 3, 6, 20])) if r.random() < 0.5 or res[0] != "ok" else res[1][:r.randrange(len(res[1]) + 1)]
        if r.random() < 0.5 and buf:
            buf = bytes([r.choice([0, 1, 1, 2])]) + buf[1:]
        back = call(S.iunpack, buf)
        uc.append((zl(buf), coq_res(back if back[0] == "exc" else ("ok", [back[1][0], len(back[1][1])] + list(back[1][1])))))
        # _sipack / _siunpack
        ns = [gen_int() if r.random() < 0.7 else -abs(gen_int()) for _ in range(r.choice([0, 1, 2, 4, 4, 8, 9]))]
        res = call(PB._sipack, *ns)
        ctx.count(("sipack", tuple(ns)))
        sc.append((zl(ns), coq_res(res if res[0] == "exc" else ("ok", list(res[1])))))
        if res[0] == "ok":
            rest = r.randbytes(r.choice([0, 0, 3]))
            back = call(lambda b_, k_: (lambda t: (list(t[0]), t[1]))(PB._siunpack(b_, k_)), res[1] + rest, len(ns))
            if back != ("ok", (ns, rest)):
                ctx.violation("serialisation/sipack-roundtrip", "_siunpack(_sipack(%r)) = %r" % (ns, back), {"kind": "sipack", "ns": [str(x) for x in ns]})
            amount = r.choice([len(ns), len(ns), max(0, len(ns) - 1), len(ns) + 1, 0])
            buf = (res[1] + rest)[:r.choice([len(res[1]) + len(rest), r.randrange(len(res[1]) + 1)])]
            back = call(lambda b_, k_: (lambda t: (list(t[0]), t[1]))(PB._siunpack(b_, k_)), buf, amount)
            suc.append(("(%s, %d%%nat)" % (zl(buf), amount),
                        coq_res(back if back[0] == "exc" else ("ok", [len(back[1][0])] + back[1][0] + list(back[1][1])))))
    if have_model:
        for name, run, cs, ty, sh in (("ipack", "run_ipack", pc, "Z * res (list Z)", 100), ("iunpack", "run_iunpack", uc, "bytes * res (list Z)", 150),
                                      ("_sipack", "run_sipack", sc, "list Z * res (list Z)", 60),
                                      ("_siunpack", "run_siunpack", suc, "(bytes * nat) * res (list Z)", 60)):
            mism, errs = coqrun.eval_mismatches(IMPORTS, run, "res_eqb zlist_eqb", cs, os.path.join(ctx.scratch, "ser_" + run), ctype=ty, shard=sh)
            for e in errs:
                ctx.broke("model evaluation failed (%s)" % name, e)
            for i in mism[:10]:
                ctx.broke("correspondence: %s differs between model and implementation" % name, "%s -> impl %s" % (cs[i][0][:600], cs[i][1][:600]))
            ctx.coverage["traces_validated_against_impl"] += len(cs) - len(mism)


# =============================================================================== two real AttestationCommunity nodes
async def community_run(hash_mode_fmt, value, others, cheat, r, delivery="inorder", lock_cases=None):
    """Prover node 0 holds an attestation of `value`; verifier node 1 runs verify_attestation_values.
    cheat=None: honest prover.  cheat=bytes: the prover forges answers so that the profile of that value appears.
    delivery: how each burst of challenge responses reaches the verifier: inorder / reversed / random / dup
    (random order with some datagrams delivered twice) - UDP promises neither order nor uniqueness."""
    from ipv8.attestation.wallet import community as C
    from ipv8.attestation.wallet.community import AttestationCommunity, AttestationSettings
    from ipv8.test.mocking.endpoint import internet
    from ipv8.test.mocking.ipv8 import MockIPv8
    from ipv8.peer import Peer
    # lockstep recorder: every call of the verifier's on_challenge_response with the state before / after, its
    # random inputs and what it emitted, for the TRANSLATED handler (run_driver_gen) to reproduce
    from ipv8.attestation.wallet.caches import PendingChallengeCache, ProvingAttestationCache
    from ipv8.attestation.wallet.payload import ChallengePayload, ChallengeResponsePayload
    from ipv8.lazy_community import lazy_wrapper
    from ipv8.messaging.payload_headers import GlobalTimeDistributionPayload
    orig_handler = AttestationCommunity.on_challenge_response
    raw_handler = orig_handler.__wrapped__.__wrapped__
    lock = {"verifier": None, "pc": None, "draw": None, "byte": None, "hq": [], "events": []}

    def h2i(b_):
        return int.from_bytes(b_, "big")

    def alpha(ov):
        if lock["pc"] is None:
            for c_ in ov.request_cache._identifiers.values():
                if isinstance(c_, ProvingAttestationCache):
                    lock["pc"] = c_
        pc = lock["pc"]
        if pc is None or not isinstance(pc.relativity_map, dict) or sorted(pc.relativity_map) != [0, 1, 2, 3]:
            return None
        pend = [(c_.number, c_.honesty_check) for c_ in ov.request_cache._identifiers.values() if isinstance(c_, PendingChallengeCache)]
        active = any(c_ is pc for c_ in ov.request_cache._identifiers.values())
        return (pend, active, [h2i(h) for h in pc.hashed_challenges], [bytes(c_) for c_ in pc.challenges],
                [pc.relativity_map[k] for k in range(4)])

    def flat_state(st):
        pend, active, hashed, chals, agg = st
        out = [1 if active else 0, len(pend)] + [x for p_ in pend for x in p_] + [len(hashed)] + hashed + [len(chals)]
        for c_ in chals:
            out += [len(c_)] + list(c_)
        return out + agg

    def rec_raw(self, peer, dist, payload):
        if self is not lock["verifier"] or lock_cases is None:
            return raw_handler(self, peer, dist, payload)
        pre = alpha(self)
        if pre is None:
            return raw_handler(self, peer, dist, payload)
        lock.update(draw=None, byte=None, hq=[], events=[])
        pc = lock["pc"]
        cb0 = pc.attestation_callbacks
        pc.attestation_callbacks = lambda h_, agg_: (lock["events"].append([0] + [agg_.get(k, 0) for k in range(4)]), cb0(h_, agg_))[1]
        send0 = self.endpoint.send

        def send(addr, packet):
            if len(packet) > 22 and packet[22] == 3:
                _, _, pl = self._ez_unpack_auth(ChallengePayload, packet)
                lock["events"].append([3, len(pl.challenge)] + list(pl.challenge))
            return send0(addr, packet)
        self.endpoint.send = send
        try:
            raw_handler(self, peer, dist, payload)
            res = "ok"
        except Exception as e:  # noqa: BLE001
            res = type(e).__name__
        finally:
            self.endpoint.send = send0
            pc.attestation_callbacks = cb0
        post = alpha(self)
        known = pre[3] + lock["hq"]
        tbl = "[" + "; ".join("(%s, %s)" % (zl(c_), cz(h2i(hashlib.sha1(c_).digest()))) for c_ in known) + "]"
        case = "((%s, %s, %s, %s, %s), (%s, %s, %s, %s, %s), %s, %s)" % (
            "[" + "; ".join("(%s, %s)" % (cz(a_), cz(b_)) for a_, b_ in pre[0]) + "]", "true" if pre[1] else "false", zl(pre[2]),
            "[" + "; ".join(zl(c_) for c_ in pre[3]) + "]", zl(pre[4]),
            cz(h2i(payload.challenge_hash)), zl(payload.response), "true" if lock["draw"] else "false", cz(lock["byte"] or 0),
            "[" + "; ".join(zl(c_) for c_ in lock["hq"]) + "]", tbl, "true")
        if res == "ok":
            exp = flat_state(post) + [len(lock["events"])] + [x for ev_ in lock["events"] for x in ev_]
            lock_cases.append((case, coq_res(("ok", exp))))
        else:
            lock_cases.append((case, coq_res(("exc", res))))
            raise
    AttestationCommunity.on_challenge_response = C.synchronized(
        lazy_wrapper(GlobalTimeDistributionPayload, ChallengeResponsePayload)(rec_raw))
    nodes = [MockIPv8("curve25519", AttestationCommunity, settings=AttestationSettings(working_directory=":memory:")) for _ in range(2)]
    AttestationCommunity.on_challenge_response = orig_handler
    lock["verifier"] = nodes[1].overlay
    for nd_ in nodes:
        for other in nodes:
            if other is not nd_:
                pub = Peer(other.my_peer.public_key, other.my_peer.address)
                nd_.network.add_verified_peer(pub)
                nd_.network.discover_services(pub, [AttestationCommunity.community_id])
    prover, verifier = nodes[0].overlay, nodes[1].overlay
    alg = prover.get_id_algorithm(hash_mode_fmt)
    sk = alg.generate_secret_key()       # (runs inside the event loop; stage_community probes key generation first)
    blob = alg.attest(sk.public_key(), value)
    att = alg.get_attestation_class().unserialize_private(sk, blob, hash_mode_fmt)
    ahash = att.get_hash()
    prover.database.insert_attestation(att, ahash, sk, hash_mode_fmt)
    prover.attestation_keys[ahash] = (sk, hash_mode_fmt)
    calls = []
    honesty_seen = {"n": 0, "failed": 0}
    # make honesty checks frequent and replayable
    class FakeOS:
        def __getattr__(self, k):
            return getattr(os, k)

        @staticmethod
        def urandom(n):
            if n != 1:
                return os.urandom(n)
            v = r.choice([0, 200, 250])
            lock["draw"] = v < 38
            return bytes([v])
    saved_os = C.os
    C.os = FakeOS()
    # get_id_algorithm builds a fresh algorithm object per call: observe / forge at class level
    from ipv8.attestation.wallet.bonehexact.algorithm import BonehExactAlgorithm as BEA
    orig_honesty = BEA.process_honesty_challenge
    orig_resp = BEA.create_challenge_response

    def spy(self, v, resp):
        ok = orig_honesty(self, v, resp)
        honesty_seen["n"] += 1
        honesty_seen["failed"] += 0 if ok else 1
        calls.append(("honesty", ok))
        return ok
    BEA.process_honesty_challenge = spy
    orig_choice = C.choice
    orig_chc = BEA.create_honesty_challenge

    def rec_choice(seq):
        v = orig_choice(seq)
        if list(seq) == [0, 1, 2]:
            lock["byte"] = v
        return v
    C.choice = rec_choice

    def rec_chc(self, PK, value_):
        c_ = orig_chc(self, PK, value_)
        lock["hq"].append(bytes(c_))
        return c_
    BEA.create_honesty_challenge = rec_chc
    honesty_seen["challenges_seen"] = []     # sha1 of every challenge the prover was asked to answer
    honesty_seen["aggregates"] = []          # the verifier's relativity map after each counted answer
    orig_proc = BEA.process_challenge_response

    def seen(self, SK, attestation, challenge):
        honesty_seen["challenges_seen"].append(hashlib.sha1(challenge).hexdigest())
        return orig_resp(self, SK, attestation, challenge)
    BEA.create_challenge_response = seen

    def counted(self, aggregate, challenge, response):
        out = orig_proc(self, aggregate, challenge, response)
        honesty_seen["aggregates"].append([aggregate[0], aggregate[1], aggregate[2], aggregate[3]])
        return out
    BEA.process_challenge_response = counted
    # the prover's challenge responses (message 4) are held back and released burst by burst in the chosen order
    held = []
    ep = nodes[0].endpoint
    orig_send = ep.send

    def holding_send(address, packet):
        if delivery != "inorder" and len(packet) > 22 and packet[22] == 4:
            held.append((address, packet))
        else:
            orig_send(address, packet)
    ep.send = holding_send

    def flush():
        burst = list(held)
        del held[:]
        if delivery == "reversed":
            burst.reverse()
        else:
            r.shuffle(burst)
            if delivery == "dup":
                for item in list(burst):
                    if r.random() < 0.4:
                        burst.insert(r.randrange(len(burst) + 1), item)
        for address, packet in burst:
            orig_send(address, packet)
    if cheat is not None:
        def forged(self, SK, attestation, challenge):
            # decrypts like an honest prover, then relabels the class: 0 -> 1 -> 2 -> 0.  The verifier then sees
            # the rotated profile, which is the profile of the value `cheat` (chosen by the caller)
            k = struct.unpack(">B", seen(self, SK, attestation, challenge))[0]
            return struct.pack(">B", (k + 1) % 3 if k < 3 else k)
        BEA.create_challenge_response = forged
    done = asyncio.get_event_loop().create_future()

    def callback(rhash, values):
        calls.append(("callback", list(values)))
    verifier.verify_attestation_values(nodes[0].endpoint.wan_address, ahash, [value, *others] + ([cheat] if cheat else []),
                                       callback, hash_mode_fmt)
    try:
        idle = 0
        held_before = 0
        for _ in range(3000):
            n0 = len(calls) + len(honesty_seen["challenges_seen"])
            await asyncio.sleep(0.005)
            if held and len(held) == held_before:       # the burst is complete: release it
                flush()
            held_before = len(held)
            pending = [c for c in verifier.request_cache._identifiers if c.startswith("proving")]
            if len(calls) + len(honesty_seen["challenges_seen"]) == n0 and not held:
                idle += 1
            else:
                idle = 0
            if idle > 12 and (not pending or idle > 60):
                break
    finally:
        C.os = saved_os
        BEA.process_honesty_challenge = orig_honesty
        BEA.create_challenge_response = orig_resp
        BEA.process_challenge_response = orig_proc
        BEA.create_honesty_challenge = orig_chc
        C.choice = orig_choice
        ep.send = orig_send
        for nd_ in nodes:
            nd_.overlay.request_cache.clear()
            await nd_.stop()
        internet.clear()
    return calls, honesty_seen


def judge_community(ctx, fmt, value, others, cheat, calls, hon, delivery="inorder"):
    hm = {"id_metadata": "sha256_4", "id_metadata_big": "sha256", "id_metadata_huge": "sha512"}[fmt]
    hfun, bitspace = HASHES[hm]
    n = bitspace // 2
    truth = profile_of_int(hfun(value), bitspace)
    case = {"kind": "community", "format": fmt, "value": value.hex(), "others": [o.hex() for o in others],
            "cheat": cheat.hex() if cheat is not None else None, "delivery": delivery}
    cbs = [c[1] for c in calls if c[0] == "callback"]
    if cheat is None:
        seen_ = hon.get("challenges_seen", [])
        twice = sorted({h for h in seen_ if seen_.count(h) > 1})
        if twice:
            ctx.violation("community/challenge-sent-twice", "delivery %s: %d challenge(s) were sent to the honest prover more than once"
                          % (delivery, len(twice)), case)
        aggs = hon.get("aggregates", [])
        if len(aggs) > n:
            ctx.violation("community/answer-counted-twice", "delivery %s: %d answers were counted for %d bit pairs"
                          % (delivery, len(aggs), n), case)
        if cbs and aggs and aggs[-1] != truth:
            ctx.violation("exact/profile-not-reconstructed", "community run, delivery %s: aggregate %r, profile of the hash %r"
                          % (delivery, aggs[-1], truth), case)
        if hon["failed"]:
            ctx.violation("honesty/check-misjudges-honest-prover", "an honest prover failed %d honesty checks" % hon["failed"], case)
        if not cbs:
            ctx.violation("community/honest-run-without-result", "verification of an honest prover produced no result", case)
            return None
        want = 1 - Fraction(1, 2) ** n
        for vals in cbs:      # (late honesty-check answers make the driver report the same result again)
            if (n <= 53 and Fraction(vals[0]) != want) or abs(Fraction(vals[0]) - want) > Fraction(1, 10 ** 12):
                ctx.violation("exact/true-value-score", "community run: true value scores %r" % vals[0], case)
            for o, s in zip(others, vals[1:]):
                if profile_of_int(hfun(o), bitspace) != truth and s != 0.0:
                    ctx.violation("exact/other-profile-accepted", "community run: %s scores %r" % (o.hex(), s), case)
    else:
        # a prover caught lying on an honesty check must not end up with any value accepted
        caught = False
        for c in calls:
            if c[0] == "honesty" and not c[1]:
                caught = True
            elif c[0] == "callback" and caught and any(s > 0.0 for s in c[1]):
                ctx.violation("honesty/liar-later-accepted",
                              "the prover failed an honesty check, yet the verifier afterwards reported scores %r "
                              "(forged value %s scores %r)" % (c[1], cheat.hex(), c[1][-1]), case)
                break
        return caught
    return None


def stage_community(ctx):
    r = ctx.rng("community")
    loop = asyncio.new_event_loop()
    asyncio.set_event_loop(loop)
    stats = {"honest": 0, "cheat": 0, "cheat_caught": 0, "honesty_checks": 0}
    lock_cases = []
    try:
        plan = [("id_metadata", None, "inorder")] * (2 if ctx.quick else 10) + \
               [("id_metadata", None, d) for d in ("reversed", "random", "dup")] * (2 if ctx.quick else 12) + \
               [("id_metadata", "cheat", d) for d in ("inorder", "inorder", "random", "dup")] * (1 if ctx.quick else 8)
        if not ctx.quick:
            plan += [("id_metadata_big", None, "inorder"), ("id_metadata_big", None, "random")]
        for fmt, mode, delivery in plan:
            value = r.randbytes(r.choice([1, 4, 12]))
            others = [r.randbytes(3) for _ in range(3)]
            cheat = None
            if mode == "cheat":
                hfun, bs = HASHES["sha256_4"]
                while cheat is None:
                    value = r.randbytes(r.choice([1, 4, 12]))
                    t = profile_of_int(hfun(value), bs)
                    rotated = [t[2], t[0], t[1], 0]
                    if rotated == t:
                        continue
                    for _ in range(4000):       # a value whose profile is the rotated one
                        c = r.randbytes(4)
                        if profile_of_int(hfun(c), bs) == rotated:
                            cheat = c
                            break
            calls, hon = loop.run_until_complete(community_run(fmt, value, others, cheat, r, delivery, lock_cases))
            stats["honesty_checks"] += hon["n"]
            stats[delivery] = stats.get(delivery, 0) + 1
            ctx.count(("community", fmt, value, cheat, delivery))
            caught = judge_community(ctx, fmt, value, others, cheat, calls, hon, delivery)
            if cheat is None:
                stats["honest"] += 1
            else:
                stats["cheat"] += 1
                stats["cheat_caught"] += 1 if caught else 0
    finally:
        loop.close()
    stats["handler_calls_in_lockstep"] = len(lock_cases)
    ctx.extra["community_stats"] = stats
    if ctx.quick and len(lock_cases) > 150:        # evenly spaced sample: keeps the quick tier's wall time
        step_ = len(lock_cases) / 150.0
        lock_cases = [lock_cases[int(i * step_)] for i in range(150)]
    stats["handler_calls_evaluated_in_coq"] = len(lock_cases)
    if HAVE_GEN[0] and lock_cases:
        mism, errs = coqrun.eval_mismatches(
            IMPORTS_GEN, "run_driver_gen", "res_eqb zlist_eqb", lock_cases, os.path.join(ctx.scratch, "drv"),
            ctype="((list (Z * Z) * bool * list Z * list bytes * list Z) * (Z * bytes * bool * Z * list bytes) * list (bytes * Z) * bool) * res (list Z)",
            shard=40, jobs=14)
        for e in errs:
            ctx.broke("model evaluation failed (translated on_challenge_response)", e)
        for i in mism[:10]:
            ctx.broke("correspondence: on_challenge_response differs between the TRANSLATED handler and the implementation (state before, "
                      "answer, state after + effects)", json.dumps({"coq": lock_cases[i][0][:2500], "impl": lock_cases[i][1][:1500]}))
        ctx.coverage["traces_validated_against_impl"] += len(lock_cases) - len(mism)


# =============================================================================== corpus / replay
class MiniCtx:
    """enough of runner.Ctx for the oracles, used by replay and by stage 0"""

    def __init__(self, seed=1):
        from tools.vlib import prng
        self._prng, self.seed = prng, seed
        self.violations, self.coverage, self.extra = [], {"samples": [0] * 99}, {}
        self.quick = True

    def rng(self, label):
        return self._prng.stream(self.seed, "C18/replay/" + label)

    def violation(self, key, what, case):
        self.violations.append({"key": key, "what": what, "case": case})

    def count(self, *a, **k):
        pass

    def sample(self, *a, **k):
        pass


def rerun_case(ctx, case):
    """Run one recorded case again on the implementation, through the oracle."""
    k = case.get("kind")
    r = ctx.rng("case")
    if k == "fp2":
        lx, ly, kk = [int(v) for v in case["x"]], [int(v) for v in case["y"]], int(case["k"])
        res = impl_fp2(case["op"], lx, ly, kk)
        oracle_fp2(ctx, case["op"], lx, ly, kk, res)
        return "%s %s %s %s -> %s" % (case["op"], lx, ly, kk, res)
    if k == "law":
        from ipv8.attestation.wallet.primitives.value import FP2Value
        raws = [[int(v) for v in w] for w in case["raws"]]
        x, y, z = (FP2Value(*w) for w in raws)
        for name, f1, f2, _, _ in LAWS:
            if name == case["law"]:
                try:
                    eq = f1(x, y, z) == f2(x, y, z)
                except Exception as e:  # noqa: BLE001
                    eq = type(e).__name__
                if eq is not True:
                    ctx.violation("fp2/law/" + name, "%s fails for %s" % (name, raws), case)
                return "law %s on %s -> %s" % (name, raws, eq)
    if k == "rel":
        from ipv8.attestation.wallet.bonehexact import attestation as A
        v, bs = int(case["value"]), case["bitspace"]
        m = A.binary_relativity(v, bs)
        if [m[0], m[1], m[2], m[3]] != profile_of_int(v, bs):
            ctx.violation("bitpairs/binary-relativity-wrong", "binary_relativity(%d, %d) = %r" % (v, bs, m), case)
        return "binary_relativity(%d, %d) = %r" % (v, bs, m)
    if k == "score":
        from ipv8.attestation.wallet.bonehexact import attestation as A
        e, o = case["expected"], case["value"]
        fc = A.binary_relativity_certainty(dict(enumerate(e)), dict(enumerate(o)))
        em, ec = exact_scores(e, o)
        if abs(Fraction(fc) - ec) > Fraction(1, 10 ** 12) or (ec == 0 and fc != 0.0):
            ctx.violation("scores/differs-from-rational", "expected %r observed %r scores %r, exact %s" % (e, o, fc, ec), case)
        return "certainty(%r, %r) = %r (exact %s)" % (e, o, fc, ec)
    if k == "exact":
        value, others = bytes.fromhex(case["value"]), [bytes.fromhex(o) for o in case["others"]]
        alg = exact_alg(case["hash"], case["key_size"])
        order = case.get("order")
        obs = exact_run(alg, case["hash"], value, others, (lambda n: [order]) if order is not None else (lambda n: [list(range(n))]), r)
        judge_exact(ctx, case["hash"], case["key_size"], value, others, obs, [])
        return "exact proof %s/%d of %s: %r" % (case["hash"], case["key_size"], case["value"], obs["runs"][0])
    if k == "small":
        small_bitspace_run(ctx, r, case["bitspace"], [])
        return "all orders and subsets, bit space %d" % case["bitspace"]
    if k == "range-challenge":
        from ipv8.attestation.wallet.pengbaorange.attestation import create_attest_pair
        from ipv8.attestation.wallet.pengbaorange.structs import PengBaoAttestation
        a, b, v, ks = case["a"], case["b"], case["v"], case["key_size"]
        alg = range_alg(a, b, ks)
        sk = guarded(alg.generate_secret_key)
        with patched_range(r) as d:
            att = create_attest_pair(sk.public_key(), v, a, b, ks)
            pub = PengBaoAttestation.unserialize(att.serialize(), "f")
            d.alg_forced = [case["s"], case["t"]]
            agg = alg.create_certainty_aggregate(pub)
            for ch in alg.create_challenges(pub.PK, pub):
                alg.process_challenge_response(agg, ch, alg.create_challenge_response(sk, att, ch))
            sc = alg.certainty(b"\x01", agg)
        if sc != 1.0:
            ctx.violation("range/inside-rejected-at-challenge-boundary", "value %d in [%d, %d], challenge (%d, %d): certainty %r"
                          % (v, a, b, case["s"], case["t"], sc), case)
        return "range proof for %d in [%d, %d], challenge (%d, %d): certainty %r" % (v, a, b, case["s"], case["t"], sc)
    if k == "range-cheat-mod-n":
        from ipv8.attestation.wallet.pengbaorange.structs import PengBaoAttestation
        from ipv8.attestation.wallet.primitives.structs import unpack_pair
        a, b, v, ks = case["a"], case["b"], case["v"], case["key_size"]
        alg = range_alg(a, b, ks)
        sk = guarded(alg.generate_secret_key)
        with patched_range(r):
            forged = cheating_attest_pair(sk.public_key(), v, a, b, ks, r, case.get("variant", 0))
            pubf = PengBaoAttestation.unserialize(forged.serialize(), "f")
            s_, t_, _ = unpack_pair(alg.create_challenges(pubf.PK, pubf)[0])
            xs = forged.privatedata.generate_response(s_, t_)
            ok = pubf.publicdata.check(a, b, s_, t_, *[q % sk.n for q in xs])
        if ok:
            ctx.violation(FORGERY_KEY, "forged proof for %d accepted for [%d, %d] with answers reduced modulo n" % (v, a, b), case)
        return "forged range proof for %d against [%d, %d], answers mod n: accepted=%s" % (v, a, b, ok)
    if k == "range-cheat":
        from ipv8.attestation.wallet.pengbaorange.structs import PengBaoAttestation
        a, b, v, ks = case["a"], case["b"], case["v"], case["key_size"]
        alg = range_alg(a, b, ks)
        sk = guarded(alg.generate_secret_key)
        with patched_range(r):
            forged = cheating_attest_pair(sk.public_key(), v, a, b, ks, r, case.get("variant", 0))
            pubf = PengBaoAttestation.unserialize(forged.serialize(), "f")
            aggf = alg.create_certainty_aggregate(pubf)
            for ch in alg.create_challenges(pubf.PK, pubf):
                try:
                    alg.process_challenge_response(aggf, ch, alg.create_challenge_response(sk, forged, ch))
                except Exception:  # noqa: BLE001
                    pass
            s = alg.certainty(b"\x01", aggf)
        if s != 0.0:
            ctx.violation("range/outside-accepted", "forged proof for %d accepted for [%d, %d]" % (v, a, b), case)
        return "forged range proof for %d against [%d, %d]: certainty %r" % (v, a, b, s)
    if k in ("range", "range-out"):
        from ipv8.attestation.wallet.pengbaorange.attestation import create_attest_pair
        from ipv8.attestation.wallet.pengbaorange.structs import PengBaoAttestation
        a, b, v, ks = case["a"], case["b"], case["v"], case["key_size"]
        alg = range_alg(a, b, ks)
        valg = range_alg(case.get("a2", a), case.get("b2", b), ks)
        sk = alg.generate_secret_key()
        with patched_range(r):
            try:
                att = create_attest_pair(sk.public_key(), v, a, b, ks)
            except (Diverged, Exception) as e:  # noqa: BLE001
                if a <= v <= b:
                    ctx.violation("range/inside-not-provable", "the honest attester cannot build a range proof for value %d inside [%d, %d] (%s: %s)"
                                  % (v, a, b, type(e).__name__, e), case)
                return "create_attest_pair(%d, [%d, %d]) -> %s" % (v, a, b, type(e).__name__)
            pub = PengBaoAttestation.unserialize(att.serialize(), "f")
            agg = valg.create_certainty_aggregate(pub)
            for ch in valg.create_challenges(pub.PK, pub):
                valg.process_challenge_response(agg, ch, alg.create_challenge_response(sk, att, ch))
            s = valg.certainty(b"\x01", agg)
        inside = case.get("a2", a) <= v <= case.get("b2", b)
        if inside and s != 1.0:
            ctx.violation("range/inside-rejected", "value %d certainty %r" % (v, s), case)
        if not inside and s != 0.0:
            ctx.violation("range/outside-accepted", "value %d certainty %r" % (v, s), case)
        return "range proof for %d in [%d, %d] checked against [%d, %d]: %r" % (v, a, b, case.get("a2", a), case.get("b2", b), s)
    if k == "community":
        value, others = bytes.fromhex(case["value"]), [bytes.fromhex(o) for o in case["others"]]
        cheat = bytes.fromhex(case["cheat"]) if case.get("cheat") else None
        loop = asyncio.new_event_loop()
        asyncio.set_event_loop(loop)
        out = []
        try:
            for attempt in range(6):      # the honesty check is drawn at random; look at several runs
                calls, hon = loop.run_until_complete(community_run(case["format"], value, others, cheat, r, case.get("delivery", "inorder")))
                judge_community(ctx, case["format"], value, others, cheat, calls, hon, case.get("delivery", "inorder"))
                out.append([c for c in calls if c[0] == "callback" or not c[1]])
                if ctx.violations:
                    break
        finally:
            loop.close()
        return "community run(s): %r" % out[-1]
    if k == "ipack":
        from ipv8.attestation.wallet.primitives import structs as S
        v = int(case["n"])
        back = S.iunpack(S.ipack(v))
        if back != (v, b""):
            ctx.violation("serialisation/ipack-roundtrip", "iunpack(ipack(%d)) = %r" % (v, back), case)
        return "iunpack(ipack(%d)) = %r" % (v, back)
    if k == "sipack":
        from ipv8.attestation.wallet.pengbaorange import boudot as PB
        ns = [int(x) for x in case["ns"]]
        it, rem = PB._siunpack(PB._sipack(*ns), len(ns))
        back = list(it)
        if back != ns:
            ctx.violation("serialisation/sipack-roundtrip", "%r -> %r" % (ns, back), case)
        return "_siunpack(_sipack(%r)) = %r" % (ns, back)
    return "unknown case kind %r" % k


def replay(path):
    """Re-run the recorded failing cases against the implementation and print what happens."""
    js = json.load(open(path))
    rc = 0
    for v in js.get("violations", []):
        m = MiniCtx()
        try:
            print(with_deadline(lambda: rerun_case(m, v["case"]), 600))
        except KeygenTimeout:
            print("replay did not terminate within 600 s (key generation / proof loops)")
            rc = 1
        except Exception as e:  # noqa: BLE001
            print("replay raised", type(e).__name__, e)
            rc = 1
        for w in m.violations:
            print("  STILL FAILS:", w["key"], "::", w["what"])
            rc = 1
        if not m.violations:
            print("  holds now (recorded: %s)" % v["key"])
    for b in js.get("no_longer_checks", []) + js.get("broken", []):
        print("no longer checks:", b["what"])
        rc = 1
    return rc


# =============================================================================== the check
MODEL_VOS = ["gen/G18_fp2.vo", "model/M18_fexpr.vo", "model/M18_bitpairs.vo", "model/M18_range.vo", "model/M18_ser.vo"]


def run(ctx):
    import random
    random.seed(ctx.seed * 7919 + 18)      # boneh.py / attestation.py draw from the global generator
    # stage 0: corpus
    for f in sorted(glob.glob(os.path.join(VERIF, "corpus", "C18", "*.json"))):
        for v in json.load(open(f)).get("violations", []):
            m = MiniCtx(ctx.seed)
            try:
                with_deadline(lambda: rerun_case(m, v["case"]), 120)
            except KeygenTimeout:
                ctx.broke("corpus case %s: the implementation does not terminate (key generation / proof loops)" % os.path.basename(f))
            except Exception as e:  # noqa: BLE001
                ctx.broke("corpus case %s raised" % os.path.basename(f), repr(e))
            for w in m.violations:
                ctx.violation(w["key"], "corpus %s: %s" % (os.path.basename(f), w["what"]), w["case"])
            ctx.count(("corpus", f, v["key"]))
    # stage G
    try:
        text = tr_value.write()
        ctx.extra["generated"] = {"gen/G18_fp2.v": hashlib.sha256(text.encode()).hexdigest()[:16]}
    except (tr_expr.Unsupported, Exception) as e:  # noqa: BLE001
        ctx.broke("translator tr_value aborted", e)
        text = None
    try:
        from tools.tr import tr_proofs
        text2 = tr_proofs.write()
        ctx.extra.setdefault("generated", {})["gen/G18_proofs.v"] = hashlib.sha256(text2.encode()).hexdigest()[:16]
    except (tr_expr.Unsupported, Exception) as e:  # noqa: BLE001
        ctx.broke("translator tr_proofs aborted", e)
        text2 = None
    # stage P
    if text is not None:
        ctx.proofs()
    if text2 is not None:
        ctx.proofs(part="C18x")
        okg, logg, _, _ = coqrun.make(["model/M18_gen_run.vo"])
        HAVE_GEN[0] = bool(okg)
        if not okg:
            ctx.broke("the translated protocol code does not compile", logg[-3000:])
    ok, log, _, _ = coqrun.make(MODEL_VOS) if text is not None else (False, "", "", 0)
    have_model = bool(ok)
    if text is not None and not ok:
        ctx.broke("the executable model does not compile", log[-3000:])
    ctx.coverage["trusted_base"] = [
        "Coq 8.16.1 kernel (coqc, vm_compute); no axioms (Print Assumptions: closed)",
        "translator tools/tr/tr_value.py (+ tr_expr.py): value.py -> gen/G18_fp2.v, re-run and re-proved on every run",
        "translator tools/tr/tr_proofs.py: pengbaorange / bonehexact / community.on_challenge_response -> gen/G18_proofs.v; "
        "props/C18x.v: the generated functions compute what the hand models compute (run-time vocabulary M18_gen_rt / M18_driver)",
        "hand models M18_bitpairs / M18_hom / M18_range / M18_ser / M18_driver, tied by this run's correspondence",
        "hypotheses bgn_keypair / abelian_group (spec/S18_bgn.v) about the Weil-pairing group built by ec.py and "
        "boneh.get_good_wp/generate_keypair: abelian group, g of order n = t1*t2 with g^t1 of order exactly t2, "
        "h^t1 = 1, n | p+1, FP2Value.__eq__ decides group equality (the last is proved for fractions, prime p)",
        "range proof: sha256 over the compressed coordinates is a function of the group element (Hsh); computational "
        "soundness against a cheating prover is not proved",
        "floats: scores are compared with exact rationals within 1e-12, exactly for 0 and for 1-2^-n (n <= 53)",
    ]
    ctx.assumptions = ["moduli of keys are prime (generate_prime, Miller-Rabin in ipv8_rust_tunnels)",
                       "int(math.sqrt(mst)) equals the integer square root (cases where it does not are skipped and counted)",
                       "key generation itself (Rust prime generation, Weil pairing search) is exercised, not modelled"]
    import time
    walls = {"proofs_and_model_build": round(time.time() - ctx.t0, 1)}
    keygen_ok = True
    for name, fn in (("fp2", stage_fp2), ("bitpairs", stage_bitpairs), ("ser", stage_ser), ("exact", stage_exact),
                     ("range", stage_range)):
        t = time.time()
        if name in ("exact", "range") and not keygen_ok:
            continue
        try:
            if name in ("exact", "range"):
                with_deadline(lambda: fn(ctx, have_model), 900 if ctx.quick else 3000)
            else:
                fn(ctx, have_model)
        except KeygenTimeout:
            keygen_ok = False
            ctx.broke("the implementation does not terminate (key generation finds no good Weil pairing, or a proof "
                      "loops) within the time limit: remaining end-to-end stages skipped", "stage %s" % name)
        except Exception:  # noqa: BLE001   one stage failing must not hide the verdicts of the others
            import traceback
            ctx.broke("stage %s raised" % name, traceback.format_exc())
        walls[name] = round(time.time() - t, 1)
    t = time.time()
    if keygen_ok:
        try:
            with_deadline(lambda: stage_community(ctx), 600 if ctx.quick else 1800)
        except KeygenTimeout:
            ctx.broke("the two-node community run does not terminate within the time limit", "stage community")
        except Exception:  # noqa: BLE001
            import traceback
            ctx.broke("stage community raised", traceback.format_exc())
    walls["community"] = round(time.time() - t, 1)
    ctx.extra["stage_wall_s"] = walls
    ctx.coverage["rule"] = (
        "fp2: random single operations (+ - * // == normalize inverse intpow wp_* _modinv, constructor) on raw operands with "
        "general denominators, moduli in {0, +-1, small primes, composites, primes of 16..512 bits}, plus 11 law / "
        "re-association expression pairs per operand triple; bit pairs: binary_relativity on values/bit spaces incl. odd, "
        "too short, negative; response sequences incl. unknown keys; match/certainty on related, equal, exceeding maps; "
        "end to end: fresh keys, sha256_4 / sha256 / sha512 formats, key sizes 32..96, random attribute strings, two full "
        "orders + random subset + prefix per proof with interleaved honesty checks, all orders and all subsets for bit "
        "spaces 2..10, range proofs for random ranges (inside incl. both ends; outside incl. a-1, b+1; wrong range; "
        "tampered answers; degenerate draws), two-node AttestationCommunity runs with an honest and with a forging "
        "prover; non-trivial = the operation returned a value / the proof ran to a verdict")
    ctx.coverage["exhaustive"] = False
