"""C04 - onion circuits deliver data intact and never expose it in transit.

Stage 0: corpus/C04/*.json (witnesses of defects found earlier) replayed through the oracle
Stage P: props/C04.v
Stage C: lockstep correspondence on real TunnelCommunity / HiddenTunnelCommunity nodes (PythonCryptoEndpoint) on
         the simulated network: every event (datagram delivered to a node, send_data, tunnel_data, ping, test
         request) is executed on the real node and on model M04_onion (evaluated inside Coq with the toy AEAD),
         comparing actions and successor routing tables.  Faults: every header byte and sampled body bytes of
         an in-flight cell altered on every link in both directions, bodies spliced across circuits and
         directions, cells injected under fresh keys / unknown ids, the unmodified cell from a wrong sender.
Stage G/P'/C': (tools/checks/c04_onion_gen.py) the handlers translated from the source on every run (tools/tr/tr_onion.py ->
         gen/G04_onion.v; fail closed), props/C04x.v (the generated handlers compute what M04_onion computes; the plaintext
         rule on gen/G03_recv.v), and the same lockstep events evaluated on the generated functions (quick: every third block).
Oracle : (independent of the model) ping and speed-test cells sent into a plain circuit of 1..3 hops and into a
         linked e2e circuit (both directions) reach the far end's handler and the pong / response comes back to the
         sender's request cache, attributed to that circuit; datagrams returned through the exit that are shaped like
         messages of the tunnel overlay itself (every cell type, naming the victim's circuit ids; outside sender = the
         first hop's address, its IP with another port, an unrelated host) are never executed by the originator - no
         handler, no delivery, no datagram sent, no table or cache change; bytes handed to the exit socket equal the bytes sent and go to the given
         destination; bytes returned arrive at the originator's on_raw_data with the outside source as origin
         and the right circuit; the body on link i peels to the plaintext cell with exactly the session keys of
         hops i+1..n (raw SessionKeys, not ipv8 code) and is 24 bytes longer than on link i+1; neither the
         payload nor a body of another link occurs on a link; an altered / spliced / injected cell is never
         delivered, never forwarded by a forward relay, and raises nothing; the unmodified last backward cell arriving at the
         originator from the first hop's IP on another port or from an unrelated host reaches no consumer; with circuits of
         two or three different originators ending at ONE exit node (real TunnelExitSocket objects, gated opening of the
         transports, first datagrams sent while a socket is still opening, IP-literal v4 / v6 destinations) every reply from
         outside is delivered exactly once to the originator whose datagram it answers, under that circuit's id, with the
         answering host as origin; when the exit retires a circuit's socket (as do_remove does: no destroy) and the outside
         answers inside remove_tunnel_delay (default, > 0), no link carries the returned payload in the clear, every link
         carries exactly its layers, and the originator gets the reply under the circuit's id - or nothing travels.
"""
from __future__ import annotations

import asyncio
import glob
import json
import os

from tools.checks import c04_onion_gen
from tools.vlib import coqrun, onionlock, repoenv
from tools.vlib.coqrun import zl
from tools.vlib.onionlock import NULL, addr_coq
from tools.vlib.vtime import VLoop, patched_time

IMPORTS = ("From Coq Require Import ZArith List Bool.\n"
           "From IPV8V Require Import lib.PyErr lib.Bytes model.M02_wire model.M03_recv model.M04_onion model.M04_harness.\n"
           "Import ListNotations.\nOpen Scope Z_scope.\n")
GEN_IMPORTS = IMPORTS.replace("model.M04_harness.", "model.M04_harness %s." % c04_onion_gen.GEN_MODS)
OVH = 24
SIZES = [0, 1, 2, 279, 1000, 1400]


def shaped(r, n, kind="dht"):
    """payload of exactly n bytes; BitTorrent-DHT shaped when possible so that an exit's policy lets it out"""
    if n >= 2 and kind == "dht":
        return b"d" + r.randbytes(n - 2) + b"e"
    return r.randbytes(n)


def path_of(tn, c):
    """[(overlay, incoming circuit id, role)] from the first hop to the exit of circuit c"""
    out, addr, cid = [], tuple(c.hop.address), c.circuit_id
    for _ in range(8):
        ov = tn.by_addr.get(addr)
        if ov is None:
            break
        if cid in ov.relay_from_to:
            r = ov.relay_from_to[cid]
            out.append((ov, cid, "relay"))
            addr, cid = tuple(r.hop.address), r.circuit_id
        elif cid in ov.exit_sockets:
            out.append((ov, cid, "exit"))
            break
        else:
            break
    return out


def real_keys(k):
    return getattr(k, "_real", k)


def peel(keys, direction, body):
    """decrypt with the given raw session keys in order; None when a layer does not open"""
    for k in keys:
        try:
            body = real_keys(k).decrypt_str(body, direction)
        except Exception:   # noqa
            return None
    return body


def deliveries(evs):
    """what reached a consumer: exit-socket sends, raw data, re-injections, cell handlers"""
    out = []
    for e in evs:
        for rec in e["records"]:
            if rec[0] == "exit":
                out.append(("exit", rec[2], tuple(rec[3])))
            elif rec[0] == "raw":
                out.append(("raw", rec[1], tuple(rec[2]), rec[3]))
            elif rec[0] == "reinject":
                out.append(("reinject", tuple(rec[1]), rec[2], rec[3]))
            elif rec[0] == "handler":
                out.append(("handler", rec[1], rec[3], rec[4]))
    return out


class Run:
    """one network, its lockstep cases and the oracle's bookkeeping"""

    def __init__(self, ctx, tn, tag):
        self.ctx, self.tn, self.tag = ctx, tn, tag
        self.cases = []           # (case term, expected term, meta)
        self.n_events = 0
        self.lock = True          # False: events are still judged by the oracle, but not compared with the model

    def add(self, r, meta):
        self.n_events += 1
        if self.lock:
            self.cases.append((r["case"], r["expected"], dict(meta, node=r["node"])))
        if r["escaped"] is not None:
            self.ctx.violation("exception-escapes/%s" % r["escaped"],
                               "%s escapes from node %s while handling %s" % (r["escaped"], r["node"], meta.get("what", meta.get("kind"))),
                               meta)

    def add_all(self, evs, meta):
        for e in evs:
            self.add(e, meta)

    # ---- events
    def send_data(self, ov, target, cid, dest, org, data):
        ev = "EvSendData %s %d %s %s %s" % (addr_coq(target), cid, addr_coq(dest), addr_coq(org), zl(data))
        return self.tn.observe(ov, ev, lambda: ov.send_data(target, cid, dest, org, data))

    def tunnel_data(self, ov, cid, source, data):
        es = ov.exit_sockets[cid]
        ev = "EvTunnelData %d %s %s" % (cid, addr_coq(source), zl(data))
        return self.tn.observe(ov, ev, lambda: es.tunnel_data(source, data))

    def send_ping(self, ov, target, cid, ident):
        from ipv8.messaging.anonymization.payload import PingPayload
        ev = "EvSendPing %s %d %d" % (addr_coq(target), cid, ident)
        return self.tn.observe(ov, ev, lambda: ov.send_cell(target, PingPayload(cid, ident)))

    def send_test_request(self, ov, target, cid, ident, rsize, data):
        from ipv8.messaging.anonymization.payload import TestRequestPayload
        ev = "EvSendTestRequest %s %d %d %d %s" % (addr_coq(target), cid, ident, rsize, zl(data))
        return self.tn.observe(ov, ev, lambda: ov.send_cell(target, TestRequestPayload(cid, ident, rsize, data)))


# ------------------------------------------------------------------------------------------ oracle
def check_links(ctx, tn, c, evs, direction, payload, meta, hs=None):
    """the datagrams seen on the links of circuit c (evs[0] is the originating event)"""
    n = len(c.hops)
    links = [e["datagram"] for e in evs[1:n + 1]]
    if len(links) != n:
        ctx.violation("%s/link-count" % direction, "%d datagrams on the links of a %d-hop circuit" % (len(links), n), meta)
        return None
    # index links from the originator: fwd travel order is 0..n-1, bwd travel order is n-1..0
    if direction == "backward":
        links = links[::-1]
    keys = [h.keys for h in c.hops]
    d = 0 if direction == "forward" else 1
    plain = None
    bodies = []
    for i, (_, _, dg) in enumerate(links):
        body = dg[29:]
        bodies.append(body)
        inner = peel(keys[i:], d, body)
        if inner is None:
            ctx.violation("%s/layers-on-link" % direction, "body on link %d does not open with the keys of hops %d..%d" % (i, i + 1, n), meta)
            return None
        if len(body) != len(inner) + OVH * (n - i):
            ctx.violation("%s/layers-on-link" % direction, "link %d: %d bytes for a %d-byte message and %d layers" % (i, len(body), len(inner), n - i), meta)
        if i + 1 < n and peel(keys[i + 1:], d, body) is not None:
            ctx.violation("%s/layers-on-link" % direction, "link %d opens with one layer less" % i, meta)
        if plain is None:
            plain = inner
        elif plain != inner:
            ctx.violation("%s/message-differs-between-links" % direction, "link %d carries a different message" % i, meta)
    for i, (_, _, dg) in enumerate(links):
        if len(payload) >= 8 and payload in dg:
            ctx.violation("%s/plaintext-on-link" % direction, "payload visible on link %d" % i, meta)
        if plain is not None and len(plain) >= 8 and hs is None and plain in dg:
            ctx.violation("%s/plaintext-on-link" % direction, "plaintext cell visible on link %d" % i, meta)
        for j, b in enumerate(bodies):
            if j != i and b in dg:
                ctx.violation("%s/same-ciphertext-on-two-links" % direction, "body of link %d visible on link %d" % (j, i), meta)
    return plain


def expect_fwd(ctx, tn, c, path, evs, dest, data, meta):
    ex = [rec for e in evs for rec in e["records"] if rec[0] == "exit"]
    want = path[-1][0].exit_sockets.get(path[-1][1]) if path and path[-1][2] == "exit" else None
    if len(ex) != 1 or ex[0][2] != data or tuple(ex[0][3]) != tuple(dest) or ex[0][4] is not want:
        ctx.violation("forward/not-intact", "sent %d bytes to %s over %d hops; exit sockets were handed %s" % (
            len(data), dest, len(c.hops), [(len(x[2]), tuple(x[3]), x[2] == data) for x in ex]), meta)
        return False
    return True


def expect_bwd(ctx, tn, c, evs, source, data, meta, consumer="raw"):
    got = [d for d in deliveries(evs) if d[0] in ("raw", "reinject", "exit")]
    if consumer == "raw":
        want = [("raw", c.circuit_id, tuple(source), data)]
    elif consumer == "reinject":
        want = [("reinject", tuple(source), data, c.circuit_id)]
    else:
        want = []
    if got != want:
        ctx.violation("backward/not-intact", "returned %d bytes from %s over %d hops; originator saw %s" % (
            len(data), source, len(c.hops), [(g[0],) + tuple(x if not isinstance(x, bytes) else len(x) for x in g[1:]) for g in got]), meta)
        return False
    return True


def judge_fault(ctx, evs, meta, honest, strict, fwd_relay_node=None):
    """evs: everything that happened after a faulty datagram was delivered"""
    dl = deliveries(evs)
    key = meta["kind"]
    if dl and (strict or dl != honest):
        ctx.violation("%s/delivered" % key, "%s: %s reached a consumer: %s" % (
            meta.get("what", key), "an altered cell" if dl != honest else "a cell with altered id/flag/body",
            [(d[0],) + tuple(len(x) if isinstance(x, bytes) else x for x in d[1:]) for d in dl][:3]), meta)
        return False
    if strict and fwd_relay_node is not None:
        sends = [rec for rec in evs[0]["records"] if rec[0] == "send"]
        if sends:
            ctx.violation("%s/forwarded-by-relay" % key, "%s: relay %s forwarded it" % (meta.get("what", key), fwd_relay_node), meta)
            return False
    return True


# ------------------------------------------------------------------------------------------ scenarios
async def make_net(hidden=False, n_relays=3, n_exits=2):
    cls = None
    if hidden:
        from ipv8.messaging.anonymization.hidden_services import HiddenTunnelCommunity
        cls = HiddenTunnelCommunity
    tn = onionlock.LockNet(n_relays=n_relays, n_exits=n_exits, cls=cls, exit_flags=(2, 4, 8))
    await tn.start()
    return tn


async def honest_forward(run, c, path, dest, data, meta, check=True):
    tn, o = run.tn, run.tn.origin
    evs = [run.send_data(o, c.hop.address, c.circuit_id, dest, NULL, data)]
    await tn.drain(evs)
    run.add_all(evs, meta)
    if check:
        ok = expect_fwd(run.ctx, tn, c, path, evs, dest, data, meta)
        check_links(run.ctx, tn, c, evs, "forward", data, meta)
        return evs, ok
    return evs, True


async def honest_backward(run, c, path, source, data, meta, consumer="raw"):
    tn = run.tn
    ex, cid, _ = path[-1]
    evs = [run.tunnel_data(ex, cid, source, data)]
    await tn.drain(evs)
    run.add_all(evs, meta)
    ok = expect_bwd(run.ctx, tn, c, evs, source, data, meta, consumer)
    check_links(run.ctx, tn, c, evs, "backward", data, meta)
    return evs, ok


def variants(r, dg, quick, body_samples):
    """(position, mask) pairs: every header byte (both flag bytes with a boolean flip and a same-truth change),
    sampled / all body positions"""
    out = [(p, 1 << r.randrange(8)) for p in range(23)]
    out += [(p, r.choice([1, 1 << r.randrange(8)])) for p in range(23, 27)]
    out += [(27, 1), (27, 2), (28, 1), (28, 2)]
    body = list(range(29, len(dg)))
    if body_samples is not None and len(body) > body_samples:
        keep = set(r.sample(body, body_samples - 4)) | {29, 36, 37, len(dg) - 17, len(dg) - 16, len(dg) - 1}
        body = sorted(keep & set(body))
    out += [(p, 1 << r.randrange(8)) for p in body]
    return out


async def reach_link(run, c, path, direction, link, data, dest, source, meta):
    """start an honest transfer and stop with the datagram of `link` (indexed from the originator) at the head
    of the queue; returns the events so far"""
    tn, n = run.tn, len(c.hops)
    if direction == "forward":
        evs = [run.send_data(tn.origin, c.hop.address, c.circuit_id, dest, NULL, data)]
        steps = link
    else:
        ex, cid, _ = path[-1]
        evs = [run.tunnel_data(ex, cid, source, data)]
        steps = n - 1 - link
    for _ in range(steps):
        await tn.drain(evs, limit=1)
    run.add_all(evs, meta)
    return evs


async def fault_round(run, c, path, direction, link, faults, base_meta, honest_dl, data, dest, source):
    """faults: list of (meta, strict, fn(src, dst, datagram) -> datagram to deliver instead)"""
    tn, ctx, n = run.tn, run.ctx, len(c.hops)
    await reach_link(run, c, path, direction, link, data, dest, source, dict(base_meta, what="honest prefix"))
    if not tn.net.queue:
        ctx.broke("scenario: no datagram on link %d (%s, %d hops)" % (link, direction, n))
        return 0
    src, dst, dg = tn.net.queue.popleft()
    receiver = tn.by_addr[tuple(dst)]
    is_fwd_relay = direction == "forward" and link < n - 1
    bad = 0
    for meta, strict, fn in faults:
        v = fn(src, dst, dg)
        if v is None:
            continue
        first = tn.deliver(src, dst, v)
        evs = [first]
        await tn.drain(evs)
        run.add_all(evs, meta)
        ok = judge_fault(ctx, evs, meta, honest_dl, strict, receiver._verif_name if (is_fwd_relay and strict) else None)
        bad += 0 if ok else 1
        ctx.count((run.tag, meta["kind"], direction, n, link, meta.get("pos"), meta.get("mask"), meta.get("how")), nontrivial=True)
    # the originator takes a circuit's cells from its first hop's address only (origin_binding): the unmodified cell
    # arriving from that host's IP on another port, or from an unrelated host, must not reach a consumer
    if tuple(dst) == tuple(tn.origin.my_peer.address):
        for sname, spoof in (("first-hop-ip-other-port", (src[0], 1024 + (src[1] + 7) % 60000)), ("unrelated-host", ("203.0.113.78", src[1]))):
            meta = dict(base_meta, kind="wrong-sender", sender=sname,
                        what="the unmodified cell of %s link %d delivered from %s instead of the first hop" % (direction, link, sname))
            evs = [tn.deliver(spoof, dst, dg)]
            await tn.drain(evs)
            run.add_all(evs, meta)
            dl = [d for d in deliveries(evs) if d[0] != "handler"]      # on_data is entered, and has to refuse
            if dl:
                ctx.violation("wrong-sender/delivered-from-%s" % sname, "%s: reached a consumer: %s" % (
                    meta["what"], [(d[0],) + tuple(len(x) if isinstance(x, bytes) else x for x in d[1:]) for d in dl][:3]), meta)
                bad += 1
            ctx.count((run.tag, "wrong-sender", direction, n, link, sname), nontrivial=True)
    # the honest datagram still goes through afterwards
    evs = [tn.deliver(src, dst, dg)]
    await tn.drain(evs)
    m = dict(base_meta, what="honest datagram after the faulty ones")
    run.add_all(evs, m)
    if deliveries(evs) != honest_dl:
        ctx.violation("honest-after-fault/not-delivered", "%s link %d of %d hops: the unmodified cell is no longer delivered as before" % (direction, link, n), m)
    return bad


async def plain_scenarios(ctx, run, r):
    """hops 1..3, both directions, sizes, data / ping / test cells, re-injection; then faults"""
    tn = run.tn
    circuits = {}
    for h in (1, 2, 3):
        c = await tn.build_circuit(h)
        if c is None:
            ctx.broke("scenario: could not build a %d-hop circuit" % h)
            continue
        circuits[h] = c
    dests = [("1.2.3.4", 5), ("2001:db8::7", 4433), ("203.0.113.9", 65535)]
    from ipv8.messaging.interfaces.udp.endpoint import DomainAddress
    stats = {"forward": 0, "backward": 0, "ping": 0, "test": 0, "tamper": 0, "splice": 0, "inject": 0}
    sizes = SIZES if ctx.quick else sorted(set(range(0, 1401, 7)) | set(SIZES))
    for h, c in circuits.items():
        path = path_of(tn, c)
        if len(path) != h or path[-1][2] != "exit":
            ctx.broke("scenario: path of the %d-hop circuit not found" % h)
            continue
        for n in sizes:
            big = n > 300
            # thorough tier: every size goes through the oracle, every seventh of them also through the model
            run.lock = ctx.quick or n in SIZES or n % 49 == 0
            data = shaped(r, n)
            dest = r.choice(dests)
            meta = {"kind": "forward", "hops": h, "size": n, "dest": list(dest)}
            _, ok = await honest_forward(run, c, path, dest, data, meta)
            ctx.count(("fwd", h, n), nontrivial=True)
            stats["forward"] += 1
            source = r.choice(dests)
            data = shaped(r, n)
            meta = {"kind": "backward", "hops": h, "size": n, "source": list(source)}
            await honest_backward(run, c, path, source, data, meta)
            ctx.count(("bwd", h, n), nontrivial=True)
            stats["backward"] += 1
            if big and ctx.quick:
                continue
            # speed-test cells of this size
            ident = r.randrange(65536)
            evs = [run.send_test_request(tn.origin, c.hop.address, c.circuit_id, ident, n, r.randbytes(n))]
            await tn.drain(evs)
            m = {"kind": "test", "hops": h, "size": n}
            run.add_all(evs, m)
            got = [d for d in deliveries(evs) if d[0] == "handler"]
            if [g[1] for g in got] != [19, 20] or len(got[1][2]) != 29 + n:
                ctx.violation("test-cell/not-intact", "test request/response of %d bytes over %d hops: handlers %s" % (n, h, [(g[1], len(g[2])) for g in got]), m)
            ctx.count(("test", h, n), nontrivial=True)
            stats["test"] += 1
        run.lock = True
        # a domain-name destination (resolution is stubbed in the harness)
        data = shaped(r, 40)
        dest = DomainAddress("tracker.example.org", 6969)
        await honest_forward(run, c, path, dest, data, {"kind": "forward", "hops": h, "size": 40, "dest": list(dest)})
        # ping / pong
        ident = r.randrange(65536)
        evs = [run.send_ping(tn.origin, c.hop.address, c.circuit_id, ident)]
        await tn.drain(evs)
        m = {"kind": "ping", "hops": h}
        run.add_all(evs, m)
        hs = [d for d in deliveries(evs) if d[0] == "handler"]
        if [x[1] for x in hs] != [6, 7] or int.from_bytes(hs[1][2][27:29], "big") != ident:
            ctx.violation("ping/not-intact", "ping %d over %d hops: handlers entered %s" % (ident, h, [x[1] for x in hs]), m)
        ctx.count(("ping", h), nontrivial=True)
        stats["ping"] += 1
        stats["cell_kinds_ok"] = stats.get("cell_kinds_ok", 0) + await cell_kinds(ctx, run, r, tn.origin, c, path[-1][0], "plain %d-hop" % h)
        # returned IPv8-shaped data: own prefix -> never executed by a plain tunnel node; foreign prefix -> dropped here
        own = tn.prefix() + bytes([254]) + r.randbytes(12)
        await honest_backward(run, c, path, ("198.51.100.7", 7), own, {"kind": "backward", "hops": h, "size": len(own), "shape": "own-ipv8"}, "none")
        stats["returned_control"] = stats.get("returned_control", 0) + await returned_tunnel_shaped(
            ctx, run, r, c, path, [x for k, x in circuits.items() if k != h])
        other = b"\x00\x02" + r.randbytes(20) + bytes([1]) + r.randbytes(9)
        await honest_backward(run, c, path, ("198.51.100.7", 7), other, {"kind": "backward", "hops": h, "size": len(other), "shape": "foreign-ipv8"}, "none")
    # ------------------------------------------------------------------ faults
    body_samples = 64 if ctx.quick else None
    for h, c in circuits.items():
        path = path_of(tn, c)
        others = [x for k, x in circuits.items() if k != h]
        for direction in ("forward", "backward"):
            data = shaped(r, 40)
            dest, source = ("1.2.3.4", 5), ("5.6.7.8", 9)
            # what the honest transfer delivers (reference for the faults that must not change it)
            if direction == "forward":
                evs, _ = await honest_forward(run, c, path, dest, data, {"kind": "forward", "hops": h, "size": 40, "ref": True})
            else:
                evs, _ = await honest_backward(run, c, path, source, data, {"kind": "backward", "hops": h, "size": 40, "ref": True})
            honest_dl = deliveries(evs)
            for link in range(h):
                base = {"hops": h, "dir": direction, "link": link, "size": 40}
                faults = []
                # position variants are computed from the honest datagram, lazily (the datagram differs per round)
                plan = []

                def mk_tamper(pos, mask):
                    def f(src, dst, dg, _p=pos, _m=mask):
                        return tn.tamper(dg, _p, _m) if _p < len(dg) else None
                    return f
                # probe datagram length: header 29 + body; variants need the length -> use a representative
                probe_len = 29 + 1 + 7 + 7 + 40 + OVH * (h - link)
                for pos, mask in variants(r, bytes(probe_len), ctx.quick, body_samples):
                    flagpos = pos in (27, 28)
                    strict = not (pos == 28 or (pos == 27 and mask == 2 and False))
                    meta = dict(base, kind="tamper", pos=pos, mask=mask,
                                what="byte %d of the cell on link %d xor %d (%s, %d hops)" % (pos, link, mask, direction, h))
                    faults.append((meta, strict, mk_tamper(pos, mask)))
                stats["tamper"] += len(faults)
                # splices: the body of another circuit's cell / of this circuit's cell in the other direction
                for oc in others[:2]:
                    def splice(src, dst, dg, _oc=oc):
                        donor = [x for x in tn.net.log if x[2][:22] == tn.prefix() and len(x[2]) > 60
                                 and x[2][22] == 0 and int.from_bytes(x[2][23:27], "big") == _oc.circuit_id]
                        return dg[:29] + donor[-1][2][29:] if donor else None
                    faults.append((dict(base, kind="splice", how="other-circuit", what="body of a cell of another circuit under this circuit's id (link %d, %s, %d hops)" % (link, direction, h)), True, splice))

                def reflect(src, dst, dg):
                    me = int.from_bytes(dg[23:27], "big")
                    donor = [x for x in tn.net.log if x[0] == tuple(dst) and x[1] == tuple(src) and tn.is_cell(x[2]) and len(x[2]) > 60
                             and int.from_bytes(x[2][23:27], "big") == me]
                    return dg[:29] + donor[-1][2][29:] if donor else None
                faults.append((dict(base, kind="splice", how="reflected", what="body of the opposite direction's cell on the same link (link %d, %s, %d hops)" % (link, direction, h)), True, reflect))

                def truncate(src, dst, dg):
                    return dg[:29 + max(0, len(dg) - 29 - r.choice([1, 8, 16, 24]))]
                faults.append((dict(base, kind="tamper", how="truncated", what="cell body truncated (link %d, %s, %d hops)" % (link, direction, h)), True, truncate))

                def extend(src, dst, dg):
                    return dg + r.randbytes(r.choice([1, 16]))
                faults.append((dict(base, kind="tamper", how="extended", what="bytes appended to the cell (link %d, %s, %d hops)" % (link, direction, h)), True, extend))
                stats["splice"] += len(others[:2]) + 1
                # injections without the session keys
                def inject_fresh(src, dst, dg):
                    k = tn.new_keys()
                    msg = bytes([1]) + r.randbytes(30)
                    layers = (h - link) if direction == "forward" else (h - link)
                    for _ in range(layers):
                        msg = k.encrypt_str(msg, 0 if direction == "forward" else 1)
                    return dg[:29] + msg
                faults.append((dict(base, kind="inject", how="fresh-keys", what="cell encrypted under keys of an outsider (link %d, %s, %d hops)" % (link, direction, h)), True, inject_fresh))

                def inject_unknown(src, dst, dg):
                    return dg[:23] + r.randbytes(4) + dg[27:]
                faults.append((dict(base, kind="inject", how="unknown-id", what="cell for an unknown circuit id (link %d, %s, %d hops)" % (link, direction, h)), True, inject_unknown))

                def inject_plain(src, dst, dg):
                    return dg[:27] + b"\x01\x00" + bytes([1]) + r.randbytes(20)
                faults.append((dict(base, kind="inject", how="plaintext-data", what="plaintext-flagged data cell (link %d, %s, %d hops)" % (link, direction, h)), True, inject_plain))

                def mk_plain(kind, early):
                    def f(src, dst, dg, _k=kind, _e=early):
                        from ipv8.messaging.anonymization.payload import DataPayload, PingPayload
                        me = int.from_bytes(dg[23:27], "big")
                        pl = DataPayload(me, ("7.7.7.7", 7), ("6.6.6.6", 6), b"dINJECTEDe") if _k == "data" else PingPayload(me, 99)
                        body = bytes([pl.msg_id]) + tn.origin.serializer.pack_serializable(pl)[4:]
                        return dg[:27] + b"\x01" + (b"\x01" if _e else b"\x00") + body
                    return f
                for kind in ("data", "ping"):
                    for early in (False, True):
                        faults.append((dict(base, kind="inject", how="plaintext-wellformed-%s%s" % (kind, "-early" if early else ""),
                                            what="well-formed %s message with the plaintext flag set under this circuit's id (link %d, %s, %d hops)" % (
                                                kind, link, direction, h)), True, mk_plain(kind, early)))
                stats["inject"] += 7
                await fault_round(run, c, path, direction, link, faults, dict(base, kind="tamper"), honest_dl, data, dest, source)
    # last (it ends the circuits): the exit retires its socket, the outside still answers
    stats["retiring_exit"] = 0
    for h, c in circuits.items():
        stats["retiring_exit"] += await retiring_exit(ctx, run, r, c, path_of(tn, c))
    return stats


async def retiring_exit(ctx, run, r, c, path):
    """the exit retires the circuit's socket the way do_remove does (inactivity / age / traffic limit: no destroy is sent,
    the originator still considers the circuit READY); the socket and its transports stay open for remove_tunnel_delay
    (default, > 0) and the outside host answers INSIDE that delay.  Whatever then travels back does so under the
    circuit's layers: no link carries the returned payload or the plaintext cell, link i carries exactly the layers of
    hops i+1..n, and what reaches the originator is the reply, from its source, under the circuit's id - or nothing
    travels at all."""
    tn = run.tn
    if not path or path[-1][2] != "exit":
        return 0
    ex, xcid, _ = path[-1]
    es = ex.exit_sockets.get(xcid)
    if es is None or not ex.settings.remove_tunnel_delay > 0:
        ctx.broke("scenario: retiring exit needs a live exit socket and remove_tunnel_delay > 0")
        return 0
    n = 0
    ex.remove_exit_socket(xcid, "retired by the exit (as do_remove does)")
    for _ in range(4):
        await asyncio.sleep(0)                 # the removal task runs up to its sleep(remove_tunnel_delay)
    for i, size in enumerate((40, 300)):
        source = ("203.0.113.%d" % (20 + i), 4000 + i)
        data = shaped(r, size)
        meta = {"kind": "retiring-exit", "hops": len(c.hops), "size": size,
                "what": "reply from outside arriving at an exit socket that is being retired (inside remove_tunnel_delay), %d hops" % len(c.hops)}
        ev = "EvTunnelData %d %s %s" % (xcid, addr_coq(source), zl(data))
        evs = [tn.observe(ex, ev, lambda: es.tunnel_data(source, data))]
        await tn.drain(evs)
        run.add_all(evs, meta)
        n += 1
        ctx.count(("retiring-exit", len(c.hops), size), nontrivial=True)
        on_links = [e["datagram"][2] for e in evs[1:] if e.get("datagram")]
        leak = [k for k, dg in enumerate(on_links) if data in dg]
        if leak:
            ctx.violation("backward/plaintext-on-link", "%s: the returned payload is readable on %d of the %d datagram(s) sent on "
                          "(first: the exit -> previous hop link)" % (meta["what"], len(leak), len(on_links)), meta)
            continue
        if not on_links:
            continue                           # nothing travelled: the reply was dropped at the exit
        if expect_bwd(ctx, tn, c, evs, source, data, meta):
            check_links(ctx, tn, c, evs, "backward", data, meta)
    evs = []
    return n


async def cell_kinds(ctx, run, r, a, ca, b, label, sizes=(0, 1, 40, 279)):
    """request/answer cells sent into circuit ca by its originator a, far end b: ping/pong and speed-test
    request/response.  What was sent arrives at the far end's handler, the answer comes back to the sender's request
    cache (which is cleared / whose future is resolved), attributed to circuit ca."""
    from ipv8.messaging.anonymization.caches import PingRequestCache, TestRequestCache
    tn = run.tn
    n_ok = 0
    for _ in range(2):
        cache = PingRequestCache(a)
        a.request_cache.add(cache)
        meta = {"kind": "cell-kinds", "cell": "ping", "circuit": label}
        evs = [run.send_ping(a, ca.hop.address, ca.circuit_id, cache.number)]
        await tn.drain(evs)
        run.add_all(evs, meta)
        hs = [(e["node"], rec[1], rec[3], rec[4]) for e in evs for rec in e["records"] if rec[0] == "handler"]
        ping_in = [h for h in hs if h[1] == 6 and h[0] == b._verif_name and int.from_bytes(h[2][27:29], "big") == cache.number]
        pong_in = [h for h in hs if h[1] == 7 and h[0] == a._verif_name and int.from_bytes(h[2][27:29], "big") == cache.number
                   and int.from_bytes(h[2][23:27], "big") == ca.circuit_id]
        if len(ping_in) != 1:
            ctx.violation("cell-kinds/ping-not-delivered", "ping over the %s circuit: the far end's ping handler was entered %d times (handlers %s)" % (
                label, len(ping_in), [(h[0], h[1]) for h in hs]), meta)
        elif len(pong_in) != 1 or a.request_cache.has(PingRequestCache, cache.number):
            ctx.violation("cell-kinds/ping-not-answered", "ping over the %s circuit reached %s but no pong for circuit %d came back to %s's request cache "
                          "(handlers entered %s)" % (label, b._verif_name, ca.circuit_id, a._verif_name, [(h[0], h[1]) for h in hs]), meta)
            if a.request_cache.has(PingRequestCache, cache.number):
                a.request_cache.pop(PingRequestCache, cache.number)
        else:
            n_ok += 1
        ctx.count(("cell-kinds", "ping", label, _), nontrivial=True)
    for n in sizes:
        cache = TestRequestCache(a, ca)
        a.request_cache.add(cache)
        req = r.randbytes(n)
        meta = {"kind": "cell-kinds", "cell": "test", "circuit": label, "size": n}
        evs = [run.send_test_request(a, ca.hop.address, ca.circuit_id, cache.number, n, req)]
        await tn.drain(evs)
        for _ in range(3):
            await asyncio.sleep(0)
        run.add_all(evs, meta)
        hs = [(e["node"], rec[1], rec[3]) for e in evs for rec in e["records"] if rec[0] == "handler"]
        rq_in = [h for h in hs if h[1] == 19 and h[0] == b._verif_name and h[2][31:] == req]
        done = cache.future.done() and not cache.future.cancelled() and cache.future.exception() is None
        if len(rq_in) != 1:
            ctx.violation("cell-kinds/test-request-not-delivered", "speed-test request of %d bytes over the %s circuit: far-end handler entered %d times (handlers %s)" % (
                n, label, len(rq_in), [(h[0], h[1]) for h in hs]), meta)
        elif not done or len(cache.future.result()[0]) != n or a.request_cache.has(TestRequestCache, cache.number):
            ctx.violation("cell-kinds/test-request-not-answered", "speed-test request over the %s circuit reached %s but the %d-byte response did not come back to "
                          "%s's request cache" % (label, b._verif_name, n, a._verif_name), meta)
        else:
            n_ok += 1
        if a.request_cache.has(TestRequestCache, cache.number):
            a.request_cache.pop(TestRequestCache, cache.number)
        ctx.count(("cell-kinds", "test", label, n), nontrivial=True)
    return n_ok


def tunnel_shaped(tn, o, c, others, r):
    """datagrams an outside host could send back through the exit that are shaped like messages of the tunnel overlay
    itself (overlay prefix + message id + body): every cell type, naming the victim's circuit ids"""
    from ipv8.messaging.anonymization.payload import (CreatedPayload, CreatePayload, DataPayload, ExtendedPayload, ExtendPayload,
                                                      PingPayload, PongPayload, TestRequestPayload, TestResponsePayload, DestroyPayload)
    pfx, ser = tn.prefix(), o.serializer
    att = tn.nodes["relay2"]
    _, pub = att.crypto.generate_diffie_secret()
    akey = att.my_peer.public_key.key_to_bin()
    cid = c.circuit_id
    ocid = others[0].circuit_id if others else cid
    out = []

    def m(name, payload):
        out.append((name, pfx + bytes([payload.msg_id]) + ser.pack_serializable(payload)))
    m("data-for-this-circuit", DataPayload(cid, NULL, ("6.6.6.6", 6), b"INJECTED" * 4))
    m("data-for-another-own-circuit", DataPayload(ocid, NULL, ("6.6.6.6", 6), b"INJECTED" * 4))
    m("data-to-exit-again", DataPayload(cid, ("7.7.7.7", 7), ("6.6.6.6", 6), b"dINJECTEDe"))
    m("create", CreatePayload(r.getrandbits(32), 7, akey, pub))
    m("created", CreatedPayload(cid, 7, pub, bytes(32), b"x" * 30))
    m("extend", ExtendPayload(cid, 7, akey, pub, att.my_peer.address))
    m("extended", ExtendedPayload(cid, 7, pub, bytes(32), b"x" * 30))
    m("ping", PingPayload(cid, 77))
    m("pong", PongPayload(cid, 77))
    m("test-request", TestRequestPayload(cid, 5, 20, b"abc"))
    m("test-response", TestResponsePayload(cid, 5, b"abc"))
    out.append(("destroy", att.ezr_pack(DestroyPayload.msg_id, DestroyPayload(cid, 1))))
    out.append(("cell", pfx + b"\x00" + cid.to_bytes(4, "big") + b"\x01\x00" + bytes([1]) + r.randbytes(30)))
    out.append(("unknown-id", pfx + bytes([254]) + r.randbytes(12)))
    return out


async def returned_tunnel_shaped(ctx, run, r, c, path, others):
    """the outside world answers through the exit with datagrams shaped like circuit messages; senders: the first hop's
    exact address (spoofed), its IP with another port, an unrelated host.  Nothing may be executed by the originator."""
    tn, o = run.tn, run.tn.origin
    ex, xcid, _ = path[-1]
    fh = tuple(c.hop.address)
    n = 0
    for sname, source in (("first-hop-address", fh), ("first-hop-ip-other-port", (fh[0], 4444)), ("unrelated", ("203.0.113.77", 4242))):
        for kind, inner in tunnel_shaped(tn, o, c, others, r):
            meta = {"kind": "returned-control", "inner": kind, "sender": sname, "hops": len(c.hops),
                    "what": "a %s message of the tunnel overlay returned through the exit by an outside sender (%s)" % (kind, sname)}
            before = (set(o.exit_sockets), set(o.relay_from_to), set(o.circuits), set(o.request_cache._identifiers))
            evs = [run.tunnel_data(ex, xcid, source, inner)]
            await tn.drain(evs)
            for _ in range(4):
                await asyncio.sleep(0)
            await tn.drain(evs)
            run.add_all(evs, meta)
            n += 1
            ctx.count(("returned-control", kind, sname, len(c.hops)), nontrivial=True)
            hs = [(e["node"], rec[1]) for e in evs for rec in e["records"] if rec[0] == "handler"]
            dl = [d for d in deliveries(evs) if d[0] in ("raw", "exit", "reinject")]
            sent_by_o = [rec for e in evs for rec in e["records"] if rec[0] == "send" and rec[1] == tuple(o.my_peer.address)]
            after = (set(o.exit_sockets), set(o.relay_from_to), set(o.circuits), set(o.request_cache._identifiers))
            if hs != [(o._verif_name, 1)] or dl or sent_by_o or after != before:
                what = []
                if [h for h in hs if h != (o._verif_name, 1)]:
                    what.append("handlers entered %s" % [h for h in hs[1:]])
                if dl:
                    what.append("delivered %s" % [d[0] for d in dl])
                if sent_by_o:
                    what.append("the originator itself sent %d datagram(s) to %s" % (len(sent_by_o), sorted({x[2] for x in sent_by_o})))
                if after != before:
                    what.append("the originator's tables / request caches changed")
                ctx.violation("returned-control/executed-from-%s" % sname, "%s: %s" % (meta["what"], "; ".join(what)), meta)
    return n


def la_lb_guard(ca, cb_):
    """index of the event at the receiving end (after the originating event and one event per relay / rendezvous point)"""
    return len(ca.hops) + len(cb_.hops)


async def e2e_scenario(ctx, run, r):
    """one hidden-service style circuit pair linked at a rendezvous point, with the extra end-to-end layer"""
    import os as _os
    from ipv8.messaging.anonymization.caches import LinkRequestCache
    from ipv8.messaging.anonymization.payload import LinkE2EPayload
    from ipv8.peer import Peer
    tn = run.tn
    seeder, downloader = tn.origin, tn.nodes["relay2"]
    for ov in (seeder, downloader):
        ov.settings.peer_flags = set(ov.settings.peer_flags) | {8}      # both ends answer speed tests
    info_hash = bytes(range(20))
    seeder.join_swarm(info_hash, 1, seeding=True)
    downloader.join_swarm(info_hash, 1, seeding=False)

    async def pumped(coro):
        t = asyncio.ensure_future(coro)
        for _ in range(200):
            if t.done():
                break
            await tn.settle()
        return t.result() if t.done() else None
    rp = await pumped(seeder.create_rendezvous_point(info_hash))
    if rp is None:
        ctx.broke("e2e scenario: rendezvous point not created")
        return None
    for _ in range(200):
        if rp.ready.done():
            break
        await tn.settle()
    if not rp.ready.done() or rp.address is None:
        ctx.broke("e2e scenario: rendezvous point not established")
        return None
    rp_node = tn.by_addr[tuple(rp.address)]
    dc = downloader.create_circuit_for_infohash(info_hash, "RP_DOWNLOADER",
                                                required_exit=Peer(rp_node.my_peer.public_key.key_to_bin(), rp.address))
    if dc is None:
        ctx.broke("e2e scenario: downloader circuit not created")
        return None
    for _ in range(100):
        await tn.settle()
        if dc.state == "READY":
            break
    if dc.state != "READY":
        ctx.broke("e2e scenario: downloader circuit not ready")
        return None
    shared = _os.urandom(64)
    rp.circuit.hs_session_keys = seeder.crypto.generate_session_keys(shared)
    cache = LinkRequestCache(downloader, dc, info_hash, downloader.crypto.generate_session_keys(shared))
    downloader.request_cache.add(cache)
    downloader.send_cell(dc.hop.address, LinkE2EPayload(dc.circuit_id, cache.number, rp.cookie))
    for _ in range(100):
        await tn.settle()
        if dc.e2e:
            break
    if not dc.e2e or dc.hs_session_keys is None:
        ctx.broke("e2e scenario: circuits not linked")
        return None
    sc = rp.circuit
    n_ok = 0
    # request / answer cells over the linked circuit, in both directions
    kinds_ok = 0
    for a, ca, b in ((downloader, dc, seeder), (seeder, sc, downloader)):
        kinds_ok += await cell_kinds(ctx, run, r, a, ca, b, "linked e2e (from the %s)" % ("downloader" if a is downloader else "seeder"))
    ctx.extra["e2e_cell_kinds_ok"] = kinds_ok
    # a plain data circuit of a hidden-services node: the lookups that are meant to travel inside data messages
    # (peers-response here, unknown identifier) are handed to the dispatcher with the outside sender as source;
    # circuit control messages are not
    from ipv8.messaging.anonymization.payload import CreatePayload, PeersResponsePayload
    pc = await tn.build_circuit(2)
    if pc is None:
        ctx.broke("e2e scenario: plain circuit of the hidden-services node not built")
    else:
        ppath = path_of(tn, pc)
        pex, pxcid, _ = ppath[-1]
        src = ("203.0.113.5", 5353)
        pr = tn.prefix() + bytes([PeersResponsePayload.msg_id]) + seeder.serializer.pack_serializable(
            PeersResponsePayload(pc.circuit_id, r.randrange(65536), bytes(20), []))
        evs = [run.tunnel_data(pex, pxcid, src, pr)]
        await tn.drain(evs)
        meta = {"kind": "backward", "shape": "peers-response", "hops": 2}
        run.add_all(evs, meta)
        hs = [(e["node"], rec[1]) for e in evs for rec in e["records"] if rec[0] == "handler"]
        if hs != [(seeder._verif_name, 1), (seeder._verif_name, PeersResponsePayload.msg_id)] or \
                [d for d in deliveries(evs) if d[0] == "reinject"] != [("reinject", src, pr, pc.circuit_id)]:
            ctx.violation("backward/lookup-answer-not-dispatched", "a peers-response returned through the exit was not handed to its handler "
                          "with the outside sender and this circuit's id (handlers %s)" % hs, meta)
        _, pub = downloader.crypto.generate_diffie_secret()
        cr = tn.prefix() + bytes([2]) + seeder.serializer.pack_serializable(
            CreatePayload(r.getrandbits(32), 7, downloader.my_peer.public_key.key_to_bin(), pub))
        before = set(seeder.exit_sockets)
        evs = [run.tunnel_data(pex, pxcid, src, cr)]
        await tn.drain(evs)
        for _ in range(4):
            await asyncio.sleep(0)
        await tn.drain(evs)
        meta = {"kind": "returned-control", "inner": "create", "sender": "unrelated", "hidden": True,
                "what": "a create message of the tunnel overlay returned through the exit by an outside sender (hidden-services node)"}
        run.add_all(evs, meta)
        hs = [(e["node"], rec[1]) for e in evs for rec in e["records"] if rec[0] == "handler"]
        sent_by_o = [rec for e in evs for rec in e["records"] if rec[0] == "send" and rec[1] == tuple(seeder.my_peer.address)]
        if hs != [(seeder._verif_name, 1)] or sent_by_o or set(seeder.exit_sockets) != before:
            ctx.violation("returned-control/executed", "%s: handlers %s, %d datagram(s) sent by the originator, exit sockets %s" % (
                meta["what"], hs, len(sent_by_o), sorted(set(seeder.exit_sockets) - before)), meta)
    for a, ca, b, cb_, d_hs in ((downloader, dc, seeder, sc, 1), (seeder, sc, downloader, dc, 0)):
        payloads = [("raw", shaped(r, n, "raw")) for n in ([0, 1, 40, 279, 1000] if ctx.quick else [0, 1, 2, 40, 279, 600, 1000, 1400])]
        # every size below the IPv8 threshold, non-IPv8 payloads around it, and IPv8-shaped payloads (00 01 / 00 02 and at
        # least 23 bytes) with a foreign prefix and with the tunnel overlay's own prefix: on an end-to-end circuit all of
        # them are raw data for the consumer, never overlay traffic
        payloads += [("short", bytes([0, r.choice([1, 2])])[:n] + r.randbytes(max(0, n - 2))) for n in range(0, 23)]
        payloads += [("not-ipv8", bytes([r.choice([1, 3, 255]), r.randrange(256)]) + r.randbytes(n - 2)) for n in (23, 24, 60)]
        payloads += [("ipv8-foreign", bytes([0, v]) + r.randbytes(n - 2)) for v in (1, 2) for n in ((23, 24, 60, 300) if ctx.quick else (23, 24, 25, 60, 300, 1000))]
        payloads += [("ipv8-own-prefix", tn.prefix() + bytes([mid]) + r.randbytes(k)) for mid in (254, 7, 1) for k in (0, 1, 30)]
        for shape, data in payloads:
            n = len(data)
            org = ("10.9.8.7", 1024)
            meta = {"kind": "e2e", "from": a._verif_name, "size": n, "shape": shape}
            evs = [run.send_data(a, ca.hop.address, ca.circuit_id, NULL, org, data)]
            await tn.drain(evs)
            run.add_all(evs, meta)
            got = [d for d in deliveries(evs) if d[0] in ("raw", "exit", "reinject")]
            if got != [("raw", cb_.circuit_id, org, data)]:
                ctx.violation("e2e/not-intact", "%d bytes (%s) from %s: the other end's consumer saw %s" % (
                    n, shape, a._verif_name, [(g[0], len(g[-1]) if isinstance(g[-1], bytes) else g[-1]) for g in got]), meta)
            else:
                n_ok += 1
            # no other effect: the only handler entered is the receiving end's data handler, nothing goes to third parties
            hs = [(e["node"], rec[1]) for e in evs for rec in e["records"] if rec[0] == "handler"]
            if hs != [(b._verif_name, 1)]:
                ctx.violation("e2e/other-handler-entered", "%d bytes (%s) from %s: handlers entered %s" % (n, shape, a._verif_name, hs), meta)
            stray = [rec for e in evs[la_lb_guard(ca, cb_):] for rec in e["records"] if rec[0] == "send"]
            if stray:
                ctx.violation("e2e/packet-to-third-party", "%d bytes (%s) from %s: the receiving end sent %d datagram(s)" % (n, shape, a._verif_name, len(stray)), meta)
            # links: every body opens only with the remaining hop keys and then the end-to-end key
            dgs = [e["datagram"][2] for e in evs[1:]]
            la, lb = len(ca.hops), len(cb_.hops)
            if len(dgs) != la + lb:
                ctx.violation("e2e/link-count", "%d datagrams for %d+%d hops" % (len(dgs), la, lb), meta)
                continue
            ka, kb = [h.keys for h in ca.hops], [h.keys for h in cb_.hops]
            seen = []
            for i, dg in enumerate(dgs):
                body = dg[29:]
                if i < la:
                    inner = peel(ka[i:], 0, body)
                    layers = la - i
                else:
                    j = la + lb - 1 - i        # link index on the receiving circuit, from its originator
                    inner = peel(kb[j:], 1, body)
                    layers = lb - j
                plain = None if inner is None else peel([ca.hs_session_keys], d_hs, inner)
                if inner is None or plain is None or len(body) != len(plain) + OVH * (layers + 1):
                    ctx.violation("e2e/layers-on-link", "link %d: body does not open as %d hop layers + the end-to-end layer" % (i, layers), meta)
                if len(data) >= 8 and data in dg:
                    ctx.violation("e2e/plaintext-on-link", "payload visible on link %d" % i, meta)
                if plain is not None and len(plain) >= 8 and plain in dg:
                    ctx.violation("e2e/plaintext-on-link", "plaintext cell visible on link %d (rendezvous side)" % i, meta)
                for b2 in seen:
                    if b2 in dg:
                        ctx.violation("e2e/same-ciphertext-on-two-links", "a body seen before re-appears on link %d" % i, meta)
                seen.append(body)
            ctx.count(("e2e", a._verif_name, n), nontrivial=True)
    # faults on the rendezvous link and the last link
    data = shaped(r, 40, "raw")
    org = ("10.9.8.7", 1024)
    ref = [run.send_data(downloader, dc.hop.address, dc.circuit_id, NULL, org, data)]
    await tn.drain(ref)
    run.add_all(ref, {"kind": "e2e", "ref": True})
    honest_dl = deliveries(ref)
    total = len(dc.hops) + len(sc.hops)
    for stop in range(total):
        evs = [run.send_data(downloader, dc.hop.address, dc.circuit_id, NULL, org, data)]
        for _ in range(stop):
            await tn.drain(evs, limit=1)
        run.add_all(evs, {"kind": "e2e", "what": "honest prefix"})
        src, dst, dg = tn.net.queue.popleft()
        for pos, mask in variants(r, dg, True, 24 if ctx.quick else 200):
            if pos >= len(dg):
                continue
            meta = {"kind": "tamper", "e2e": True, "link": stop, "pos": pos, "mask": mask,
                    "what": "byte %d of the cell on e2e link %d xor %d" % (pos, stop, mask)}
            sub = [tn.deliver(src, dst, tn.tamper(dg, pos, mask))]
            await tn.drain(sub)
            run.add_all(sub, meta)
            judge_fault(ctx, sub, meta, honest_dl, pos != 28)
            ctx.count(("e2e-tamper", stop, pos, mask), nontrivial=True)
        sub = [tn.deliver(src, dst, dg)]
        await tn.drain(sub)
        run.add_all(sub, {"kind": "e2e", "what": "honest datagram after the faulty ones"})
        if deliveries(sub) != honest_dl:
            ctx.violation("honest-after-fault/not-delivered", "e2e link %d: the unmodified cell is no longer delivered" % stop, {"kind": "e2e", "link": stop})
    return n_ok


async def two_origins_one_exit(ctx, r):
    """return path with two (three) originators sharing ONE exit node: real TunnelExitSocket objects, only the OS transports
    are faked and their opening is gated (c05.CNet), IP-literal destinations.  Each originator's first datagrams are sent
    while its own socket, or the other circuit's, is still opening; then the outside answers every datagram on the
    transport it left through, v4 and v6.  Oracle: every reply is delivered exactly once, to the originator whose
    datagram it answers, under that originator's circuit id, with the answering host as origin."""
    from tools.checks import c05
    n_rounds = 0
    tn = c05.CNet(n_relays=2, n_exits=1, exit_flags=(2, 4, 8))
    await tn.start()
    try:
        exit_node = tn.nodes["exit0"]
        originators = [tn.origin, tn.nodes["relay0"], tn.nodes["relay1"]]
        for rnd_i in range(6 if ctx.quick else 40):
            circuits = []
            for k in range(2 if rnd_i % 3 else 3):
                o = originators[(rnd_i + k) % 3]
                c = await tn.build_circuit(1 if (rnd_i + k) % 2 else 2, origin=o)
                if c is None:
                    continue
                path = path_of(tn, c)
                if path and path[-1][0] is exit_node and path[-1][2] == "exit":
                    circuits.append((o, c, exit_node.exit_sockets[path[-1][1]]))
            if len(circuits) < 2:
                ctx.broke("scenario: two circuits of different originators at one exit not built")
                continue
            by_cid = {c.circuit_id: (o, c, es) for o, c, es in circuits}
            # round 0: A sends, A's socket opens, B sends while its socket is still opening, A sends again, B's opens, B sends
            (oa, ca, ea), (ob, cb_, eb) = circuits[0], circuits[1]
            if rnd_i == 0:
                plan = [("send", ca.circuit_id), ("open", ca.circuit_id), ("send", cb_.circuit_id), ("send", ca.circuit_id),
                        ("open", cb_.circuit_id), ("send", cb_.circuit_id)]
            elif rnd_i == 1:
                plan = [("send", ca.circuit_id), ("send", cb_.circuit_id), ("open", cb_.circuit_id), ("open", ca.circuit_id)]
            else:
                plan = []
                for o, c, es in circuits:
                    plan += [("send", c.circuit_id)] * r.choice([1, 2, 3]) + [("open", c.circuit_id)]
                r.shuffle(plan)
            meta = {"kind": "two-origins-one-exit", "round": rnd_i, "circuits": len(circuits), "schedule": [w for w, _ in plan]}
            tn.hold_transports = True
            sent, seq = {}, 0
            mark_out = len(tn.exits_out)
            evs = []
            for what, cid in plan:
                o, c, es = by_cid[cid]
                if what == "send":
                    seq += 1
                    data = c05.tagged(r, c, seq)
                    dest = ("198.51.100.%d" % (1 + seq % 200), 3000 + seq) if seq % 3 else ("2001:db8::%x" % seq, 3000 + seq)
                    sent[data] = (cid, dest)
                    o.send_data(c.hop.address, c.circuit_id, dest, NULL, data)
                    await tn.drain_c(evs)
                else:
                    await tn.release_transports(es)
            tn.hold_transports = False
            await tn.release_transports(None)
            await tn.drain_c(evs)
            outs = tn.exits_out[mark_out:]
            n_rounds += 1
            ctx.count(("two-origins-one-exit", rnd_i, tuple(w for w, _ in plan)), nontrivial=True)
            # the outside answers every datagram on the transport it came through
            evs = []
            expect = {}
            for owner, data, addr in outs:
                reply = b"d" + b"REPLY" + data[1:]
                expect[reply] = (sent.get(data, (None, None))[0], tuple(addr))
                if ":" in addr[0]:
                    owner.datagram_received_ipv6(reply, tuple(addr) + (0, 0))
                else:
                    owner.datagram_received_ipv4(reply, tuple(addr))
            await tn.drain_c(evs)
            got = [(e["node"], rec[1], tuple(rec[2]), rec[3]) for e in evs for rec in e["records"] if rec[0] == "raw"]
            seen = {}
            bad = False
            for node, cid, origin, data in got:
                want_cid, want_origin = expect.get(data, (None, None))
                seen[data] = seen.get(data, 0) + 1
                if want_cid is None:
                    continue
                if by_cid[want_cid][0]._verif_name != node or cid != want_cid:
                    ctx.violation("backward/delivered-to-other-origin",
                                  "the reply to a datagram that %s sent into circuit %d was delivered to %s under circuit %d (%d circuits of different "
                                  "originators at one exit; schedule %s)" % (by_cid[want_cid][0]._verif_name, want_cid, node, cid, len(circuits),
                                                                             meta["schedule"]), meta)
                    bad = True
                    break
                if origin[0] != want_origin[0] or origin[1] != want_origin[1]:
                    ctx.violation("backward/wrong-origin-address", "a reply from %s reached %s labelled as coming from %s" % (want_origin, node, origin), meta)
                    bad = True
                    break
            if bad:
                continue
            if sorted(d for _, d, _ in outs) != sorted(sent):
                ctx.violation("forward/lost-or-duplicated-at-shared-exit", "%d datagrams sent into %d circuits at one exit, %d left it" % (
                    len(sent), len(circuits), len(outs)), meta)
            elif any(seen.get(rp, 0) != 1 for rp in expect):
                ctx.violation("backward/reply-lost-or-duplicated", "%d replies handed to the exit's transports, delivered: %s" % (
                    len(expect), sorted(seen.values())), meta)
            for owner, data, addr in outs:
                cid = sent.get(data, (None, None))[0]
                if cid in by_cid and by_cid[cid][2] is not owner:
                    ctx.violation("forward/left-through-other-circuits-socket", "a datagram sent into circuit %d left through the socket of circuit %s" % (
                        cid, getattr(owner, "circuit_id", None)), meta)
                    break
    finally:
        tn.hold_transports = False
        await tn.release_transports(None)
        await tn.stop()
    return n_rounds


def evaluate(ctx, run, label):
    cases = run.cases
    if not cases:
        return
    mism, errs = onionlock.eval_cases(run.tn, IMPORTS, "run_lcase", "outcome_eqb", [(c, e) for c, e, _ in cases],
                                      os.path.join(ctx.scratch, label), "lcase * outcome")
    for e in errs:
        ctx.broke("model evaluation failed (%s)" % label, e)
    for i in mism[:8]:
        ctx.broke("correspondence (%s): model M04_onion and the implementation differ on one event" % label,
                  json.dumps(cases[i][2])[:500] + "\nCASE " + cases[i][0][:1500] + "\nIMPL " + cases[i][1][:1500])
    ctx.coverage["traces_validated_against_impl"] += len(cases) - len(mism)
    ctx.extra.setdefault("lockstep_events", {})[label] = len(cases)
    # extension: the same events on the functions translated from the source (gen/G04_onion.v)
    if ctx.extra.get("generated", {}).get("gen/G04_onion.v"):
        c04_onion_gen.evaluate(ctx, run.tn, GEN_IMPORTS, "g_run_lcase", "outcome_eqb", cases, label, "lcase * outcome",
                               "model/M04_onion_gen.vo", every=3 if ctx.quick else 1)


async def _run(ctx):
    r = ctx.rng("main")
    tn = await make_net()
    run = Run(ctx, tn, "plain")
    try:
        stats = await plain_scenarios(ctx, run, r)
        ctx.extra["scenario_counts"] = stats
        ctx.extra["crypto_calls_logged"] = len(tn.reg.enc_log) + len(tn.reg.dec_log)
        if run.cases:
            ctx.sample({"lockstep_case": run.cases[len(run.cases) // 3][0][:600], "meta": run.cases[len(run.cases) // 3][2]})
    finally:
        await tn.stop()
    evaluate(ctx, run, "plain")
    tn2 = await make_net(hidden=True)
    run2 = Run(ctx, tn2, "e2e")
    try:
        ctx.extra["e2e_transfers_intact"] = await e2e_scenario(ctx, run2, ctx.rng("e2e"))
    finally:
        await tn2.stop()
    evaluate(ctx, run2, "e2e")
    ctx.extra["two_origins_one_exit_rounds"] = await two_origins_one_exit(ctx, ctx.rng("shared-exit"))


def in_loop(coro_fn, *a):
    loop = VLoop()
    asyncio.set_event_loop(loop)
    try:
        with patched_time(loop):
            return loop.run_until_complete(coro_fn(*a))
    finally:
        loop.close()


# ------------------------------------------------------------------------------------------ replay of witnesses
async def replay_case(case, verbose=True):
    """re-run one recorded fault (by its scenario parameters) on a fresh network; returns a list of problems"""
    import random
    r = random.Random(7)
    problems = []

    class Sink:
        quick = True
        extra = {}

        def violation(self, key, what, case):
            problems.append((key, what))

        def broke(self, what, detail=""):
            problems.append(("broke", what))

        def count(self, *a, **k):
            pass
    ctx = Sink()
    if case.get("kind") == "retiring-exit":
        tn = await make_net()
        run = Run(ctx, tn, "replay")
        try:
            c = await tn.build_circuit(int(case.get("hops", 2)))
            await retiring_exit(ctx, run, r, c, path_of(tn, c))
        finally:
            await tn.stop()
        return problems
    if case.get("kind") == "two-origins-one-exit":
        await two_origins_one_exit(ctx, r)
        return problems
    if case.get("e2e") or case.get("kind") == "e2e" or (case.get("kind") == "cell-kinds" and "e2e" in str(case.get("circuit"))):
        tn = await make_net(hidden=True)
        run = Run(ctx, tn, "replay")
        try:
            await e2e_scenario(ctx, run, r)
        finally:
            await tn.stop()
        return problems
    tn = await make_net()
    run = Run(ctx, tn, "replay")
    try:
        h = int(case.get("hops", 1))
        c = await tn.build_circuit(h)
        path = path_of(tn, c)
        direction = case.get("dir", "forward")
        size = int(case.get("size", 40))
        data = shaped(r, size)
        dest, source = ("1.2.3.4", 5), ("5.6.7.8", 9)
        if case.get("kind") == "returned-control":
            await returned_tunnel_shaped(ctx, run, r, c, path, [])
            return problems
        if case.get("kind") == "cell-kinds":
            await cell_kinds(ctx, run, r, tn.origin, c, path[-1][0], "plain %d-hop" % h)
            return problems
        if case.get("kind") in ("forward", "backward", "ping", "test") or "link" not in case:
            await honest_forward(run, c, path, dest, data, case)
            await honest_backward(run, c, path, source, shaped(r, size), case)
            return problems
        if direction == "forward":
            evs, _ = await honest_forward(run, c, path, dest, data, {"kind": "forward"})
        else:
            evs, _ = await honest_backward(run, c, path, source, data, {"kind": "backward"})
        honest_dl = deliveries(evs)
        link = int(case["link"])
        pos, mask = case.get("pos"), case.get("mask", 1)
        if pos is None:
            pos, mask = 40, 1

        def f(src, dst, dg):
            return tn.tamper(dg, pos, mask) if pos < len(dg) else None
        meta = dict(case, what="byte %d of the cell on link %d xor %d (%s, %d hops)" % (pos, link, mask, direction, h))
        meta.setdefault("kind", "tamper")
        await fault_round(run, c, path, direction, link, [(meta, pos != 28, f)], meta, honest_dl, data, dest, source)
    finally:
        await tn.stop()
    return problems


def replay(path):
    repoenv.setup()
    js = json.load(open(path))
    cases = js.get("cases") or [v["case"] for v in js.get("violations", [])]
    rc = 0
    for c in cases:
        probs = in_loop(replay_case, c)
        print("case", json.dumps(c)[:300])
        for k, w in probs:
            print("  STILL FAILS:", k, "::", w[:300])
            rc = 1
        if not probs:
            print("  holds now")
    for b in js.get("no_longer_checks", []):
        print("no longer checks:", b["what"], b["detail"][:300])
        rc = 1
    return rc


def run(ctx):
    # stage 0: corpus
    for f in sorted(glob.glob(os.path.join(repoenv.VERIF, "corpus", "C04", "*.json"))):
        js = json.load(open(f))
        for c in js.get("cases", []):
            for k, w in in_loop(replay_case, c):
                ctx.violation(k, "corpus witness %s fails again: %s" % (os.path.basename(f), w), c)
            ctx.count(("corpus", os.path.basename(f), json.dumps(c, sort_keys=True)), nontrivial=True)
    # stage P
    ctx.proofs()
    # extension: the handlers translated from the AST (gen/G04_onion.v), theorems in props/C04x.v
    if c04_onion_gen.translate(ctx) is not None:
        ctx.proofs(part="C04x")
    ctx.coverage["trusted_base"] = c04_onion_gen.NOT_TRANSLATED + [
        "Coq 8.16.1 kernel; no axioms",
        "AEAD hypotheses on ipv8_rust_tunnels.SessionKeys (ChaCha20-Poly1305): decryption inverts encryption; whatever decrypts under (key, direction) "
        "was produced by encryption under it; a ciphertext under one (key, direction) does not decrypt under another; ciphertexts are longer than plaintexts",
        "distinct session keys per (circuit, hop): the key agreement (C08) is not part of this property",
        "model M04_onion is hand-written: tied to crypto.py / community.py / payload.py / exit_socket.py by this run's lockstep correspondence",
        "payload codec = wire model of C02 (M02_wire, proved round-trip)",
        "the Rust endpoint fast path (RustEndpoint) is not modelled; traffic analysis is out of scope",
        "harness: KeysProxy logging, toy-AEAD rendering of ciphertexts, alpha() abstraction of routing tables, SimNet, virtual time",
    ]
    ctx.assumptions = ["nodes of one overlay share the 22-byte prefix", "circuit ids are 32-bit",
                       "relay_early budget: a relay on the path has forwarded fewer than max_relay_early cells whenever the originator still flags cells relay_early"]
    in_loop(_run, ctx)
    ctx.coverage["rule"] = ("real nodes: 1 originator, 3 relays, 2 exits, circuits of 1..3 hops alive at the same time; per circuit: payload sizes "
                            "{0,1,2,279,1000,1400} (thorough: 0..1400 step 7) forward (v4/v6/domain destinations) and backward, speed-test request/response, "
                            "ping/pong, cell kinds {ping, speed-test} x {plain 1..3 hops, linked e2e both directions} "
                            "with request-cache oracle, returned IPv8-shaped data (own / foreign prefix), returned datagrams shaped like every tunnel message type x 3 outside senders; faults per direction and link: every header byte, 64 sampled "
                            "(thorough: all) body bytes, truncation, extension, cross-circuit and reflected splices, injection under fresh keys / unknown id / "
                            "plaintext flag, the unmodified cell from a wrong sender (first hop's IP on another port, unrelated host) at the originator; "
                            "6 (thorough 40) rounds of 2-3 circuits of different originators at one exit with gated transport opening interleaved with the "
                            "first datagrams + replies on every transport; replies from outside at an exit socket being retired (inside remove_tunnel_delay) per circuit; one end-to-end (rendezvous) circuit pair, both directions: sizes, every size 0..22, "
                            "non-IPv8 and IPv8-shaped payloads (foreign / own prefix), faults on every link; each event is one lockstep case; "
                            "distinct = distinct scenario parameters")

