"""C12 - the peer graph's lookups always agree with its membership.

Stage 0: replay corpus/C12/*.json (witnesses of the defects of the pinned tree) through the oracle.
Stage P: props/C12.v (queries_agree, queries_pure, removed_is_gone, blacklist_respected,
         snapshot_roundtrip, ... over coq/model/M12_network.v).
Stage C: the real ipv8.peerdiscovery.network.Network with real Peer objects, driven by
         (a) a breadth-first exploration of every operation sequence over 3 peers x 3 addresses x
             2 services up to a depth (states identified up to renaming of Peer objects), and
         (b) random operation sequences of length <= 200 (cache caps at default and reduced),
         compared after every operation with the model evaluated inside Coq: a chained hash of the
         return value and of the whole state (authoritative sets, indexes and the three caches).
Oracle : an independent Python statement of the property on what the implementation did: every
         query answer is recomputed from verified_peers / Peer.addresses / services_per_peer /
         _all_addresses read directly; queries must not change those; removed peers are returned
         by nothing and can be added again; blacklisted identities are never verified; a snapshot
         loaded into a fresh Network makes exactly the verified peers' addresses walkable; what the graph
         remembers per address (introducer, service, new-style) is what an independent reference computed
         from the history of operations implies, and so are is_new_style and the walkable sets per service.
"""
from __future__ import annotations

import glob
import hashlib
import json
import multiprocessing
import os
import socket
import time

from tools.tr import tr_network
from tools.tr.tr_expr import Unsupported
from tools.vlib import coqrun, repoenv

IMPORTS = ("From Coq Require Import ZArith List Bool.\n"
           "From IPV8V Require Import lib.PyErr lib.Bytes model.M02_wire model.M12_network.\n"
           "Import ListNotations.\nOpen Scope Z_scope.\n")
IMPORTS_GEN = ("From Coq Require Import ZArith List Bool.\n"
               "From IPV8V Require Import lib.PyErr lib.Bytes model.M02_wire model.M12_network model.M12_network_rt "
               "gen.G12_network model.M12_network_gen.\n"
               "Import ListNotations.\nOpen Scope Z_scope.\n")
PREAMBLE = ("Definition m0 := mkAm None None None.\n"
            "Definition S := @Some addr.\nDefinition N := @None addr.\nDefinition mk := mkAm.\n"
            "Definition AV := AddVerified.\nDefinition DA := DiscoverAddress.\nDefinition DS := DiscoverServices.\n"
            "Definition RP := RemovePeer.\nDefinition RA := RemoveByAddress.\nDefinition GK := GetByKey.\n"
            "Definition GA := GetByAddress.\nDefinition GP := GetPeersForService.\nDefinition GS := GetServicesForPeer.\n"
            "Definition GW := GetWalkable.\nDefinition GI := GetIntroductionsFrom.\nDefinition SN := Snapshot.\n"
            "Definition LS := LoadSnapshot.\n")

HASH_M = 2305843009213693951
CORPUS = os.path.join(repoenv.VERIF, "corpus", "C12")

# ------------------------------------------------------------------------------------ universe
# model values: key = index + 1, service = index + 1, address = (fam, ip_int, port)
_KEYS = []          # real public key objects, generated once per process
_KEYBIN = {}        # key_to_bin() -> model key


def keys(n):
    from ipv8.keyvault.crypto import default_eccrypto
    while len(_KEYS) < n:
        k = default_eccrypto.generate_key("curve25519").pub()
        _KEYS.append(k)
        _KEYBIN[k.key_to_bin()] = len(_KEYS)
    return _KEYS


def svc_bytes(s):
    return bytes([s]) * 20


def svc_of_bytes(b):
    if b is None:
        return None
    if len(b) != 20 or b != bytes([b[0]]) * 20:
        raise RuntimeError("service outside the harness universe: %r" % (b,))
    return b[0]


# model address = (4, ip as int, port) | (6, ip as int, port) | (0, host name as str, port)
def addr_py(a):
    from ipv8.messaging.interfaces.udp.endpoint import DomainAddress, UDPv4Address, UDPv6Address
    fam, ip, port = a
    if fam == 4:
        return UDPv4Address(socket.inet_ntop(socket.AF_INET, ip.to_bytes(4, "big")), port)
    if fam == 6:
        return UDPv6Address(socket.inet_ntop(socket.AF_INET6, ip.to_bytes(16, "big")), port)
    return DomainAddress(ip, port)


def addr_of_py(x):
    """address object seen inside the implementation -> model address"""
    from ipv8.messaging.interfaces.udp.endpoint import DomainAddress, UDPv4Address, UDPv6Address
    if isinstance(x, UDPv4Address):
        return (4, int.from_bytes(socket.inet_pton(socket.AF_INET, x[0]), "big"), x[1])
    if isinstance(x, UDPv6Address):
        return (6, int.from_bytes(socket.inet_pton(socket.AF_INET6, x[0]), "big"), x[1])
    if isinstance(x, DomainAddress):
        return (0, x[0], x[1])
    raise RuntimeError("address class outside the model: %r" % (x,))


def addr_bytes(a):
    """the address bytes / UTF-8 host name the wire model keeps"""
    fam, ip, _ = a
    return ip.to_bytes(4, "big") if fam == 4 else ip.to_bytes(16, "big") if fam == 6 else ip.encode()


def addr_code(a):
    return 4 * (int.from_bytes(b"\x01" + addr_bytes(a), "big") * 65536 + a[2]) + {4: 1, 6: 2, 0: 3}[a[0]]


def pack_addr(a):
    """the documented `address` record (independent of the implementation's packer)"""
    fam, _, port = a
    b = addr_bytes(a)
    if fam == 0:
        return b"\x02" + len(b).to_bytes(2, "big") + b + port.to_bytes(2, "big")
    return (b"\x01" if fam == 4 else b"\x03") + b + port.to_bytes(2, "big")


def parse_records(b):
    """the records at the front of a byte string, up to the first one that is incomplete or malformed:
    -> (list of (address, record bytes), rest).  Independent of the implementation's parser."""
    out, i = [], 0
    while i < len(b):
        t = b[i]
        if t in (1, 3):
            n = 7 if t == 1 else 19
            if i + n > len(b):
                break
            a = (4 if t == 1 else 6, int.from_bytes(b[i + 1:i + n - 2], "big"), int.from_bytes(b[i + n - 2:i + n], "big"))
        elif t == 2:
            if i + 3 > len(b):
                break
            ln = int.from_bytes(b[i + 1:i + 3], "big")
            n = 5 + ln
            if i + n > len(b):
                break
            try:
                host = bytes(b[i + 3:i + 3 + ln]).decode("utf-8")
            except UnicodeDecodeError:
                break
            a = (0, host, int.from_bytes(b[i + n - 2:i + n], "big"))
        else:
            break
        out.append((a, bytes(b[i:i + n])))
        i += n
    return out, bytes(b[i:])


def am_list(am):
    """am = (a4, a6, host) (older witnesses: (a4, a6)), each None or (ip / host, port)"""
    out = []
    for fam, x in zip((4, 6, 0), am):
        if x is not None:
            out.append((fam, x[0], x[1]))
    return out


def am_of(*addrs):
    slot = {4: None, 6: None, 0: None}
    for fam, ip, port in addrs:
        slot[fam] = (ip, port)
    return (slot[4], slot[6], slot[0])


# ------------------------------------------------------------------------------------ implementation
class Impl:
    """One real Network; every Peer object handed to it is created here and numbered."""

    def __init__(self, caps, bl_addr, bl_mid, _empty=False):
        from ipv8.peerdiscovery.network import Network
        self.net = Network()
        self.caps, self.bl_addr, self.bl_mid = tuple(caps), list(bl_addr), list(bl_mid)
        self.objs = {}        # allocation number -> Peer
        self.num = {}         # id(Peer) -> allocation number
        self.count = 0        # next allocation number
        self.book = {}        # reference address book computed from the history alone (see ref_step)
        if not _empty:
            n = self.net
            n.reverse_ip_cache_size, n.reverse_intro_cache_size, n.reverse_service_cache_size = caps
            n.blacklist.extend(addr_py(a) for a in bl_addr)
            ks = keys(max([3] + list(bl_mid)))
            from ipv8.peer import Peer
            n.blacklist_mids.extend(Peer(ks[k - 1]).mid for k in bl_mid)

    def peer(self, k, am, store=True):
        from ipv8.peer import Peer
        p = Peer(keys(k)[k - 1])
        for a in am_list(am):
            p.add_address(addr_py(a))
        if store:
            self.num[id(p)] = self.count
            self.objs[self.count] = p
            self.count += 1
        return p

    def pnum(self, p):
        if p is None:
            return None
        n = self.num.get(id(p))
        if n is None:
            raise RuntimeError("implementation holds a Peer object the harness did not create")
        return n

    def apply(self, op):
        """-> (return value in model terms, op completed with the hint); keeps the reference book in step"""
        if op[0] in ("add", "disc_addr", "rm_peer", "rm_addr", "load"):
            before = {_KEYBIN[p.public_key.key_to_bin()] for p in self.net.verified_peers}
            out = self._apply(op)
            ref_step(self, op, before)
            return out
        return self._apply(op)

    def _apply(self, op):
        n, k = self.net, op[0]
        if k == "add":
            n.add_verified_peer(self.peer(op[1], op[2]))
            return ("unit",), op
        if k == "disc_addr":
            n.discover_address(self.peer(op[1], op[2]), addr_py(op[3]),
                               svc_bytes(op[4]) if op[4] is not None else None, op[5])
            return ("unit",), op
        if k == "disc_svc":
            n.discover_services(self.peer(op[1], op[2]), [svc_bytes(s) for s in op[3]])
            return ("unit",), op
        if k == "rm_peer":
            n.remove_peer(self.peer(op[1], op[2], store=False))
            return ("unit",), op
        if k == "rm_addr":
            n.remove_by_address(addr_py(op[1]))
            return ("unit",), op
        if k == "by_key":
            return ("peer", self.pnum(n.get_verified_by_public_key_bin(keys(op[1])[op[1] - 1].key_to_bin()))), op
        if k == "by_addr":
            r = self.pnum(n.get_verified_by_address(addr_py(op[1])))
            return ("peer", r), ("by_addr", op[1], r)
        if k == "peers_for":
            return ("peers", sorted(self.pnum(p) for p in list(n.get_peers_for_service(svc_bytes(op[1]))))), op
        if k == "svcs_for":
            return ("svcs", sorted(svc_of_bytes(s) for s in n.get_services_for_peer(self.peer(op[1], (None, None), store=False)))), op
        if k == "walkable":
            r = n.get_walkable_addresses(svc_bytes(op[1]) if op[1] is not None else None, op[2])
            return ("addrs", [addr_of_py(a) for a in r]), op
        if k == "intros":
            r = n.get_introductions_from(self.peer(op[1], (None, None), store=False))
            return ("addrs", [addr_of_py(a) for a in list(r)]), op
        if k == "snapshot":
            try:
                return ("records", split_records(n.snapshot())), op
            except RuntimeError:
                raise
            except Exception:   # noqa   (an address the packer refuses: the model raises as well)
                return ("raise",), op
        if k == "load":
            n.load_snapshot(op[1])
            return ("unit",), op
        raise ValueError(op)

    # ---- direct, non-mutating reads
    def obj(self, i):
        p = self.objs[i]
        return (_KEYBIN[p.public_key.key_to_bin()], am_of(*[addr_of_py(a) for a in p.addresses.values()]))

    def referenced(self):
        n = self.net
        ps = list(n.verified_peers) + list(n.verified_by_public_key_bin.values()) + list(n.reverse_ip_lookup.values())
        for l in n.reverse_service_lookup.values():
            ps.extend(l)
        return ps

    def clone(self):
        """an independent copy of the graph (Peer objects included), same allocation numbers"""
        from ipv8.peer import Peer
        c = Impl(self.caps, self.bl_addr, self.bl_mid, _empty=True)
        n, m = self.net, c.net
        c.count = self.count
        c.book = dict(self.book)
        for p in self.referenced():
            i = self.pnum(p)
            if i not in c.objs:
                q = Peer(p.key)
                for a in p.addresses.values():
                    q.add_address(a)
                c.num[id(q)] = i
                c.objs[i] = q
        mp = lambda p: c.objs[self.num[id(p)]]   # noqa: E731
        m._all_addresses = dict(n._all_addresses)
        m.verified_peers = {mp(p) for p in n.verified_peers}
        m.verified_by_public_key_bin = {k: mp(p) for k, p in n.verified_by_public_key_bin.items()}
        m.blacklist = list(n.blacklist)
        m.blacklist_mids = list(n.blacklist_mids)
        m.services_per_peer = {k: set(v) for k, v in n.services_per_peer.items()}
        m.reverse_ip_cache_size = n.reverse_ip_cache_size
        m.reverse_intro_cache_size = n.reverse_intro_cache_size
        m.reverse_service_cache_size = n.reverse_service_cache_size
        for a, p in n.reverse_ip_lookup.items():
            m.reverse_ip_lookup[a] = mp(p)
        for p, l in n.reverse_intro_lookup.items():
            m.reverse_intro_lookup[Peer(p.key)] = list(l)
        for s, l in n.reverse_service_lookup.items():
            m.reverse_service_lookup[s] = [mp(p) for p in l]
        return c


def ref_step(im, op, verified_before):
    """The address book as the docstrings of Network describe it, from the history of operations alone:
    address -> (introducer, service it was discovered through, new-style).  An introduction is recorded
    for a new address, or when the previous introducer is not verified WHEN THE CALL IS MADE; peers
    that get verified contribute their own, so far unknown, addresses without introducer; removals and
    snapshots drop / reset entries.  Only the verified keys before the call, the blacklists and the
    operation are used - never _all_addresses."""
    book, k = im.book, op[0]

    def verify(key, am):
        ads = am_list(am)
        if key in im.bl_mid or any(a in im.bl_addr for a in ads) or key in verified_before:
            return
        if not any(a in book for a in ads):
            for a in ads:
                book[a] = (None, None, False)
    if k == "add":
        verify(op[1], op[2])
    elif k == "disc_addr":
        a = op[3]
        if a not in im.bl_addr and (a not in book or book[a][0] not in verified_before):
            book.pop(a, None)
            book[a] = (op[1], op[4], bool(op[5]))
        verify(op[1], op[2])
    elif k == "rm_peer":
        for a in am_list(op[2]):
            book.pop(a, None)
    elif k == "rm_addr":
        book.pop(op[1], None)
    elif k == "load":
        for a, _ in parse_records(op[1])[0]:
            book[a] = (None, None, False)


def split_records(b):
    """snapshot bytes -> list of address records (independent of the implementation's parser)"""
    recs, rest = parse_records(b)
    if rest:
        raise RuntimeError("snapshot() produced bytes that are not a sequence of address records: %s" % bytes(b).hex())
    return [r for _, r in recs]


# ------------------------------------------------------------------------------------ alpha + hash
def obj_code(im, i):
    k, am = im.obj(i)
    return [i, k] + [addr_code((fam,) + x) if x else -1 for fam, x in zip((4, 6, 0), am)]


def flat_ret(im, r):
    t = r[0]
    if t == "unit":
        return [0]
    if t == "peer":
        return [1, -1] if r[1] is None else [1] + obj_code(im, r[1])
    if t == "peers":
        return [2, len(r[1])] + [x for i in sorted(r[1]) for x in obj_code(im, i)]
    if t == "addrs":
        return [3, len(r[1])] + sorted(addr_code(a) for a in r[1])
    if t == "svcs":
        return [4, len(r[1])] + sorted(r[1])
    if t == "raise":
        return [6]
    return [5, len(r[1])] + sorted(int.from_bytes(b"\x01" + x, "big") for x in r[1])


def flat_net(im):
    n = im.net
    out = []
    ver = sorted(im.pnum(p) for p in n.verified_peers)
    out += [100, len(ver)] + [x for i in ver for x in obj_code(im, i)]
    out += [101, len(n.verified_by_public_key_bin)]
    for kb, p in n.verified_by_public_key_bin.items():
        out += [_KEYBIN[kb]] + obj_code(im, im.pnum(p))
    out += [102]
    for kb, ss in n.services_per_peer.items():
        if ss:
            out += [_KEYBIN[kb], len(ss)] + sorted(svc_of_bytes(s) for s in ss)
    out += [103, len(n._all_addresses)]
    for a, w in n._all_addresses.items():
        out += [addr_code(addr_of_py(a)), _KEYBIN[w.introduced_by] if w.introduced_by else -1,
                svc_of_bytes(w.services) if w.services is not None else -1, 1 if w.new_style else 0]
    out += [104, len(n.reverse_ip_lookup)]
    for a, p in n.reverse_ip_lookup.items():
        out += [addr_code(addr_of_py(a))] + obj_code(im, im.pnum(p))
    out += [105, len(n.reverse_intro_lookup)]
    for p, l in n.reverse_intro_lookup.items():
        out += [_KEYBIN[p.public_key.key_to_bin()], len(l)] + [addr_code(addr_of_py(a)) for a in l]
    out += [106, len(n.reverse_service_lookup)]
    for s, l in n.reverse_service_lookup.items():
        out += [svc_of_bytes(s), len(l)] + [x for i in sorted(im.pnum(p) for p in l) for x in obj_code(im, i)]
    return out


def mix_list(h, l):
    for x in l:
        h = ((h << 20) + (h << 7) + h + x + 7) & HASH_M
    return h


def canon_state(im):
    """state up to renaming of Peer objects (allocation numbers -> first occurrence), for deduplication"""
    n = im.net
    ren = {}

    def oc(i):
        j = ren.setdefault(i, len(ren))
        return (j,) + im.obj(i)

    def order(ps):
        return sorted((im.pnum(p) for p in ps), key=lambda i: (im.obj(i)[0], i))
    return (tuple(oc(i) for i in order(n.verified_peers)),
            tuple((_KEYBIN[kb],) + oc(im.pnum(p)) for kb, p in n.verified_by_public_key_bin.items()),
            tuple((_KEYBIN[kb], tuple(sorted(ss))) for kb, ss in n.services_per_peer.items() if ss),
            tuple((tuple(a), _KEYBIN.get(w.introduced_by, 0), w.services, w.new_style) for a, w in n._all_addresses.items()),
            tuple((tuple(a),) + oc(im.pnum(p)) for a, p in n.reverse_ip_lookup.items()),
            tuple((_KEYBIN[p.public_key.key_to_bin()], tuple(tuple(a) for a in l)) for p, l in n.reverse_intro_lookup.items()),
            tuple((s, tuple(oc(i) for i in order(l))) for s, l in n.reverse_service_lookup.items()))


def digest(im):
    return hashlib.blake2b(repr(canon_state(im)).encode(), digest_size=12).digest()


# ------------------------------------------------------------------------------------ Coq terms
def cz(n):
    return str(n) if n >= 0 else "(%d)" % n


def am_coq(am):
    ads = {a[0]: a for a in am_list(am)}
    if not ads:
        return "m0"
    return "(mk %s %s %s)" % tuple("(S %s)" % addr_coq(ads[f]) if f in ads else "N" for f in (4, 6, 0))


def addr_lit(a):
    return "%s %s %d" % ({4: "A4", 6: "A6", 0: "ADom"}[a[0]], coqrun.zl(addr_bytes(a)), a[2])


_NAMES = None     # while a case is rendered: address -> let-bound name


def addr_coq(a):
    if _NAMES is not None:
        if a not in _NAMES:
            _NAMES[a] = "a%d" % len(_NAMES)
        return _NAMES[a]
    return "(%s)" % addr_lit(a)


def opt_coq(x):
    return "None" if x is None else "(Some %s)" % x


def op_coq(op):
    k = op[0]
    if k == "add":
        return "AV %d %s" % (op[1], am_coq(op[2]))
    if k == "disc_addr":
        return "DA %d %s %s %s %s" % (op[1], am_coq(op[2]), addr_coq(op[3]), opt_coq(op[4]), "true" if op[5] else "false")
    if k == "disc_svc":
        return "DS %d %s [%s]" % (op[1], am_coq(op[2]), ";".join(str(s) for s in op[3]))
    if k == "rm_peer":
        return "RP %d %s" % (op[1], am_coq(op[2]))
    if k == "rm_addr":
        return "RA %s" % addr_coq(op[1])
    if k == "by_key":
        return "GK %d" % op[1]
    if k == "by_addr":
        return "GA %s %s" % (addr_coq(op[1]), opt_coq(None if op[2] is None else "%d%%nat" % op[2]))
    if k == "peers_for":
        return "GP %d" % op[1]
    if k == "svcs_for":
        return "GS %d" % op[1]
    if k == "walkable":
        return "GW %s %s" % (opt_coq(op[1]), "true" if op[2] else "false")
    if k == "intros":
        return "GI %d" % op[1]
    if k == "snapshot":
        return "SN"
    if k == "load":
        return "LS %s" % coqrun.zl(op[1])
    raise ValueError(op)


def case_coq(cfg, path, fan):
    """the case as a Coq term; every address literal is bound once (numerals are slow to parse)"""
    global _NAMES
    caps, bla, blm = cfg
    _NAMES = {}
    try:
        body = "(%s, %s, %s, [%s], [%s], [%s], [%s])" % (
            cz(caps[0]), cz(caps[1]), cz(caps[2]), ";".join(addr_coq(a) for a in bla), ";".join(str(k) for k in blm),
            "; ".join(op_coq(o) for o in path), "; ".join(op_coq(o) for o in fan))
        lets = "".join("let %s := %s in " % (n, addr_lit(a)) for a, n in _NAMES.items())
    finally:
        _NAMES = None
    return "(%s%s)" % (lets, body)


# ------------------------------------------------------------------------------------ oracle
# Independent reading of the property.  Everything below looks only at verified_peers (a set of Peer
# objects), Peer.addresses, services_per_peer and _all_addresses of the real Network.
class Auth:
    """the authoritative membership of a Network, read directly"""

    def __init__(self, im):
        n = im.net
        self.verified = {im.pnum(p): (p.public_key.key_to_bin(), tuple(p.addresses.values())) for p in n.verified_peers}
        self.services = {k: frozenset(v) for k, v in n.services_per_peer.items() if v}
        self.addresses = dict(n._all_addresses)

    def same(self, other):
        return self.verified == other.verified and self.services == other.services and self.addresses == other.addresses

    def by_key(self, kb):
        l = [i for i, (k, _) in self.verified.items() if k == kb]
        return l

    def owners(self, a):
        return {i for i, (_, ads) in self.verified.items() if a in ads}

    def peers_for(self, s):
        return {i for i, (k, _) in self.verified.items() if s in self.services.get(k, ())}

    def walkable(self, s, old):
        if s is None:
            taken = {a for (_, ads) in self.verified.values() for a in ads}
            return {a for a in self.addresses if a not in taken}
        taken = {a for i in self.peers_for(s) for a in self.verified[i][1]}
        out = set()
        for a, w in self.addresses.items():
            if a in taken or (old and w.new_style):
                continue
            if w.services == s or s in self.services.get(w.introduced_by, ()):
                out.add(a)
        return out

    def intros(self, kb):
        return {a for a, w in self.addresses.items() if w.introduced_by == kb}

    def preferred(self):
        """verified peers' preferred (IPv6 before IPv4 before host name) addresses, without the null address"""
        from ipv8.messaging.interfaces.udp.endpoint import DomainAddress, UDPv4Address, UDPv6Address
        out = set()
        for _, ads in self.verified.values():
            v6 = [a for a in ads if isinstance(a, UDPv6Address)]
            v4 = [a for a in ads if isinstance(a, UDPv4Address)]
            dom = [a for a in ads if isinstance(a, DomainAddress)]
            pick = v6[0] if v6 else v4[0] if v4 else dom[0] if dom else None
            if pick is not None and tuple(pick) != ("0.0.0.0", 0):
                out.add(pick)
        return out


QNAME = {"by_key": "get_verified_by_public_key_bin", "by_addr": "get_verified_by_address",
         "peers_for": "get_peers_for_service", "svcs_for": "get_services_for_peer",
         "walkable": "get_walkable_addresses", "intros": "get_introductions_from", "snapshot": "snapshot"}
QUERIES = tuple(QNAME)
PURE = ("by_key", "svcs_for", "snapshot")       # queries that do not even touch a cache


def judge(before, op, r, found):
    """compare the answer r of query op with the membership `before` read directly before asking"""
    k = op[0]
    name = QNAME[k]
    if k == "by_key":
        exp = before.by_key(keys(op[1])[op[1] - 1].key_to_bin())
        if (r[1] is None and exp) or (r[1] is not None and r[1] not in exp):
            found("%s/%s" % (name, "misses-verified" if r[1] is None else "returns-unverified"),
                  "key %d: returned object %s, verified objects with that key %s" % (op[1], r[1], exp))
    elif k == "by_addr":
        own = before.owners(addr_py(op[1]))
        if r[1] is None and own:
            found(name + "/misses-owner", "address %s: None although verified peers %s own it" % (op[1], sorted(own)))
        if r[1] is not None and r[1] not in own:
            found(name + "/returns-non-owner", "address %s: returned object %d which is not a verified owner (owners %s)"
                  % (op[1], r[1], sorted(own)))
    elif k == "peers_for":
        exp = before.peers_for(svc_bytes(op[1]))
        got = set(r[1])
        if got - exp:
            found(name + "/extra", "service %d: returned %s, verified peers with the service %s" % (op[1], sorted(got), sorted(exp)))
        if exp - got or len(r[1]) != len(got):
            found(name + "/missing", "service %d: returned %s, verified peers with the service %s" % (op[1], r[1], sorted(exp)))
    elif k == "svcs_for":
        exp = sorted(svc_of_bytes(s) for s in before.services.get(keys(op[1])[op[1] - 1].key_to_bin(), ()))
        if r[1] != exp:
            found(name + "/wrong", "peer %d: %s, advertised %s" % (op[1], r[1], exp))
    elif k == "walkable":
        exp = {addr_of_py(a) for a in before.walkable(svc_bytes(op[1]) if op[1] is not None else None, op[2])}
        got = set(r[1])
        if got - exp:
            found(name + "/extra", "walkable(%s,%s) returned %s, implied %s" % (op[1], op[2], sorted(got), sorted(exp)))
        if exp - got or len(got) != len(r[1]):
            found(name + "/missing", "walkable(%s,%s) returned %s, implied %s" % (op[1], op[2], r[1], sorted(exp)))
    elif k == "intros":
        exp = {addr_of_py(a) for a in before.intros(keys(op[1])[op[1] - 1].key_to_bin())}
        got = set(r[1])
        if got - exp:
            found(name + "/extra", "introductions of %d: returned %s, known %s" % (op[1], sorted(got), sorted(exp)))
        if exp - got:
            found(name + "/missing", "introductions of %d: returned %s, known %s" % (op[1], sorted(got), sorted(exp)))
    elif k == "snapshot":
        from ipv8.peerdiscovery.network import Network
        fresh = Network()
        fresh.load_snapshot(b"".join(r[1]))
        got = set(fresh.get_walkable_addresses())
        exp = before.preferred()
        if got != exp:
            found("snapshot/roundtrip", "snapshot reloaded into a fresh Network: walkable %s, verified peers' addresses %s"
                  % (sorted(got), sorted(exp)))


def check_query(im, op, found, before=None):
    """Run one query on the live implementation, compare its answer with the membership read before
    it, and the membership before/after.  found(key, what) collects violations.  Returns (ret, op')."""
    before = before or Auth(im)
    r, op2 = im.apply(op)
    if not before.same(Auth(im)):
        found("purity/%s" % QNAME[op[0]], "%s changed the membership / services / addresses of the graph" % QNAME[op[0]])
    judge(before, op, r, found)
    return r, op2


def check_state(im, found):
    """membership-level clauses that need no query"""
    n = im.net
    for p in n.verified_peers:
        if p.mid in n.blacklist_mids:
            found("blacklist/mid-verified", "a peer with a blacklisted mid is verified")
        if n.blacklist and any(a in n.blacklist for a in p.addresses.values()):
            found("blacklist/address-verified", "verified peer %d uses a blacklisted address %s"
                  % (im.pnum(p), list(p.addresses.values())))
    kbs = [p.public_key.key_to_bin() for p in n.verified_peers]
    if len(set(kbs)) != len(kbs):
        found("membership/duplicate-key", "two verified Peer objects share a public key")


def ref_walkable(im, s, old):
    """walkable addresses implied by the reference book and the verified peers / services read directly"""
    auth = Auth(im)
    if s is None:
        taken = {a for (_, ads) in auth.verified.values() for a in ads}
    else:
        taken = {a for i in auth.peers_for(svc_bytes(s)) for a in auth.verified[i][1]}
    out = set()
    for a, (ik, sv, ns) in im.book.items():
        if addr_py(a) in taken or (s is not None and old and ns):
            continue
        if s is None or sv == s or svc_bytes(s) in auth.services.get(keys(ik)[ik - 1].key_to_bin() if ik else b"", ()):
            out.add(a)
    return out


def check_book(im, found):
    """what the graph remembers about every address (introducer, service, new-style) must be what the
    history of operations implies; a difference is turned into the answers that are wrong because of it"""
    n = im.net
    actual = {addr_of_py(a): (_KEYBIN[w.introduced_by] if w.introduced_by else None,
                              svc_of_bytes(w.services) if w.services is not None else None, bool(w.new_style))
              for a, w in n._all_addresses.items()}
    if actual == im.book:
        return
    for a in sorted(set(actual) | set(im.book)):
        exp = im.book.get(a, (None, None, False))[2]
        if bool(n.is_new_style(addr_py(a))) != exp:
            found("is_new_style/not-what-history-implies", "is_new_style(%s) = %s, the last recorded introduction says %s"
                  % (a, not exp, exp))
    svs = {x[1] for x in list(actual.values()) + list(im.book.values()) if x[1] is not None}
    svs |= {svc_of_bytes(x) for v in n.services_per_peer.values() for x in v}
    for s in [None] + sorted(svs):
        for old in ((False,) if s is None else (False, True)):
            c = im.clone()
            got = {addr_of_py(x) for x in c.net.get_walkable_addresses(svc_bytes(s) if s is not None else None, old)}
            exp = ref_walkable(im, s, old)
            if exp - got:
                found("get_walkable_addresses/omits-address-implied-by-history",
                      "walkable(%s,%s) returned %s, the history of introductions implies %s" % (s, old, sorted(got), sorted(exp)))
            if got - exp:
                found("get_walkable_addresses/returns-address-not-implied-by-history",
                      "walkable(%s,%s) returned %s, the history of introductions implies %s" % (s, old, sorted(got), sorted(exp)))
    diff = sorted(a for a in set(actual) | set(im.book) if actual.get(a) != im.book.get(a))
    found("address-book/not-what-history-implies", "addresses %s: graph has %s, history implies %s"
          % (diff, [actual.get(a) for a in diff], [im.book.get(a) for a in diff]))


def all_queries(U):
    ks, ads, svs = U
    qs = [("by_key", k) for k in ks] + [("by_addr", a, None) for a in ads] + [("peers_for", s) for s in svs]
    qs += [("svcs_for", k) for k in ks] + [("walkable", None, False)]
    qs += [("walkable", s, o) for s in svs for o in (False, True)] + [("intros", k) for k in ks] + [("snapshot",)]
    return qs


def light_sweep(im, U, found):
    """the queries that touch no cache, asked on the live object, plus the membership clauses"""
    before = Auth(im)
    for q in all_queries(U):
        if q[0] in PURE or (q[0] == "walkable" and q[1] is None):
            r, _ = im.apply(q)
            judge(before, q, r, found)
    if not before.same(Auth(im)):
        found("purity/cache-free-query", "a cache-free query changed the membership / services / addresses of the graph")
    check_state(im, found)


def sweep(im, U, found, gone=()):
    """every query of the universe: those that touch a cache each on a private copy of the graph (no
    answer depends on an earlier question), the others on the live object; `gone` = model keys removed
    by the operation that led here: nothing may return them, and they can be verified again."""
    light_sweep(im, U, found)
    for q in all_queries(U):
        if q[0] in PURE or (q[0] == "walkable" and q[1] is None):
            if not (gone and q[0] == "by_key"):
                continue
        c = im.clone()
        r, _ = check_query(c, q, found)
        if gone:
            ids = [r[1]] if r[0] == "peer" and r[1] is not None else r[1] if r[0] == "peers" else []
            for i in ids:
                if c.obj(i)[0] in gone:
                    found("removed-peer-returned/%s" % QNAME[q[0]], "%s returned removed peer %d" % (QNAME[q[0]], c.obj(i)[0]))
    for k in gone:
        c = im.clone()
        # removal forgets the peer altogether - its advertisements too, whether or not it was verified at
        # that moment (seed C12h: the clean-up of services_per_peer moved under `if peer in verified_peers`)
        r, _ = c.apply(("svcs_for", k))
        if r[1]:
            found("removed/services-remembered", "peer %d was removed and get_services_for_peer still lists %s" % (k, r[1]))
        free = [a for a in U[1] if a not in c.bl_addr]
        if k in c.bl_mid or not free:
            continue
        c.apply(("add", k, am_of(free[0])))
        for s in U[2]:
            r, _ = c.apply(("peers_for", s))
            if any(c.obj(i)[0] == k for i in r[1]):
                found("readd/stale-service", "peer %d was removed and added again without advertising anything: "
                      "get_peers_for_service(%d) returns it" % (k, s))
        if not Auth(c).by_key(keys(k)[k - 1].key_to_bin()):
            found("readd/refused", "peer %d was removed and add_verified_peer does not verify it again" % k)
        r, _ = c.apply(("by_key", k))
        if r[1] is None:
            found("readd/not-returned", "peer %d was added again but get_verified_by_public_key_bin returns None" % k)


def removed_by(im, op):
    """model keys of the peers a removal operation is about to remove (read before applying it)"""
    if op[0] == "rm_peer":
        return {op[1]}
    if op[0] == "rm_addr":
        a = addr_py(op[1])
        return {_KEYBIN[p.public_key.key_to_bin()] for p in im.net.verified_peers if a in p.addresses.values()}
    return set()


def do_op(im, op, found):
    """one operation of a sequence with the per-operation oracle; -> (ret, op with hint, removed keys)"""
    gone = removed_by(im, op)
    if op[0] in QUERIES:
        r, op2 = check_query(im, op, found)
    else:
        r, op2 = im.apply(op)
        check_state(im, found)
        check_book(im, found)
        for k in gone:
            if any(_KEYBIN[p.public_key.key_to_bin()] == k for p in im.net.verified_peers):
                found("removed/still-verified", "peer %d is still verified after %s" % (k, op[0]))
    return r, op2, gone


def step_hash(im, h, r):
    return mix_list(mix_list(h, flat_ret(im, r)), flat_net(im))


# ------------------------------------------------------------------------------------ generators
def host_addr(r):
    """a host-name address (never an IP literal: Python compares address tuples by value)"""
    name = r.choice(["h%d.example" % r.randrange(100), "node-%d" % r.randrange(10), "b\u00fccher.example", "x", "\u6f22.test"])
    return (0, name, r.randrange(1, 65536))


def universe(r, null=False, host=False):
    """3 keys, 3 addresses (two IPv4 - or the null address / a host name instead -, one IPv6), 2 services"""
    a0 = (4, 0, 0) if null else (4, r.getrandbits(32) | 1, r.randrange(1, 65536))
    a1 = host_addr(r) if host else (4, r.getrandbits(32) | 2, r.randrange(1, 65536))
    a2 = (6, r.getrandbits(128) | (1 << 120), r.randrange(1, 65536))
    return ([1, 2, 3], [a0, a1, a2], [1, 2])


def small(U):
    """2 keys, 2 IPv4 addresses, 1 service: the alphabet of the deeper exploration"""
    return (U[0][:2], U[1][:2], U[2][:1])


def alphabet(U):
    """the operations of the exhaustive exploration"""
    ks, ads, svs = U
    ops = [("add", k, am_of(a)) for k in ks for a in ads]
    ops += [("disc_addr", k, (None, None), a, s, False) for k in ks for a in ads for s in (None, svs[0])]
    ops += [("disc_svc", k, (None, None), [s]) for k in ks for s in svs]
    ops += [("rm_peer", k, None) for k in ks]          # None: with the addresses of the verified object
    ops += [("rm_addr", a) for a in ads]
    ops += [("by_addr", a, None) for a in ads] + [("peers_for", s) for s in svs]
    ops += [("walkable", s, False) for s in svs] + [("intros", k) for k in ks]
    ops += [("load", pack_addr(a)) for a in ads]
    return ops


def concretise(im, op):
    """rm_peer k None -> remove the peer with the addresses its verified object has now"""
    if op[0] == "rm_peer" and op[2] is None:
        for p in im.net.verified_peers:
            if _KEYBIN[p.public_key.key_to_bin()] == op[1]:
                return ("rm_peer", op[1], am_of(*[addr_of_py(a) for a in p.addresses.values()]))
        return ("rm_peer", op[1], (None, None))
    return op


def expand_chunk(args):
    """worker: expand some frontier states by every operation of the alphabet.
    -> [(index, path with hints, h, [(op with hint, hash, state digest)], [(key, what, ops)])]"""
    cfg, U, entries, last = args
    alpha = alphabet(U)
    out = []
    swept = set()
    for idx, path0 in entries:
        # replay from scratch and re-derive hints and the chained hash: the state at discovery was a clone,
        # and a cloned set of peers may iterate (hence pick an owner) in another order than the original
        im, h, path = Impl(*cfg), 0, []
        for op in path0:
            r, op2 = im.apply(op)
            h = step_hash(im, h, r)
            path.append(op2)
        fan, viols = [], []
        for op0 in alpha:
            op = concretise(im, op0)
            c = im.clone()
            here = []
            fnd = lambda key, what: here.append((key, what))   # noqa: E731,B023
            r, op2, gone = do_op(c, op, fnd)
            h2 = step_hash(c, h, r)
            dg = digest(c)
            if dg not in swept:
                swept.add(dg)
                # queries that change a cache are operations of the alphabet: below the last level they are
                # asked (alone) when this state is expanded; at the last level and after a removal ask them here
                if gone or last:
                    sweep(c, U, fnd, gone)
                else:
                    light_sweep(c, U, fnd)
            fan.append((op2, h2, dg))
            for key, what in here:
                viols.append((key, what, path + [op2]))
        out.append((idx, path, h, fan, viols))
    return out


def explore(pool, cfg, U, depth, nworkers=14, model_every=1):
    """Breadth-first over all operation sequences of alphabet(U) up to `depth` on the implementation; a
    state already seen (up to renaming of Peer objects) is not expanded again.  The oracle runs on every
    edge; of the last level only every `model_every`-th expanded state is also handed to the Coq model.
    -> cases [(path, [op], [hash])], violations [(key, what, ops)], stats"""
    seen = {digest(Impl(*cfg))}
    frontier = [([], 0)]
    cases, viols = [], {}
    stats = {"alphabet": len(alphabet(U)), "depth": depth, "expanded": [], "edges": 0}
    for d in range(depth):
        last = d == depth - 1
        nchunks = max(1, min(len(frontier), nworkers * 8))
        indexed = [(i, p) for i, (p, _) in enumerate(frontier)]
        chunks = [indexed[i::nchunks] for i in range(nchunks)]
        nxt = []
        stats["expanded"].append(len(frontier))
        for res in pool.imap_unordered(expand_chunk, [(cfg, U, ch, last) for ch in chunks]):
            for idx, path, h, fan, vs in res:
                if not last or idx % model_every == 0:
                    cases.append((path, [f[0] for f in fan], [f[1] for f in fan]))
                    stats["model_edges"] = stats.get("model_edges", 0) + len(fan)
                stats["edges"] += len(fan)
                for key, what, ops in vs:
                    if key not in viols or len(ops) < len(viols[key][2]):
                        viols[key] = (key, what, ops)
                for op2, h2, dg in fan:
                    if dg not in seen:
                        seen.add(dg)
                        nxt.append((path + [op2], h2))
        nxt.sort(key=repr)
        frontier = nxt
    stats["states"] = len(seen)
    return cases, list(viols.values()), stats


def gen_random_ops(r, U, n, extra_addrs):
    ks, ads, svs = U
    pool = ads + extra_addrs

    def am():
        x = r.random()
        if x < 0.12:
            return (None, None)
        if x < 0.75:
            return am_of(r.choice(pool))
        if x < 0.93:
            return am_of(r.choice(pool), r.choice(pool))
        return am_of(r.choice(pool), r.choice(pool), r.choice(pool))
    ops = []
    kinds = ["add", "disc_addr", "disc_svc", "rm_peer", "rm_addr", "by_key", "by_addr", "peers_for", "svcs_for",
             "walkable", "intros", "snapshot", "load"]
    weights = [14, 12, 9, 5, 6, 6, 12, 9, 3, 9, 9, 2, 3]
    while len(ops) < n:
        k = r.choices(kinds, weights)[0]
        if r.random() < 0.03:
            # an introducer is removed and comes back only through its next introduction of the same address
            p, x, m = r.choice(ks), r.choice(pool), am()
            ops.append(("disc_addr", p, m, x, r.choice([None] + svs), r.random() < 0.3))
            ops.append(("rm_peer", p, None) if r.random() < 0.6 or not am_list(m) else ("rm_addr", am_list(m)[0]))
            ops.append(("disc_addr", p, r.choice([m, am()]), x, r.choice(svs), r.random() < 0.7))
            continue
        if k == "add":
            ops.append(("add", r.choice(ks), am()))
        elif k == "disc_addr":
            ops.append(("disc_addr", r.choice(ks), am(), r.choice(pool), r.choice([None] + svs), r.random() < 0.3))
        elif k == "disc_svc":
            ops.append(("disc_svc", r.choice(ks), am(), [r.choice(svs) for _ in range(r.choice([0, 1, 1, 2, 3]))]))
        elif k == "rm_peer":
            ops.append(("rm_peer", r.choice(ks), None if r.random() < 0.5 else am()))
        elif k == "rm_addr":
            ops.append(("rm_addr", r.choice(pool)))
        elif k == "by_key":
            ops.append(("by_key", r.choice(ks)))
        elif k == "by_addr":
            ops.append(("by_addr", r.choice(pool), None))
        elif k == "peers_for":
            ops.append(("peers_for", r.choice(svs)))
        elif k == "svcs_for":
            ops.append(("svcs_for", r.choice(ks)))
        elif k == "walkable":
            ops.append(("walkable", r.choice([None] + svs), r.random() < 0.4))
        elif k == "intros":
            ops.append(("intros", r.choice(ks)))
        elif k == "snapshot":
            ops.append(("snapshot",))
        else:
            recs = [pack_addr(r.choice(pool)) for _ in range(r.choice([0, 1, 2, 3]))]
            tail = r.choice([b"", b"", b"\x01\x02\x03", b"\x03" + bytes(9), b"\x07", b"\x00abc", b"\x01" + bytes(5),
                             b"\x02", b"\x02\x00", b"\x02\x00\x05ab", b"\x02\x00\x02hi\x00", b"\x02\x00\x02\xc3\x28\x00\x01",
                             b"\x02\xff\xffhost\x00\x01", b"\x02\x00\x00\x00"])
            if recs and r.random() < 0.3:      # cut inside the last record
                cut = r.randrange(1, len(recs[-1]))
                recs, tail = recs[:-1], recs[-1][:cut]
            ops.append(("load", b"".join(recs) + tail))
    return ops[:n]


def run_random_case(args):
    """worker: one random sequence on the implementation; -> (cfg, ops with hints, hash, violations, ...)"""
    seed, idx, n_ops = args
    from tools.vlib import prng
    r = prng.stream(seed, "C12/random/%d" % idx)
    nk = r.choice([3, 3, 4, 6])
    U = universe(r, null=r.random() < 0.2, host=r.random() < 0.3)
    U = (list(range(1, nk + 1)), U[1], U[2] + ([3] if r.random() < 0.3 else []))
    extra = [(4, r.getrandbits(32) | 4, r.randrange(1, 65536)) for _ in range(r.choice([0, 0, 1, 3]))]
    extra += [host_addr(r) for _ in range(r.choice([0, 0, 1, 2]))]
    extra = [a for i, a in enumerate(extra) if a not in U[1] and a not in extra[:i]]
    caps = r.choice([(500, 500, 500), (2, 2, 2), (1, 1, 1), (2, 1, 1), (3, 2, 1), (0, 0, 0)])
    bla = [r.choice(U[1] + extra)] if r.random() < 0.35 else []
    blm = [r.choice(U[0])] if r.random() < 0.25 else []
    cfg = (caps, bla, blm)
    ops = gen_random_ops(r, U, n_ops, extra)
    viol, done, h, im = [], [], 0, Impl(*cfg)
    sweep_at = {r.randrange(n_ops) for _ in range(2)} | {n_ops - 1}
    kinds = {}
    Uall = (U[0], U[1] + extra, U[2])
    for i, op0 in enumerate(ops):
        op = concretise(im, op0)     # rm_peer with None needs the live state
        fnd = lambda key, what: viol.append((key, what, i))   # noqa: E731,B023
        rr, op2, gone = do_op(im, op, fnd)
        if i in sweep_at or (gone and r.random() < 0.25):
            sweep(im, Uall, fnd, gone)
        done.append(op2)
        kinds[op[0]] = kinds.get(op[0], 0) + 1
        h = step_hash(im, h, rr)
    nontrivial = len(im.net.verified_peers) > 0 or len(im.net._all_addresses) > 0
    return cfg, done, h, [(k, w, done[:i + 1]) for (k, w, i) in viol[:5]], kinds, nontrivial


# ------------------------------------------------------------------------------------ witnesses
def ops_json(ops):
    return [[x.hex() if isinstance(x, bytes) else x for x in op] for op in ops]


def _t(x):
    return tuple(_t(y) for y in x) if isinstance(x, list) else x


def ops_from_json(js):
    ops = []
    for op in js:
        op = list(op)
        k = op[0]
        if k == "load":
            ops.append(("load", bytes.fromhex(op[1])))
        elif k == "disc_svc":
            ops.append(("disc_svc", op[1], _t(op[2]), list(op[3])))
        else:
            ops.append(tuple(_t(x) for x in op))
    return ops


def cfg_json(cfg):
    return {"caps": list(cfg[0]), "blacklist": [list(a) for a in cfg[1]], "blacklist_mids": list(cfg[2])}


def cfg_from_json(j):
    return (tuple(j["caps"]), [tuple(a) for a in j["blacklist"]], list(j["blacklist_mids"]))


def universe_of(cfg, ops):
    ks, ads, svs = {1, 2, 3}, [], {1, 2}

    def add_a(a):
        if a is not None and tuple(a) not in ads:
            ads.append(tuple(a))
    for a in cfg[1]:
        add_a(a)
    for op in ops:
        k = op[0]
        if k in ("add", "disc_addr", "disc_svc", "rm_peer"):
            ks.add(op[1])
            if op[2]:
                for a in am_list(op[2]):
                    add_a(a)
        if k == "disc_addr":
            add_a(op[3])
            if op[4] is not None:
                svs.add(op[4])
        if k in ("rm_addr", "by_addr"):
            add_a(op[1])
        if k == "disc_svc":
            svs.update(op[3])
        if k == "load":
            for a, _ in parse_records(op[1])[0]:
                add_a(a)
    return (sorted(ks), ads, sorted(svs))


def replay_case(case, out=None, light=False):
    """-> list of (key, what) the oracle reports for a recorded case (full sweep after every operation;
    light: per-operation clauses only, one sweep at the end)"""
    cfg = cfg_from_json(case["cfg"])
    ops = ops_from_json(case["ops"])
    U = universe_of(cfg, ops)
    viol = []
    im = Impl(*cfg)
    fnd = lambda key, what: viol.append((key, what))   # noqa: E731
    for j, op0 in enumerate(ops):
        op = concretise(im, op0)
        r, _, gone = do_op(im, op, fnd)
        if out is not None:
            out.append("%-70s -> %s" % (op, r[1] if len(r) > 1 else ""))
        if not light or j == len(ops) - 1:
            sweep(im, U, fnd, gone)
    return viol


def shrink(cfg, ops, key, budget_s=25.0):
    """remove chunks of operations (halving the chunk size down to single operations) while the oracle
    still reports `key`; long histories are replayed with the per-operation clauses only"""
    light = len(ops) > 80
    t_end = time.time() + budget_s

    def bad(o):
        try:
            return any(k == key for k, _ in replay_case({"cfg": cfg_json(cfg), "ops": ops_json(o)}, light=light))
        except Exception:   # noqa
            return False
    ops = list(ops)
    if not bad(ops):
        return ops
    chunk = max(1, len(ops) // 2)
    while chunk >= 1:
        i = len(ops) - chunk
        while i >= 0 and time.time() < t_end:
            cand = ops[:i] + ops[i + chunk:]
            if cand and bad(cand):
                ops = cand
                i = min(i, len(ops)) - chunk
            else:
                i -= max(1, chunk // 2) if chunk > 1 else 1
        if chunk == 1 or time.time() >= t_end:
            break
        chunk //= 2
    return ops


# ------------------------------------------------------------------------------------ the check
def run(ctx):
    keys(6)      # before any fork: every worker uses the same keys (same set iteration orders)
    per_key = {}
    t0 = time.time()
    timing = ctx.extra.setdefault("timing_s", {})

    def report(key, what, cfg, ops):
        per_key[key] = per_key.get(key, 0) + 1
        if per_key[key] > 2:
            return
        small_ops = shrink(cfg, ops, key)
        ctx.violation(key, what, {"cfg": cfg_json(cfg), "ops": ops_json(small_ops), "key": key})

    # ---- stage 0: corpus
    for path in sorted(glob.glob(os.path.join(CORPUS, "*.json"))):
        case = json.load(open(path))
        for key, what in sorted(set(replay_case(case)))[:3]:
            ctx.violation(key, "corpus %s: %s" % (os.path.basename(path), what), case)
        ctx.count(("corpus", path))

    timing["corpus"] = round(time.time() - t0, 1)
    # ---- stage P
    t0 = time.time()
    ctx.proofs()
    ctx.proofs(part="C12x")      # snapshots over the C02 `address` packer, all address families
    # stage G: network.py / peer.py translated from the AST (fail closed), then the refinement proofs
    gen_text = None
    try:
        gen_text = tr_network.write()
        ctx.extra["generated"] = {"gen/G12_network.v": len(gen_text)}
    except (Unsupported, Exception) as e:   # noqa
        ctx.broke("translator tr_network aborted", e)
    if gen_text is not None:
        ctx.proofs(part="C12y")  # gen_refines_hand_model: the translated functions compute the hand model
    timing["proofs"] = round(time.time() - t0, 1)
    t0 = time.time()
    ctx.coverage["trusted_base"] = [
        "Coq 8.16.1 kernel (coqc, vm_compute); no axioms (Print Assumptions: closed)",
        "hand model coq/model/M12_network.v of Network / Peer.addresses (snapshot codec = model/M02_wire's `address` packer, "
        "itself tied to serialization.py by check C02), tied by this run's correspondence "
        "(chained 61-bit hash of return value and full abstracted state after every operation)",
        "harness abstraction (tools/checks/c12.py: Impl, flat_net) and generators",
    ]
    ctx.assumptions = [
        "every Peer argument is a fresh object not mutated by the caller afterwards",
        "addresses are UDPv4Address / UDPv6Address in inet_ntop form or DomainAddress whose host is not an IP literal "
        "(no plain tuples)",
        "mid (sha1 of the key) identified with the key; blacklists fixed before the first operation",
        "graph_lock / thread safety not modelled",
    ]

    # ---- stage C (a): exhaustive exploration
    r = ctx.rng("universe")
    U = universe(r)
    Unull = (U[0], [(4, 0, 0), host_addr(r), U[1][2]], U[2])      # null address, a host name, IPv6
    cfg_default = ((500, 500, 500), [], [])
    cfg_tight = ((1, 1, 1), [Unull[1][2]], [3])     # minimal caps, a blacklisted address and mid
    if ctx.quick:
        d_full, d_small = 3, 4
        plans = [(cfg_default, U, 3, 1), (cfg_tight, Unull, 3, 1),
                 (cfg_default, small(U), 4, 1), (((1, 1, 1), [], []), small(U), 4, 1)]
    else:
        d_full, d_small = 4, 6
        plans = [(cfg_default, U, 4, 5), (cfg_tight, Unull, 3, 1),
                 (((2, 2, 1), [U[1][2]], []), U, 3, 1), (((500, 500, 500), [U[1][0]], [2]), U, 3, 1),
                 (cfg_default, small(U), 6, 4), (((1, 1, 1), [], []), small(U), 5, 1)]
    all_cases = []     # (cfg, path, fan ops, fan hashes)
    ctx.extra["exploration"] = []
    with multiprocessing.Pool(14) as pool:
        for cfg, u, d, every in plans:
            cases, viols, stats = explore(pool, cfg, u, d, model_every=every)
            ctx.extra["exploration"].append({"cfg": cfg_json(cfg), **stats})
            for key, what, ops in viols:
                report(key, what, cfg, ops)
            for path, fan, hs in cases:
                all_cases.append((cfg, path, fan, hs))
            ctx.coverage["evaluations"] += stats["edges"]
            ctx._distinct.update(("state", str(cfg), len(u[0]), i) for i in range(stats["states"]))
        timing["exploration_impl"] = round(time.time() - t0, 1)
        t0 = time.time()
        # ---- stage C (b): random sequences
        nrand = 1500 if ctx.quick else 6000
        maxlen = 200
        rr = ctx.rng("lengths")
        jobs = [(ctx.seed, i, rr.choice([5, 10, 20, 40, 80, maxlen] if ctx.quick else [10, 40, 100, maxlen]))
                for i in range(nrand)]
        kinds_total = {}
        for (cfg, ops, h, viols, kinds, nontrivial) in pool.imap(run_random_case, jobs, chunksize=8):
            for key, what, prefix in viols:
                report(key, what, cfg, prefix)
            for k, v in kinds.items():
                kinds_total[k] = kinds_total.get(k, 0) + v
            ctx.count(("rnd", len(all_cases)), nontrivial=nontrivial)
            all_cases.append((cfg, ops[:-1], ops[-1:], [h]))
            if len(ctx.coverage["samples"]) < 3 and len(ops) <= 10:
                ctx.sample({"cfg": cfg_json(cfg), "ops": ops_json(ops), "hash": h})
    ctx.extra["op_mix"] = kinds_total
    timing["random_impl"] = round(time.time() - t0, 1)
    t0 = time.time()

    # ---- model side
    coq_cases = [(case_coq(cfg, path, fan), str(mix_list(0, hs))) for (cfg, path, fan, hs) in all_cases]
    mism, errs = coqrun.eval_mismatches(IMPORTS, "run_fan_hash", "Z.eqb", coq_cases, os.path.join(ctx.scratch, "c12"),
                                        ctype="c12_case * Z", shard=max(40, len(coq_cases) // 56), jobs=14,
                                        timeout=1500, preamble=PREAMBLE)
    timing["model_in_coq"] = round(time.time() - t0, 1)
    # the TRANSLATED functions, evaluated on a share of the same cases (same expected hashes)
    if gen_text is not None:
        t0 = time.time()
        every = 6 if ctx.quick else 10
        sub = [i for i in range(len(coq_cases)) if i % every == 0]
        gm, gerrs = coqrun.eval_mismatches(IMPORTS_GEN, "grun_fan_hash", "Z.eqb", [coq_cases[i] for i in sub],
                                           os.path.join(ctx.scratch, "c12g"), ctype="c12_case * Z",
                                           shard=max(40, len(sub) // 56), jobs=14, timeout=1500, preamble=PREAMBLE)
        timing["generated_in_coq"] = round(time.time() - t0, 1)
        for e in gerrs:
            ctx.broke("evaluation of the translated functions failed", e)
        for j in gm[:6]:
            ctx.broke("correspondence: translated functions and implementation differ", localise(ctx, *all_cases[sub[j]]))
        ctx.coverage["traces_validated_against_impl"] += sum(len(all_cases[sub[j]][3]) for j in range(len(sub)) if j not in set(gm))
        ctx.extra["generated_cases"] = len(sub)
    for e in errs:
        ctx.broke("model evaluation failed", e)
    for i in mism[:6]:
        ctx.broke("correspondence: model and implementation differ", localise(ctx, *all_cases[i]))
    bad = set(mism)
    ctx.coverage["traces_validated_against_impl"] += sum(len(c[3]) for j, c in enumerate(all_cases) if j not in bad)
    ctx.coverage["rule"] = (
        "breadth-first exploration of all sequences over %d operations (3 peers x 3 addresses x 2 services) to depth %d and "
        "over %d operations (2 peers x 2 addresses x 1 service) to depth %d on the implementation, states merged up to "
        "renaming of Peer objects, with default and minimal cache caps, blacklists and the null address; queries checked "
        "against the membership read directly at every edge, full query sweep on private copies + re-add after every removal "
        "and at the last level (thorough tier: of the deepest level of the two largest explorations every 5th / 4th state "
        "goes to the model, all go through the oracle); %d random sequences of length <= %d (3-6 peers, caps 0..500, blacklists, malformed "
        "snapshots); every edge / sequence compared with the Coq model by a chained hash of return value and full state "
        "after every operation; distinct = distinct states (exploration) + sequences ending in a non-empty graph (random)"
        % (len(alphabet(U)), d_full, len(alphabet(small(U))), d_small, nrand, maxlen))
    ctx.coverage["exhaustive"] = False


def localise(ctx, cfg, path, fan, hs):
    """which alternative / step differs, with the model's and the implementation's chained hashes"""
    info = {"differing_alternatives": None, "cfg": cfg_json(cfg), "path": ops_json(path)}
    if len(fan) == 1:
        info["last"] = ops_json(fan)
    try:
        import re
        out = coqrun.eval_terms(IMPORTS, ["run_fan %s" % case_coq(cfg, path, fan)], os.path.join(ctx.scratch, "loc"),
                                preamble=PREAMBLE)
        m = re.search(r"=\s*\[(.*?)\]\s*:\s*list Z", out, re.S)
        model = [int(x.strip().strip("()")) for x in m.group(1).split(";")] if m and m.group(1).strip() else []
        bad = [i for i, (a, b) in enumerate(zip(hs, model)) if a != b]
        info["differing_alternatives"] = [ops_json([fan[i]])[0] for i in bad[:5]]
        if len(fan) == 1:    # a random sequence: find the first differing step
            im, h, trace = Impl(*cfg), 0, []
            for op in path + fan:
                r, _ = im.apply(op)
                h = step_hash(im, h, r)
                trace.append(h)
            out = coqrun.eval_terms(IMPORTS, ["run_trace %s" % case_coq(cfg, path, fan)], os.path.join(ctx.scratch, "loc"),
                                    preamble=PREAMBLE)
            m = re.search(r"=\s*\[(.*?)\]\s*:\s*list Z", out, re.S)
            model = [int(x.strip().strip("()")) for x in m.group(1).split(";")] if m and m.group(1).strip() else []
            step = next((i for i, (a, b) in enumerate(zip(trace, model)) if a != b), None)
            info["first_differing_step"] = step
            info["op"] = ops_json(path + fan)[step] if step is not None else None
    except Exception as e:   # noqa
        info["localise_error"] = repr(e)
    return json.dumps(info)


def replay(path):
    """Re-run the recorded witnesses on the implementation through the oracle."""
    keys(6)
    js = json.load(open(path))
    rc = 0
    cases = [v["case"] for v in js.get("violations", [])] if "violations" in js else [js] if "ops" in js else []
    for case in cases:
        log = []
        viol = replay_case(case, log)
        print("case:", json.dumps(case["cfg"]))
        for l in log:
            print("  ", l)
        for key, what in sorted(set(viol)):
            print("  VIOLATES %s :: %s" % (key, what))
            rc = 1
        if not viol:
            print("  (no violation on this tree)")
    for b in js.get("no_longer_checks", []):
        print("no longer checks:", b["what"])
        print(b.get("detail", "")[-1500:])
        rc = 1
    return rc
