"""C10 - each outstanding request is resolved exactly once.

Stage P: props/C10.v over the model coq/model/M10_reqcache.v (request table + timeout task per cache,
         loop iterations, cancellation of woken tasks, passthrough, clear, shutdown, callbacks that pop/add).
Stage C: the real RequestCache / TaskManager / retrieve_cache, driven one loop iteration at a time on a
         virtual clock (the harness calls the real BaseEventLoop._run_once, so the order of callbacks is
         asyncio's own); every on_timeout invocation is observed and turned into a `Fire c` operation of the
         model, so that the observed schedule is replayed on the model inside Coq and all observations
         (add / pop results, KeyError, timeouts, future states, table and live timers) are compared.
Oracle : an independent Python statement of the property on what the implementation did (class Oracle).
"""
from __future__ import annotations

import asyncio
import itertools
import json
import os
import threading
import time as _time

from tools.vlib import coqrun
from tools.vlib.vtime import VLoop

IMPORTS = ("From Coq Require Import ZArith List Bool.\n"
           "From IPV8V Require Import lib.PyErr model.M10_reqcache.\n"
           "Import ListNotations.\nOpen Scope Z_scope.\n")
# the same cases run through the functions regenerated from the source (gen/G10_reqcache.v)
IMPORTS_X = ("From Coq Require Import ZArith List Bool.\n"
             "From IPV8V Require Import lib.PyErr model.M10_reqcache model.M10_lang gen.G10_reqcache model.M10_reqcache_gen.\n"
             "Import ListNotations.\nOpen Scope Z_scope.\n")

PREFIXES = ["p", "q", "p:1", "", "circuit", "1", "p:"]
CLASS_TAGS = {0: [0], 1: [1, 0], 2: [2, 1, 0]}     # harness classes: K1(K0), K2(K1)

CORPUS = os.path.join(os.path.dirname(os.path.dirname(os.path.dirname(os.path.abspath(__file__)))), "corpus", "C10")


# =============================================================================== implementation harness
class HExc(Exception):
    pass


class Violation(Exception):
    pass


class Oracle:
    """The property, stated directly on the implementation's observable behaviour (no model involved).

    outstanding: identity -> cache index for every cache accepted by add() and not yet resolved."""

    def __init__(self, cfg):
        self.cfg = cfg
        self.outstanding = {}          # (p, n) -> c
        self.last_end = {}             # c -> how its previous registration ended
        self.shutdown = False
        self.bad = []                  # (key, what)
        self.timeouts = 0
        self.pops = 0
        self.override = None           # (timeout, filter tags or None) while inside passthrough()
        self.epoch = {}                # c -> {"d": effective delay, "armed": clock at first iteration, "due": iterations begun past the deadline}
        self.baseline = {}             # c -> states of its managed futures when its current registration was accepted

    def ident(self, c):
        return (self.cfg[c]["p"], self.cfg[c]["n"])

    def flag(self, key, what):
        self.bad.append((key, what))

    def is_out(self, c):
        return self.outstanding.get(self.ident(c)) == c

    def on_add(self, c, result, fut_states):
        """result: 'added' | 'none' | exception class name"""
        idn = self.ident(c)
        if result == "added":
            if self.shutdown:
                self.flag("shutdown/add-accepted", "add() accepted cache %d after shutdown" % c)
            if idn in self.outstanding:
                self.flag("identity/duplicate-accepted",
                          "add() accepted cache %d while cache %d holds identity %r" % (c, self.outstanding[idn], idn))
            self.outstanding[idn] = c
            d = self.cfg[c]["d"]
            if self.override is not None and (self.override[1] is None or
                                              any(t in CLASS_TAGS[self.cfg[c]["cls"]] for t in self.override[1])):
                d = self.override[0]
            self.epoch[c] = {"d": max(0, d), "armed": None, "due": 0}
            self.baseline[c] = list(fut_states)
        elif result == "none":
            if not self.shutdown and idn not in self.outstanding:
                self.flag("add/refused-without-reason", "add() returned None for cache %d with a free identity" % c)
            if self.shutdown and any(f == "pending" for f in fut_states):
                self.flag("shutdown/future-not-cancelled", "add() after shutdown left a future of cache %d pending" % c)
        elif result == "AssertionError" and self.cfg[c]["d"] <= 0:
            pass
        else:
            self.flag("add/raised-%s" % result, "add(cache %d) raised %s" % (c, result))

    def check_outstanding_futures(self, fut_states_of):
        """a managed future of an outstanding request stays as it was when the request was accepted (pending, normally)
        until the request is resolved; only the response handler of the harness itself may complete it ('ext')"""
        for c in self.outstanding.values():
            base = self.baseline.get(c)
            if not base:
                continue
            cur = fut_states_of(c)
            for k, (b, a) in enumerate(zip(base, cur)):
                if a != b and not (b == "pending" and a == "ext"):
                    self.flag("futures/completed-while-outstanding",
                              "future %d of cache %d went from %r to %r while the cache is still registered" % (k, c, b, a))
                    base[k] = a

    def on_refused_add(self, c, before, after):
        if before != after:
            what = [n for n, x, y in zip(("table", "live timers", "futures"), before, after) if x != y]
            self.flag("add/refused-add-changed-state", "add(cache %d) returned None for a taken identity but changed %s" % (c, ", ".join(what)))

    def on_pop(self, idn, got):
        """got: cache index or 'KeyError'"""
        if got == "KeyError":
            if idn in self.outstanding:
                self.flag("pop/keyerror-on-outstanding", "pop%r raised KeyError although cache %d is outstanding" % (idn, self.outstanding[idn]))
            return
        self.pops += 1
        if self.outstanding.get(idn) != got:
            self.flag("pop/returned-unregistered", "pop%r returned cache %s which is not the outstanding one (%s; it ended by %s)"
                      % (idn, got, self.outstanding.get(idn), self.last_end.get(got)))
        else:
            del self.outstanding[idn]
        self.last_end[got] = "pop"

    def on_query(self, kind, idn, got):
        exp = idn in self.outstanding
        if kind == "has" and got != exp:
            self.flag("has/wrong", "has%r = %s, outstanding = %s" % (idn, got, exp))
        if kind == "get" and got != self.outstanding.get(idn):
            self.flag("get/wrong", "get%r = %s, outstanding = %s" % (idn, got, self.outstanding.get(idn)))
        if kind == "new" and got != exp:
            self.flag("identity/constructor-guard", "NumberCache%r raised=%s, identity taken=%s" % (idn, got, exp))
        if kind == "find":
            if isinstance(got, int) and (idn[0], got) in self.outstanding:
                self.flag("identity/find-returned-claimed", "find_unclaimed_identifier returned claimed number %d" % got)

    def on_timeout(self, c):
        self.timeouts += 1
        if self.shutdown:
            self.flag("timeout/after-shutdown", "on_timeout of cache %d ran after shutdown" % c)
        if not self.is_out(c):
            how = self.last_end.get(c, "never-added")
            self.flag("timeout/after-%s" % how, "on_timeout of cache %d ran although its registration had ended by %s" % (c, how))
        else:
            del self.outstanding[self.ident(c)]
        self.last_end[c] = "timeout"

    def on_timeout_end(self, c, before, after):
        spec = self.cfg[c]["futs"]
        for k, (b, a) in enumerate(zip(before, after)):
            if b == "pending":
                want = {"none": "none", "val": ("val", spec[k][1]), "exc": ("exc", spec[k][1])}[spec[k][0]]
                if a != want:
                    self.flag("futures/not-completed-on-timeout", "future %d of cache %d is %r after its timeout, configured %r" % (k, c, a, want))
            elif a != b:
                self.flag("futures/overwritten-on-timeout", "future %d of cache %d changed from %r to %r" % (k, c, b, a))
        if self.is_out(c):      # the callback registered the cache again: its futures were completed for the registration that timed out
            self.baseline[c] = list(after)

    def on_drop(self, kind, cs):
        for c in cs:
            if not self.is_out(c):
                self.flag("%s/dropped-unregistered" % kind, "%s dropped cache %d which was not outstanding" % (kind, c))
            else:
                del self.outstanding[self.ident(c)]
            self.last_end[c] = kind
        if self.outstanding:
            self.flag("%s/left-outstanding" % kind, "%s left caches %s registered" % (kind, sorted(self.outstanding.values())))
            self.outstanding.clear()
        if kind == "shutdown":
            self.shutdown = True

    def after_shutdown(self, cs, fut_states, table_len):
        if table_len:
            self.flag("shutdown/table-not-empty", "table has %d entries after shutdown" % table_len)
        for c in cs:
            if any(f == "pending" for f in fut_states[c]):
                self.flag("shutdown/future-not-cancelled", "shutdown left a managed future of cache %d pending" % c)

    def on_iter_begin(self, now):
        for c in self.outstanding.values():
            e = self.epoch[c]
            if e["armed"] is None:
                e["armed"] = now
            if now >= e["armed"] + e["d"]:
                e["due"] += 1

    def on_iter_end(self):
        """bounded liveness: a cache still registered at the end of the second loop iteration that began after its
        deadline (first iteration after add + effective delay) should have timed out"""
        for c in self.outstanding.values():
            if self.epoch[c]["due"] >= 2:
                self.flag("liveness/timeout-overdue", "cache %d is still registered two loop iterations after its timeout was due" % c)
                self.epoch[c]["due"] = -10**9

    def at_end(self, quiescent):
        """the loop is idle and no timer is left: nothing may still be registered"""
        if quiescent:
            for idn, c in self.outstanding.items():
                self.flag("liveness/never-resolved", "cache %d was accepted but neither popped, dropped nor timed out, and no timer is left" % c)


class Harness:
    def __init__(self, cfg):
        from ipv8.requestcache import NumberCache, RequestCache
        from ipv8 import lazy_community
        self.cfg = cfg
        self.loop = VLoop()
        self.loop._vlimit = 0.0
        self.flat = []      # model operations (JSON form)
        self.obs = []       # observations (JSON form), aligned with the model's
        self.depth = 0      # > 0 while inside an on_timeout callback
        self.loop_errors = []
        self.oracle = Oracle(cfg)
        self.reg = {}       # cache index -> latest timeout task
        self.pending_sd = None
        self.after_callback = {}
        self._orig_time = _time.time
        _time.time = lambda: 1.7e9 + self.loop._vnow
        asyncio.set_event_loop(self.loop)
        asyncio.events._set_running_loop(self.loop)
        self.loop._thread_id = threading.get_ident()
        self.loop.set_exception_handler(lambda l, c: self.loop_errors.append(repr(c.get("exception") or c.get("message"))))
        self.rc = rc = RequestCache()
        h = self

        class K0(NumberCache):
            def __init__(self, idx, spec):
                super().__init__(rc, PREFIXES[spec["p"]], spec["n"])
                self.idx, self.spec = idx, spec
                for kind, v in spec["futs"]:
                    fut = h.loop.create_future()
                    self.register_future(fut, None if kind == "none" else ("val", v) if kind == "val" else HExc(v))

            @property
            def timeout_delay(self):
                return float(self.spec["d"])

            def on_timeout(self):
                h.obs.append(["timeout", self.idx])
                h.oracle.on_timeout(self.idx)
                h.depth += 1
                try:
                    for b in self.spec["script"]:
                        h.bop(b)
                finally:
                    h.depth -= 1
                    h.after_callback[self.idx] = h.fut_states(self.idx)   # what on_timeout itself left pending

        class K1(K0):
            pass

        class K2(K1):
            pass

        self.classes = [K0, K1, K2]
        self.NumberCache = NumberCache
        self.caches = [self.classes[s["cls"]](i, s) for i, s in enumerate(cfg)]
        orig_on_timeout = rc._on_timeout

        def on_timeout_wrapper(cache):
            h.flat.append(["fire", cache.idx])
            n_obs = len(h.obs)
            try:
                orig_on_timeout(cache)
            finally:
                after = h.fut_states(cache.idx)
                if len(h.obs) == n_obs:      # cache.on_timeout was never reached
                    h.obs.append(["refused", cache.idx])
                else:
                    h.obs.append(["timeout_end", cache.idx, after])
                    h.oracle.on_timeout_end(cache.idx, h.after_callback.get(cache.idx, after), after)
        rc._on_timeout = on_timeout_wrapper
        orig_register = rc.register_task

        def register_wrapper(name, *a, **kw):
            t = orig_register(name, *a, **kw)
            if isinstance(name, K0):
                h.reg.pop(name.idx, None)
                h.reg[name.idx] = t
            return t
        rc.register_task = register_wrapper

        # a stand-in overlay whose handler is decorated with the real retrieve_cache
        self.retr_handlers = {}
        for pi, pname in enumerate(PREFIXES):
            cls = type("Named%d" % pi, (), {"name": pname})

            class Ov:
                request_cache = rc
                logger = __import__("logging").getLogger("c10")

                @lazy_community.retrieve_cache(cls)
                def handler(self, peer, payload, cache=None):
                    return ("handled", cache)
            self.retr_handlers[pi] = Ov()

    # ------------------------------------------------------------------ observation helpers
    def fut_states(self, c):
        out = []
        for fut, _ in self.caches[c].managed_futures:
            if not fut.done():
                out.append("pending")
            elif fut.cancelled():
                out.append("cancelled")
            elif fut.exception() is not None:
                e = fut.exception()
                out.append(("exc", e.args[0]) if isinstance(e, HExc) else ("exc?", repr(e)))
            else:
                r = fut.result()
                out.append("none" if r is None else "ext" if r == "ext" else r if isinstance(r, tuple) else ("val?", repr(r)))
        return out

    def table(self):
        out = []
        for ident, cache in self.rc._identifiers.items():
            pname, num = ident.rsplit(":", 1)
            out.append([PREFIXES.index(pname), int(num), cache.idx])
        return out

    def live(self):
        return [c for c, t in self.reg.items() if not t.done() and t.cancelling() == 0]

    # ------------------------------------------------------------------ synchronous operations
    def bop(self, b, top=False):
        """execute one basic operation on the implementation, record observation (+ model op at top level)"""
        if top:
            self.flat.append(["b", b])
        rc, k = self.rc, b[0]
        if k == "add":
            c = b[1]
            before = (self.table(), self.live(), [self.fut_states(x) for x in range(len(self.cfg))])
            try:
                r = rc.add(self.caches[c])
                res = "added" if r is self.caches[c] else "none" if r is None else "other"
            except Exception as e:   # noqa
                res = type(e).__name__
            if res == "none":
                res2 = "dropped" if rc._shutdown else "dup"
            else:
                res2 = res
            self.obs.append(["add", c, res2])
            self.oracle.on_add(c, res, self.fut_states(c))
            if res2 == "dup":
                self.oracle.on_refused_add(c, before, (self.table(), self.live(), [self.fut_states(x) for x in range(len(self.cfg))]))
        elif k in ("pop", "retr"):
            p, n = b[1], b[2]
            if k == "pop":
                try:
                    got = rc.pop(PREFIXES[p], n).idx
                except KeyError:
                    got = "KeyError"
            else:
                payload = type("P", (), {"identifier": n})()
                r = self.retr_handlers[p].handler(("1.2.3.4", 5), payload)
                got = "KeyError" if r is None else r[1].idx
            self.obs.append([k, p, n, got])
            self.oracle.on_pop((p, n), got)
        elif k == "has":
            got = bool(rc.has(PREFIXES[b[1]], b[2]))
            self.obs.append(["has", b[1], b[2], got])
            self.oracle.on_query("has", (b[1], b[2]), got)
        elif k == "get":
            r = rc.get(PREFIXES[b[1]], b[2])
            got = None if r is None else r.idx
            self.obs.append(["get", b[1], b[2], got])
            self.oracle.on_query("get", (b[1], b[2]), got)
        elif k == "new":
            try:
                self.NumberCache(rc, PREFIXES[b[1]], b[2])
                got = False
            except RuntimeError:
                got = True
            self.obs.append(["new", b[1], b[2], got])
            self.oracle.on_query("new", (b[1], b[2]), got)
        elif k == "find":
            import ipv8.requestcache as rcm
            draws = list(b[2])
            state = {"i": 0}

            def fake_random():
                i = min(state["i"], len(draws) - 1)
                state["i"] += 1
                return (draws[i] + 0.5) / 65536.0
            orig = rcm.random
            rcm.random = fake_random
            try:
                got = rcm.RandomNumberCache.find_unclaimed_identifier(rc, PREFIXES[b[1]])
            except RuntimeError:
                got = "RuntimeError"
            finally:
                rcm.random = orig
            self.obs.append(["find", b[1], got])
            self.oracle.on_query("find", (b[1], None), got)
        elif k == "clear":
            cs = [e[2] for e in self.table()]
            rc.clear()
            self.obs.append(["clear", cs])
            self.oracle.on_drop("clear", cs)
            if rc._identifiers:
                self.oracle.flag("clear/table-not-empty", "table not empty after clear")
        elif k == "setfut":
            futs = self.caches[b[1]].managed_futures
            if b[2] < len(futs) and not futs[b[2]][0].done():
                futs[b[2]][0].set_result("ext")
            self.obs.append(["nop"])
        elif k == "penter":
            filt = b[2]
            args = [] if filt is None else [self.classes[t] for t in filt]
            if filt is not None and not args:
                # passthrough() with an empty filter tuple is spelled passthrough(None): no filter
                raise ValueError("empty filter not expressible")
            cm = rc.passthrough(*args, timeout=float(b[1]))
            cm.__enter__()
            self.oracle.override = (b[1], filt)
            self.cms = getattr(self, "cms", []) + [cm]
            self.obs.append(["nop"])
        elif k == "pexit":
            cms = getattr(self, "cms", [])
            if cms:
                cms.pop().__exit__(None, None, None)
            else:   # exit without enter: same effect as the finally clause
                rc._timeout_override = None
                rc._timeout_filters = None
            self.oracle.override = None
            self.obs.append(["nop"])
        else:
            raise ValueError(b)
        self.oracle.check_outstanding_futures(self.fut_states)

    # ------------------------------------------------------------------ asynchronous part
    def _pre_shutdown(self):
        cs = [e[2] for e in self.table()]
        self.flat.append(["shutdown"])
        self.obs.append(["shutdown", cs])
        self.pending_sd = cs
        self.oracle.on_drop("shutdown", cs)

    def _post_shutdown(self):
        if self.pending_sd is not None and self.rc._shutdown:
            self.oracle.after_shutdown(self.pending_sd, [self.fut_states(c) for c in range(len(self.cfg))], len(self.rc._identifiers))
            self.pending_sd = None

    async def _shutdown(self):
        self._pre_shutdown()
        await self.rc.shutdown()

    def apply(self, o):
        k = o[0]
        if k == "adv":
            dt = max(0, o[1])
            self.loop._vnow += float(dt)
            self.loop._vlimit = self.loop._vnow
            self.flat.append(["adv", o[1]])
            self.obs.append(["nop"])
        elif k == "iter":
            self.flat.append(["iter_begin"])
            self.obs.append(["nop"])
            self.oracle.on_iter_begin(int(self.loop._vnow))
            self.loop._run_once()
            self.flat.append(["iter_end"])
            self.obs.append(["iter_end", []])
            self.oracle.on_iter_end()
            self.oracle.check_outstanding_futures(self.fut_states)
        elif k == "shutdown":
            asyncio.Task(self._shutdown(), loop=self.loop, eager_start=True)
        elif k == "shutdown_soon":
            self.loop.create_task(self._shutdown())
        elif k == "soon":
            self.loop.call_soon(self.bop, o[1], True)
        elif k == "snap":
            self.flat.append(["snap"])
            self.obs.append(["snap", self.table(), self.live(), [self.fut_states(c) for c in range(len(self.cfg))], bool(self.rc._shutdown)])
        else:
            self.bop(o, top=True)
        self._post_shutdown()

    def drain(self):
        """let the clock pass every deadline and run the loop until idle (liveness part of the oracle)"""
        for _ in range(6 * len(self.cfg) + 20):
            if not self.loop._ready and not self.live():
                break
            if not self.loop._ready:
                nxt = [h._when for h in self.loop._scheduled if not h._cancelled]
                if not nxt:
                    break
                when = min(nxt)
                if when > self.loop._vnow:
                    self.apply(["adv", int(when - self.loop._vnow + 0.999999)])
            self.apply(["iter"])
        self.apply(["snap"])
        self.oracle.at_end(not self.loop._ready and not self.live())

    def close(self):
        try:
            if not self.rc._shutdown:
                t = asyncio.Task(self.rc.shutdown(), loop=self.loop, eager_start=True)
                for _ in range(4):
                    self.loop._run_once()
        finally:
            _time.time = self._orig_time
            asyncio.events._set_running_loop(None)
            self.loop._thread_id = None
            asyncio.set_event_loop(None)
            self.loop.close()


def run_impl(cfg, ops, drain=True):
    """-> (flat model ops, observations, oracle findings [(key, what)], stats)"""
    h = Harness(cfg)
    try:
        for o in ops:
            h.apply(o)
        if drain:
            h.drain()
        bad = list(h.oracle.bad)
        for e in h.loop_errors:
            bad.append(("loop/unhandled-exception", "exception reached the event loop: %s" % e))
        return h.flat, h.obs, bad, {"timeouts": h.oracle.timeouts, "pops": h.oracle.pops}
    finally:
        h.close()


# =============================================================================== rendering for Coq
def nat(n):
    return "%d%%nat" % n


def zlist(l):
    return "[" + ";".join(coqrun.cz(x) for x in l) + "]"


def natlist(l):
    return "[" + ";".join(nat(x) for x in l) + "]"


def bop_coq(b):
    k = b[0]
    if k == "add":
        return "BAdd %s" % nat(b[1])
    if k in ("pop", "retr", "has", "get", "new"):
        return "%s %s %s" % ({"pop": "BPop", "retr": "BRetr", "has": "BHas", "get": "BGet", "new": "BNew"}[k],
                             coqrun.cz(b[1]), coqrun.cz(b[2]))
    if k == "find":
        return "BFind %s %s" % (coqrun.cz(b[1]), zlist(b[2]))
    if k == "clear":
        return "BClear"
    if k == "setfut":
        return "BSetFut %s %s" % (nat(b[1]), nat(b[2]))
    if k == "penter":
        return "BPassEnter %s %s" % (coqrun.cz(b[1]), "None" if b[2] is None else "(Some %s)" % zlist(b[2]))
    if k == "pexit":
        return "BPassExit"
    raise ValueError(b)


def cfg_coq(cfg):
    out = []
    for s in cfg:
        futs = "[" + ";".join("SNone" if k == "none" else "S%s %s" % ("Val" if k == "val" else "Exc", coqrun.cz(v)) for k, v in s["futs"]) + "]"
        out.append("mkCache %s %s %s %s %s [%s]" % (coqrun.cz(s["p"]), coqrun.cz(s["n"]), coqrun.cz(s["d"]),
                                                  zlist(CLASS_TAGS[s["cls"]]), futs, ";".join(bop_coq(b) for b in s["script"])))
    return "[" + ";\n  ".join(out) + "]"


def op_coq(o):
    k = o[0]
    if k == "b":
        return "OpB (%s)" % bop_coq(o[1])
    if k == "adv":
        return "Advance %s" % coqrun.cz(o[1])
    if k == "fire":
        return "Fire %s" % nat(o[1])
    return {"iter_begin": "IterBegin", "iter_end": "IterEnd", "shutdown": "Shutdown", "snap": "Snap"}[k]


def fstate_coq(f):
    if isinstance(f, (tuple, list)):
        if f[0] not in ("val", "exc"):      # an outcome the model cannot produce: rendered as an impossible value
            return "FVal (-1000000007)"
        return "F%s %s" % ({"val": "Val", "exc": "Exc"}[f[0]], coqrun.cz(f[1]))
    return {"pending": "FPending", "none": "FNone", "cancelled": "FCancelled", "ext": "FExt"}[f]


def fl_coq(fs):
    return "[" + ";".join(fstate_coq(f) for f in fs) + "]"


def obs_coq(o):
    k = o[0]
    if k == "add":
        r = {"added": "AAdded", "dup": "ADup", "dropped": "ADropped"}.get(o[2]) or "(ARaise %s)" % o[2]
        return "OAdd %s %s" % (nat(o[1]), r)
    if k == "pop":
        return "OPop %s %s %s" % (coqrun.cz(o[1]), coqrun.cz(o[2]), "(Raise KeyError)" if o[3] == "KeyError" else "(Ok %s)" % nat(o[3]))
    if k == "retr":
        return "ORetr %s %s %s" % (coqrun.cz(o[1]), coqrun.cz(o[2]), "None" if o[3] == "KeyError" else "(Some %s)" % nat(o[3]))
    if k in ("has", "new"):
        return "%s %s %s %s" % ("OHas" if k == "has" else "ONew", coqrun.cz(o[1]), coqrun.cz(o[2]), coqrun.cb(o[3]))
    if k == "get":
        return "OGet %s %s %s" % (coqrun.cz(o[1]), coqrun.cz(o[2]), "None" if o[3] is None else "(Some %s)" % nat(o[3]))
    if k == "find":
        return "OFind %s %s" % (coqrun.cz(o[1]), "(Raise RuntimeError)" if o[2] == "RuntimeError" else "(Ok %s)" % coqrun.cz(o[2]))
    if k in ("clear", "shutdown", "iter_end"):
        return "%s %s" % ({"clear": "OClear", "shutdown": "OShutdown", "iter_end": "OIterEnd"}[k], natlist(o[1]))
    if k in ("timeout", "refused"):
        return "%s %s" % ("OTimeout" if k == "timeout" else "ORefused", nat(o[1]))
    if k == "timeout_end":
        return "OTimeoutEnd %s %s" % (nat(o[1]), fl_coq(o[2]))
    if k == "snap":
        tbl = "[" + ";".join("((%s,%s),%s)" % (coqrun.cz(p), coqrun.cz(n), nat(c)) for p, n, c in o[1]) + "]"
        return "OSnap %s %s [%s] %s" % (tbl, natlist(o[2]), ";".join(fl_coq(f) for f in o[3]), coqrun.cb(o[4]))
    if k == "nop":
        return "ONop"
    raise ValueError(o)


def case_coq(cfg, flat, obs):
    return ("(%s,\n  [%s])" % (cfg_coq(cfg), "; ".join(op_coq(o) for o in flat)),
            "[%s]" % "; ".join(obs_coq(o) for o in obs))


# =============================================================================== generators
def C(p, n, d, cls=0, futs=(), script=()):
    return {"p": p, "n": n, "d": d, "cls": cls, "futs": [list(f) for f in futs], "script": [list(b) for b in script]}


F3 = (("none", 0), ("val", 7), ("exc", 3))


def populations(quick):
    """small populations for the exhaustive event-order enumeration: (name, cfg)"""
    pops = [
        ("two-distinct", [C(0, 1, 1, 0, F3), C(0, 2, 1, 1, (("val", 5),))]),
        ("two-same-identity", [C(0, 1, 1, 0, (("none", 0),)), C(0, 1, 2, 2, (("exc", 1),))]),
        ("callback-pops-other", [C(0, 1, 1, 0, (("val", 1),), (("pop", 0, 2),)), C(0, 2, 1, 1, (("none", 0),)),
                                 C(0, 2, 2, 2, (), (("add", 0),))]),
        ("callback-readds-self", [C(2, 11, 1, 0, (("val", 1),), (("add", 0),)), C(0, 1, 1, 1, (), (("pop", 0, 1), ("add", 1)))]),
        ("callback-clears", [C(0, 1, 1, 0, (("none", 0),), (("clear",), ("add", 0))), C(1, 1, 1, 0, (("val", 2),), (("pop", 0, 1),))]),
    ]
    if not quick:
        pops += [
            ("four-mixed", [C(0, 1, 1, 0, (("val", 1),), (("retr", 0, 2),)), C(0, 2, 2, 1, (("none", 0),), (("add", 3),)),
                            C(0, 1, 2, 2, F3), C(5, 1, 1, 0, (), (("add", 0), ("pop", 0, 1)))]),
            ("three-equal-deadline", [C(0, 1, 2, 0, (), (("pop", 0, 2), ("pop", 0, 3))), C(0, 2, 2, 0, (), (("pop", 0, 1),)),
                                      C(0, 3, 2, 0, (("exc", 9),))]),
        ]
    return pops


def alphabet(cfg, rich):
    syms, idents = [], []
    for i, s in enumerate(cfg):
        syms.append(["add", i])
        if (s["p"], s["n"]) not in idents:
            idents.append((s["p"], s["n"]))
    for p, n in idents:
        syms.append(["pop", p, n])
    syms += [["iter"], ["adv", 1], ["clear"], ["shutdown"]]
    if rich:
        syms += [["soon", ["pop", idents[0][0], idents[0][1]]], ["retr", idents[-1][0], idents[-1][1]],
                 ["new", idents[0][0], idents[0][1]], ["shutdown_soon"], ["penter", 0, None], ["pexit"]]
    return syms


def prefixes(cfg):
    """scenario prefixes that bring the timers into every phase before the exhaustive tail starts"""
    adds = [["add", i] for i in range(len(cfg))]
    dmax = max(s["d"] for s in cfg)
    return [
        [],
        adds,                                                       # created, first step pending
        adds + [["iter"]],                                          # sleeping
        adds + [["iter"], ["adv", 1], ["iter"]],                    # shortest timers woken
        adds + [["iter"], ["adv", dmax], ["iter"]],                 # all woken
        [["penter", 0, None]] + adds + [["pexit"]],                 # passthrough: runnable at the next iteration
        adds[:1] + [["iter"], ["adv", 1]] + adds[1:] + [["iter"]],  # staggered: one woken, others sleeping
    ]


def directed():
    """a few fixed scenarios that every run executes (oracle + model comparison), beside the enumerations"""
    one = [C(0, 1, 3, 0, F3)]
    two = [C(0, 1, 3, 0, F3), C(0, 1, 2, 1, (("val", 4),))]
    return [
        (one, [["add", 0], ["add", 0], ["iter"], ["pop", 0, 1]]),                       # same outstanding object added twice
        (one, [["add", 0], ["iter"], ["add", 0], ["snap"], ["adv", 3], ["iter"], ["iter"], ["snap"]]),
        (two, [["add", 0], ["add", 1], ["add", 0], ["snap"], ["retr", 0, 1], ["add", 1], ["add", 1], ["snap"]]),
        (two, [["add", 1], ["iter"], ["adv", 2], ["iter"], ["add", 1], ["add", 0], ["iter"], ["snap"]]),
    ]


def _enum_worker(args):
    cfg, prefix, heads, syms, depth, keep_mod = args
    import zlib
    n = 0
    bad_out, kept = [], []
    stats = {"timeouts": 0, "pops": 0, "nontrivial": 0}
    for head in heads:
        for tail in itertools.product(syms, repeat=depth - 1):
            ops = prefix + [head] + list(tail)
            flat, obs, bad, st = run_impl(cfg, ops)
            n += 1
            stats["timeouts"] += st["timeouts"]
            stats["pops"] += st["pops"]
            stats["nontrivial"] += 1 if (st["timeouts"] or st["pops"]) else 0
            if bad and len(bad_out) < 40:
                bad_out.append((ops, bad))
            if zlib.crc32(json.dumps(ops).encode()) % keep_mod == 0:
                kept.append((ops, flat, obs))
    return n, bad_out, kept, stats


def gen_random(r, big):
    ncache = r.choice([1, 2, 3, 4, 6, 10, 20, 40]) if big else r.choice([1, 2, 3, 4])
    nid = max(1, ncache * 2 // 3)
    idents = [(r.randrange(len(PREFIXES)), r.choice([0, 1, 2, 11, 65535, -1, r.randrange(65536)])) for _ in range(nid)]

    def rbop(self_idx):
        k = r.choices(["pop", "add", "addself", "retr", "has", "get", "new", "clear", "setfut", "find"],
                      [5, 4, 2, 2, 1, 1, 1, 1, 1, 1])[0]
        p, n = r.choice(idents)
        if k in ("pop", "retr", "has", "get", "new"):
            return [k, p, n]
        if k == "add":
            return ["add", r.randrange(ncache)]
        if k == "addself":
            return ["add", self_idx if self_idx is not None else r.randrange(ncache)]
        if k == "clear":
            return ["clear"]
        if k == "setfut":
            return ["setfut", r.randrange(ncache), r.randrange(3)]
        return ["find", p, [r.choice([n % 65536, n % 65536, r.randrange(65536)]) for _ in range(r.choice([1, 2, 4]))]]

    cfg = []
    for i in range(ncache):
        p, n = r.choice(idents)
        futs = [r.choice([("none", 0), ("val", r.randrange(100)), ("exc", r.randrange(100))]) for _ in range(r.choice([0, 0, 1, 2, 3]))]
        script = [rbop(i) for _ in range(r.choice([0, 0, 0, 1, 1, 2, 3]))]
        d = r.choice([1, 1, 2, 3, 5, 8, 20, r.randrange(1, 60)]) if r.random() < 0.97 else r.choice([0, -2])
        cfg.append(C(p, n, d, r.randrange(3), futs, script))
    ops = []
    for _ in range(r.choice([6, 12, 25, 50, 120]) if big else r.choice([4, 8, 14])):
        k = r.choices(["b", "iter", "adv", "soon", "penter", "pexit", "shutdown", "shutdown_soon", "snap", "burst"],
                      [30, 14, 9, 4, 3, 3, 0.6, 0.6, 3, 3])[0]
        if k == "b":
            ops.append(rbop(None))
        elif k == "iter":
            ops.append(["iter"])
        elif k == "adv":
            ops.append(["adv", r.choice([0, 1, 1, 2, 3, 5, 10, 25, r.randrange(0, 70)])])
        elif k == "soon":
            ops.append(["soon", rbop(None)])
        elif k == "penter":
            filt = None if r.random() < 0.5 else r.sample([0, 1, 2], r.choice([1, 2]))
            ops.append(["penter", r.choice([0, 0, 0, 1, 3, -1]), filt])
        elif k == "burst":
            ops += [["iter"]] * r.choice([2, 3])
        else:
            ops.append([k])
    return cfg, ops


def _random_worker(args):
    seed_label, count, big, seed = args
    from tools.vlib import prng
    r = prng.stream(seed, seed_label)
    out = []
    for _ in range(count):
        cfg, ops = gen_random(r, big)
        flat, obs, bad, st = run_impl(cfg, ops)
        out.append((cfg, ops, flat, obs, bad, st))
    return out


# =============================================================================== shrinking
def shrink(cfg, ops, key, budget=400):
    """greedy minimisation keeping a finding with the same key"""
    def fails(cfg_, ops_):
        try:
            return any(k == key for k, _ in run_impl(cfg_, ops_)[2])
        except Exception:   # noqa
            return False
    changed = True
    while changed and budget > 0:
        changed = False
        for i in range(len(ops) - 1, -1, -1):
            budget -= 1
            cand = ops[:i] + ops[i + 1:]
            if fails(cfg, cand):
                ops, changed = cand, True
        for i, s in enumerate(cfg):
            for field, empty in (("script", []), ("futs", [])):
                if s[field]:
                    budget -= 1
                    c2 = [dict(x) for x in cfg]
                    c2[i][field] = empty
                    if fails(c2, ops):
                        cfg, changed = c2, True
            for j in range(len(s["script"]) - 1, -1, -1):
                budget -= 1
                c2 = [dict(x) for x in cfg]
                c2[i]["script"] = s["script"][:j] + s["script"][j + 1:]
                if fails(c2, ops):
                    cfg, changed = c2, True
                    break
    return cfg, ops


# =============================================================================== the check
def _report(ctx, cfg, ops, bad, seen_keys, origin):
    for key, what in bad:
        if key in seen_keys:
            continue
        seen_keys.add(key)
        try:
            cfg_m, ops_m = shrink(cfg, ops, key)
        except Exception:   # noqa
            cfg_m, ops_m = cfg, ops
        what_m = next((w for k, w in run_impl(cfg_m, ops_m)[2] if k == key), what)
        ctx.violation(key, "%s [%s; %d ops after shrinking]" % (what_m, origin, len(ops_m)), {"cfg": cfg_m, "ops": ops_m, "key": key})


def translate(ctx):
    """stage G: regenerate gen/G10_reqcache.v from $VERIF_REPO/ipv8/requestcache.py (fail closed)"""
    from tools.tr import tr_reqcache, tr_expr
    try:
        text = tr_reqcache.write()
        ctx.extra.setdefault("generated", {})["gen/G10_reqcache.v"] = len(text)
        return text
    except (tr_expr.Unsupported, Exception) as e:   # noqa
        ctx.broke("translator tr_reqcache aborted", e)
        return None


def run(ctx):
    import multiprocessing
    seen_keys = set()
    # ---- stage 0: corpus
    n_corpus = 0
    if os.path.isdir(CORPUS):
        for fn in sorted(os.listdir(CORPUS)):
            if fn.endswith(".json"):
                w = json.load(open(os.path.join(CORPUS, fn)))
                _, _, bad, _ = run_impl(w["cfg"], w["ops"])
                n_corpus += 1
                ctx.count(("corpus", fn))
                _report(ctx, w["cfg"], w["ops"], bad, seen_keys, "corpus/%s" % fn)
    ctx.extra["corpus_replayed"] = n_corpus
    # ---- stage G + P
    xtext = translate(ctx)
    ctx.proofs()
    xproofs = ctx.proofs(part="C10x") if xtext is not None else False
    ctx.coverage["trusted_base"] = [
        "Coq 8.16.1 kernel (coqc, vm_compute); no axioms (Print Assumptions: closed)",
        "hand model coq/model/M10_reqcache.v of RequestCache / TaskManager timeout tasks / retrieve_cache, tied by this run's correspondence",
        "translator tools/tr/tr_reqcache.py (Python ast -> programs of model/M10_lang.v) and that language's interpreter; "
        "register_task / cancel_pending_task / cancel_all_pending_tasks / Future methods / cache.on_timeout are primitives of it",
        "reading of CPython asyncio: a task whose wake-up is scheduled can still be cancelled; one _run_once = IterBegin..IterEnd",
        "harness tools/checks/c10.py: virtual clock, manual BaseEventLoop._run_once stepping, observation wrappers, canonicalisation",
    ]
    ctx.assumptions = ["single-threaded use (RequestCache.lock / threads not modelled)",
                       "on_timeout callbacks do not raise and do not block",
                       "timeout values are integers of the clock unit (exact in floating point)",
                       "managed futures are registered before the cache is added"]
    r = ctx.rng("main")
    cases, meta = [], []       # Coq correspondence cases
    stats = {"timeouts": 0, "pops": 0}
    for cfg, ops in directed():
        flat, obs, bad, st = run_impl(cfg, ops)
        ctx.count(("directed", json.dumps(ops)))
        _report(ctx, cfg, ops, bad, seen_keys, "directed")
        cases.append(case_coq(cfg, flat, obs))
        meta.append((cfg, ops))
    # ---- stage C1: exhaustive event orders on small populations
    passes = [(True, 3), (False, 4)] if ctx.quick else [(True, 4), (False, 5)]   # (rich alphabet, tail length)
    depth = passes[0][1]
    jobs = []
    for name, cfg in populations(ctx.quick):
        for rich, dp in passes:
            syms = alphabet(cfg, rich=rich)
            for pi, prefix in enumerate(prefixes(cfg)):
                d = dp
                if not ctx.quick and not rich and (len(cfg) > 2 or any(s_["script"] for s_ in cfg)):
                    d = dp - 1                                # the longest tails only on the plain two-cache populations
                while d > 2 and len(syms) ** d > 40000:      # keep every job below ~40k sequences
                    d -= 1
                for head in syms:
                    jobs.append((name, (cfg, prefix, [head], syms, d, 1)))
    total = sum(len(j[1][3]) ** (j[1][4] - 1) for j in jobs)
    target = 8000 if ctx.quick else 30000
    keep_mod = max(1, total // target)
    jobs = [(n, a[:5] + (keep_mod,)) for n, a in jobs]
    n_enum = 0
    t_start = _time.time()
    with multiprocessing.Pool(14) as pool:
        results = pool.map(_enum_worker, [a for _, a in jobs], chunksize=1)
        for (name, a), (n, bad_out, kept, st) in zip(jobs, results):
            n_enum += n
            ctx.coverage["evaluations"] += n
            stats["timeouts"] += st["timeouts"]
            stats["pops"] += st["pops"]
            for ops, bad in bad_out:
                _report(ctx, a[0], ops, bad, seen_keys, "exhaustive/%s" % name)
            for ops, flat, obs in kept:
                ctx._distinct.add(("enum", name, json.dumps(ops)))
                cases.append(case_coq(a[0], flat, obs))
                meta.append((a[0], ops))
        ctx.extra["enum_wall_s"] = round(_time.time() - t_start, 1)
        # ---- stage C2: random schedules, larger populations, arbitrary delays
        nrand = 5000 if ctx.quick else 40000
        per = 250
        rjobs = [("rand/%d" % i, per, i % 4 != 0, ctx.seed) for i in range(nrand // per)]
        coq_share = 0.8 if ctx.quick else 0.25
        for out in pool.imap(_random_worker, rjobs, chunksize=1):
            for cfg, ops, flat, obs, bad, st in out:
                ctx.count(("rand", json.dumps(ops), json.dumps(cfg)), nontrivial=bool(st["timeouts"] or st["pops"]))
                stats["timeouts"] += st["timeouts"]
                stats["pops"] += st["pops"]
                _report(ctx, cfg, ops, bad, seen_keys, "random")
                if r.random() < coq_share:
                    cases.append(case_coq(cfg, flat, obs))
                    meta.append((cfg, ops))
    ctx.extra["enum_and_random_wall_s"] = round(_time.time() - t_start, 1)
    ctx.extra["exhaustive_traces"] = n_enum
    ctx.extra["exhaustive_depth_after_prefix"] = depth
    ctx.extra["random_traces"] = nrand
    ctx.extra["observed"] = stats
    for i in (0, len(meta) // 2, len(meta) - 1):
        if meta:
            ctx.sample({"population": meta[i][0], "ops": meta[i][1], "impl_observations": cases[i][1][:600]})
    # ---- stage C3: replay the observed schedules on the model inside Coq
    mism, errs = coqrun.eval_mismatches(IMPORTS, "run_case", "obsl_eqb", cases, os.path.join(ctx.scratch, "corr"),
                                        ctype="case * list obs", shard=max(100, len(cases) // 28 + 1), jobs=14, timeout=900)
    for e in errs:
        ctx.broke("model evaluation failed", e)
    for i in sorted(mism, key=lambda i: len(json.dumps(meta[i])))[:8]:
        ctx.broke("correspondence: observed history differs between model and implementation",
                  json.dumps({"cfg": meta[i][0], "ops": meta[i][1]}))
    ctx.extra["correspondence_mismatches"] = len(mism)
    # the model-side oracle `holds` on the same schedules (true by theorem; evaluated as a cross-check)
    hm, herrs = coqrun.eval_mismatches(IMPORTS, "holds_case", "Bool.eqb", [(c, "true") for c, _ in cases[:3000]],
                                       os.path.join(ctx.scratch, "holds"), ctype="case * bool", shard=300, jobs=14)
    for e in herrs:
        ctx.broke("model evaluation failed (holds)", e)
    for i in hm[:3]:
        ctx.broke("model history violates holds (contradicts theorem?)", json.dumps(meta[i]))
    # ---- stage C4: the same observed schedules on the functions translated from the source, inside Coq
    if xtext is not None:
        step = 3 if ctx.quick else 4
        xcases = cases[:len(directed())] + cases[len(directed())::step]
        xmeta = meta[:len(directed())] + meta[len(directed())::step]
        xm, xerrs = coqrun.eval_mismatches(IMPORTS_X, "grun_case", "obsl_eqb", xcases, os.path.join(ctx.scratch, "corrx"),
                                           ctype="case * list obs", shard=max(100, len(xcases) // 28 + 1), jobs=14, timeout=900)
        for e in xerrs:
            ctx.broke("generated-model evaluation failed", e)
        for i in sorted(xm, key=lambda i: len(json.dumps(xmeta[i])))[:8]:
            ctx.broke("correspondence: observed history differs between the functions translated from the source and the implementation",
                      json.dumps({"cfg": xmeta[i][0], "ops": xmeta[i][1]}))
        ctx.extra["coq_cases_generated_model"] = len(xcases)
        ctx.extra["correspondence_mismatches_generated_model"] = len(xm)
        ctx.coverage["traces_validated_against_impl"] += len(xcases) - len(xm)
    ctx.extra["total_before_finish_wall_s"] = round(_time.time() - t_start, 1)
    ctx.coverage["traces_validated_against_impl"] += len(cases) - len(mism)
    ctx.extra["coq_cases"] = len(cases)
    ctx.coverage["rule"] = (
        "exhaustive: every sequence of length %d over {add i, pop id, soon-pop, retrieve_cache, constructor, iter, advance, clear, shutdown, "
        "shutdown-as-task, passthrough enter/exit} and of length %d (+1 from the empty prefix) over {add i, pop id, iter, advance, clear, "
        "shutdown}, after each of 7 phase-setting prefixes (created / sleeping / some woken / all woken / passthrough / staggered), on %d populations of 2-4 caches "
        "(shared identities, callbacks that pop / re-add / clear), each followed by a drain; random: schedules over up to 40 caches with "
        "arbitrary delays, class filters, futures; oracle on all, model comparison in Coq on a sample; non-trivial = at least one pop or timeout"
        % (passes[0][1], passes[1][1], len(populations(ctx.quick))))
    ctx.coverage["exhaustive"] = False


def replay(path):
    from tools.vlib import repoenv
    repoenv.setup()
    js = json.load(open(path))
    rc = 0
    items = js.get("violations") or ([{"case": js, "key": js.get("key")}] if "cfg" in js else [])
    for v in items:
        c = v["case"]
        flat, obs, bad, st = run_impl(c["cfg"], c["ops"])
        print("population:", json.dumps(c["cfg"]))
        print("operations:", json.dumps(c["ops"]))
        for o in obs:
            if o[0] != "nop":
                print("   ", o)
        for k, w in bad:
            print("  FINDING %s: %s" % (k, w))
        rc |= int(bool(bad))
    for b in js.get("no_longer_checks", []):
        print("no longer checks:", b["what"])
        rc = 1
    return rc
