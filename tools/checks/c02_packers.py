"""C02/C03 extension - the byte-level core: the Packer classes and the Serializer methods themselves.

Stage G: tr_packers -> gen/G02_packers.v (pack / unpack of every registered Packer class, Flags, NodePacker and the
         Serializer methods, translated from the AST; live packer objects and shipped classes as data; fail closed)
Stage P: coq/props/C02y.v (the translated code REFINES the wire model M02_wire: same results, same accept/reject, for
         every registered format, all bytes, all offsets) - built by ctx.proofs(part="C02y").
Stage C: the translated functions evaluated inside Coq against the real packers / Serializer: generated legal values,
         all 256 `bits` bytes, truncations at every cut, over-claiming length fields, random bytes, offsets at and past
         the end, domain addresses followed by 0..3 bytes; shipped classes plain, truncated and with consume_all.
Oracle : stated directly on the implementation, per registered packer: decode(encode(v)) = v with the exact end offset
         at every offset; an accepted decode ends inside the buffer, not before its start, and (canonical formats)
         re-encodes to exactly the bytes it consumed - a truncated part is never accepted.

`translate(ctx)` / `stage(ctx, text)` are what tools/checks/c02.py calls; tools/checks/c02y.py runs them stand-alone."""
from __future__ import annotations

import json
import os
import struct

from tools.tr import tr_packers
from tools.vlib import coqrun, wire
from tools.vlib.coqrun import zl

FUEL = 24
IMPORTS = ("From Coq Require Import String Ascii.\nFrom Coq Require Import ZArith List Bool.\n"
           "From IPV8V Require Import lib.PyErr lib.Bytes model.M02_wire model.M02_oldstyle model.M02_packers_rt gen.G02_packers.\n"
           "Import ListNotations.\nOpen Scope Z_scope.\n"
           "Inductive pcase :=\n"
           "| PPack (n : bytes) (args : list val)\n"
           "| PUnpack (n : bytes) (data : bytes) (off : Z) (cargs : list pcls)\n"
           "| PPackSer (x : val)\n"
           "| PUnpackSer (c : pcls) (data : bytes) (off : Z)\n"
           "| PUnpackList (cs : list pcls) (data : bytes) (off : Z) (consume : bool).\n"
           "Definition pair_val (r : res (val * val)) : res val := match r with Ok (a, b) => Ok (VTuple [a; b]) | Raise e => Raise e end.\n"
           "Definition run_pcase (kc : list bytes * pcase) : res val :=\n"
           "  let R := run (keyset (fst kc)) ser_live %d in\n"
           "  match snd kc with\n"
           "  | PPack n args => bind (ser_find ser_live n) (fun p => r_pack R p args)\n"
           "  | PUnpack n data off cargs => bind (ser_find ser_live n) (fun p => pair_val (r_unpack R p (VBytes data) (VInt off) (VList []) cargs))\n"
           "  | PPackSer x => r_pack_serializable R x\n"
           "  | PUnpackSer c data off => r_unpack_serializable R c (VBytes data) (VInt off)\n"
           "  | PUnpackList cs data off consume => Serializer_unpack_serializable_list R ser_live cs (VBytes data) (VInt off) (VBool consume)\n"
           "  end.\n"
           "(* exception classes are not compared, but running out of fuel / leaving the modelled fragment never counts as raising *)\n"
           "Definition pres_eqb (a b : res val) : bool :=\n"
           "  match a, b with\n"
           "  | Ok x, Ok y => val_eqb x y\n"
           "  | Raise e, Raise _ => negb (exn_eqb e OutOfFuel)\n"
           "  | _, _ => false\n"
           "  end.\n" % FUEL)


# ------------------------------------------------------------------ Python values -> model terms
def cz(n):
    return str(n) if n >= 0 else "(%d)" % n


def addr_term(a):
    import socket
    from ipv8.messaging.interfaces.udp.endpoint import DomainAddress, UDPv4Address, UDPv6Address
    host, port = a[0], a[1]
    if isinstance(a, DomainAddress):
        return "(VAddr (ADom %s %s))" % (zl(host.encode()), cz(port))
    if isinstance(a, UDPv4Address):
        return "(VAddr (A4 %s %s))" % (zl(socket.inet_pton(socket.AF_INET, host)), cz(port))
    if isinstance(a, UDPv6Address):
        return "(VAddr (A6 %s %s))" % (zl(socket.inet_pton(socket.AF_INET6, host)), cz(port))
    return "(VAddr %s)" % wire.addr_coq(a)


def prim_term(p, x):
    k = p[0]
    if k in ("U", "S"):
        if isinstance(x, bool):
            return "(VBool %s)" % ("true" if x else "false")
        return "(VInt %s)" % cz(x)
    if k == "bool":
        return "(VBool %s)" % ("true" if x else "false") if isinstance(x, bool) else "(VInt %s)" % cz(x)
    if k in ("char", "bytes"):
        return "(VBytes %s)" % zl(x)
    if k == "F":
        return "(VFloat %d)" % wire.fbits(x, p[1])
    raise wire.Unsupported(p)


def raw_entries(fmts, args):
    """the entries of a raw unpack list (bits: eight entries) as terms"""
    out, i = [], 0
    args = list(args)
    for f in fmts:
        n = 8 if f[0] == "bits" else 1
        out.extend(unpack_entries(f, args[i:i + n]))
        i += n
    if i != len(args):
        raise wire.Unsupported("unpack list length")
    return out


def unpack_entries(d, lst):
    """what packer.unpack appended (lst) as terms"""
    k = d[0]
    if k == "bits":
        return ["(VInt %d)" % b for b in lst]
    x = lst[0]
    if k == "struct":
        if len(d[1]) == 1:
            return [prim_term(d[1][0], x)]
        return ["(VTuple [%s])" % "; ".join(prim_term(p, v) for p, v in zip(d[1], x))]
    if k == "raw":
        return ["(VBytes %s)" % zl(x)]
    if k == "varlen":
        return ["(VStr %s)" % zl(x.encode())] if d[3] else ["(VBytes %s)" % zl(x)]
    if k in ("ipv4", "addr"):
        return [addr_term(x)]
    if k == "flags":
        return ["(VList [%s])" % "; ".join("VInt %d" % v for v in x)]
    if k == "array":
        return ["(VList [%s])" % "; ".join(prim_term(d[1], v) for v in x)]
    if k == "node":
        return ["(VNode %s %s)" % (addr_term(x.address)[len("(VAddr "):-1], zl(x.public_key.key_to_bin()))]
    if k == "listof":
        return ["(VList [%s])" % "; ".join(unpack_entries(d[2], [y])[0] for y in x)]
    if k == "nested":
        return ["(VMsg [%s])" % "; ".join(raw_entries(d[1], x.args))]
    raise wire.Unsupported(d)


def leaf_term(x):
    if isinstance(x, bool):
        return "(VBool %s)" % ("true" if x else "false")
    if isinstance(x, int):
        return "(VInt %s)" % cz(x)
    if isinstance(x, (bytes, bytearray)):
        return "(VBytes %s)" % zl(x)
    if isinstance(x, str):
        return "(VStr %s)" % zl(x.encode())
    raise wire.Unsupported("leaf %r" % (x,))


def pack_args(d, args, reg):
    """the arguments of packer.pack(*args) as terms"""
    k = d[0]
    if k == "struct":
        return [prim_term(p, v) if p[0] == "F" else leaf_term(v) for p, v in zip(d[1], args)]
    if k == "bits":
        return [leaf_term(v) for v in args]
    x = args[0]
    if k in ("raw", "varlen"):
        return [leaf_term(x)]
    if k in ("ipv4", "addr"):
        return [addr_term(x)]
    if k == "flags":
        return ["(VList [%s])" % "; ".join(leaf_term(v) for v in x)]
    if k == "array":
        return ["(VList [%s])" % "; ".join(prim_term(d[1], v) if d[1][0] == "F" else leaf_term(v) for v in x)]
    if k == "node":
        return ["(VNode %s %s)" % (addr_term(x.address)[len("(VAddr "):-1], zl(x.public_key.key_to_bin()))]
    if k == "listof":
        return ["(VList [%s])" % "; ".join(pack_args(d[2], [y], reg)[0] for y in x)]
    if k == "nested":
        return [inst_term(x, reg)]
    raise wire.Unsupported(d)


def inst_term(inst, reg):
    """a Serializable instance on the pack side: its to_pack_list()"""
    rows = []
    for e in inst.to_pack_list():
        name, args = e[0], e[1:]
        d = reg[name]
        if d[0] == "payload":
            a = [inst_term(args[0], reg)]
        elif d[0] == "payload-list":
            a = ["(VList [%s])" % "; ".join(inst_term(y, reg) for y in args[0])]
        else:
            a = pack_args(d, args, reg)
        rows.append("(VTuple [(VStr %s); %s])" % (zl(name.encode()), "; ".join(a)) if a else "(VTuple [(VStr %s)])" % zl(name.encode()))
    return "(VMsg [%s])" % "; ".join(rows)


def cls_ident(c):
    return "cls_" + (c.__module__ + "." + c.__qualname__).replace(".", "_")


EXN_OK = ("PackError", "error", "IndexError", "TypeError", "ValueError", "KeyError", "OSError", "UnicodeDecodeError",
          "OverflowError", "AttributeError")


def attempt(fn):
    """(value, None) or (None, exception class name)"""
    try:
        return fn(), None
    except Exception as e:   # noqa
        n = type(e).__name__
        if n not in EXN_OK:
            raise
        return None, n


# ------------------------------------------------------------------ the oracle on the implementation
CANONICAL_SKIP = {"f", "d", "arrayH-d", "?", "arrayH-?", "varlenHutf8", "varlenIutf8"}   # several byte strings decode to equal values


def oracle_unpack(ctx, name, packer, d, data, off, extra, origin, case):
    """run packer.unpack on (data, off); check the clauses that hold for every input; returns (entries, off2) or None"""
    lst = []
    off2, err = attempt(lambda: packer.unpack(data, off, lst, *extra))
    if err is not None:
        return None
    if off <= len(data):
        if not off <= off2 <= len(data):
            ctx.violation("overread/%s" % name, "%s.unpack at offset %d of a %d-byte buffer accepts and reports end %d (%s)" % (
                name, off, len(data), off2, origin), case)
        elif name not in CANONICAL_SKIP and d[0] not in ("nested",) and not (d[0] == "listof" and d[2][0] == "nested"):
            multi = (d[0] == "struct" and len(d[1]) > 1) or d[0] == "bits"
            again, e2 = attempt(lambda: packer.pack(*(lst if d[0] == "bits" else lst[0])) if multi else packer.pack(lst[0]))
            if d[0] == "addr" and again is not None and again != data[off:off2]:
                pass   # a domain name that reads as an IP address re-encodes in the short form: legal
            elif d[0] == "flags" or d[0] == "raw":
                pass
            elif again is None or again != data[off:off2]:
                ctx.violation("truncated-accepted/%s" % name, "%s.unpack accepted %s (offset %d..%d) as %r, which encodes to %s (%s)" % (
                    name, data[off:off2].hex()[:60], off, off2, lst[:1], (again or b"").hex()[:60] if again is not None else e2, origin), case)
    return lst, off2


# ------------------------------------------------------------------ the stage
def translate(ctx):
    try:
        text = tr_packers.write()
        ctx.extra.setdefault("generated", {})["gen/G02_packers.v"] = len(text)
        return text
    except Exception as e:   # fail closed
        ctx.broke("translator tr_packers aborted", repr(e))
        return None


def stage(ctx, text="unset"):
    from ipv8.keyvault.crypto import default_eccrypto
    from tools.checks import c02
    from tools.tr import tr_wire
    if text == "unset":
        text = translate(ctx)
    r = ctx.rng("packers")
    ser = wire.make_serializer()
    reg = wire.registry_for_harness(ctx, ser)
    keys = [default_eccrypto.generate_key("curve25519").pub().key_to_bin() for _ in range(3)]
    gen_class = c02.make_gen_class(reg, keys)
    classes = [c for c in tr_wire.shipped_classes() if c.format_list]
    sample_nested = [c for c in classes if c.__name__ in ("IntroductionInfo", "SignedStrPayload", "PingPayload", "RendezvousInfo")]
    cases = []      # (keys list, case term, expected term, description)
    import time as _t
    t0 = _t.time()
    N = 6 if ctx.quick else 60

    def add(kl, term, value, err, desc):
        exp = "Raise PackError" if err is not None else "Ok %s" % value
        extra_keys = [k for k in kl if k not in keys]
        kt = "k_" if not extra_keys else "(k_ ++ [%s])" % "; ".join(zl(k) for k in extra_keys)
        cases.append(("(%s, %s)" % (kt, term), exp, desc))

    def unpack_case(name, packer, d, data, off, extra, cargs, origin):
        case = {"kind": "packer-unpack", "name": name, "data": data.hex(), "offset": off, "origin": origin,
                "cls": _real_name(extra)}
        got = oracle_unpack(ctx, name, packer, d, data, off, extra, origin, case)
        kl = list(keys)
        if got is not None and d[0] in ("node", "listof"):
            for x in (got[0][0] if d[0] == "listof" else got[0]):
                if hasattr(x, "public_key"):
                    kl.append(x.public_key.key_to_bin())
        term = "PUnpack %s %s %s [%s]" % (zl(name.encode()), zl(data), cz(off), cargs)
        if got is None:
            add(kl, term, None, "x", ("unpack/" + name, json.dumps(case)[:900]))
        else:
            add(kl, term, "(VTuple [(VList [%s]); (VInt %d)])" % ("; ".join(unpack_entries(d, got[0])), got[1]), None,
                ("unpack/" + name, json.dumps(case)[:900]))
        ctx.count(("unpack", name, data, off), nontrivial=got is not None)
        return got

    # ---- A: every registered packer
    for name, d0 in reg.items():
        packer = ser._packers[name]
        for i in range(N):
            d, extra, cargs = d0, (), ""
            if d0[0] in ("payload", "payload-list"):
                cls = r.choice(sample_nested)
                nd = ("nested", wire.class_fmts(cls, reg), cls)
                d = nd if d0[0] == "payload" else ("listof", d0[1], nd)
                extra, cargs = (wire.shim(cls),), cls_ident(cls)
            v = wire.gen_value(r, d, keys, 0, gen_class)
            if d[0] == "addr" and not d[1] and i % 3 == 0:
                v = (r.choice(["tribler.org", "localhost", "a", "hé.example", ""]), wire.gen_int(r, 0, 65536))
            multi = (d[0] == "struct" and len(d[1]) > 1) or d[0] == "bits"
            args = list(v) if multi else [v]
            bs, perr = attempt(lambda: packer.pack(*args))
            case = {"kind": "packer-pack", "name": name, "value": repr(v)[:300]}
            if bs is not None and len(bs) > 1500:
                continue
            add(keys, "PPack %s [%s]" % (zl(name.encode()), "; ".join(pack_args(d, args, reg))),
                "(VBytes %s)" % zl(bs) if bs is not None else None, perr, ("pack/" + name, json.dumps(case)[:600]))
            if bs is None:
                ctx.violation("pack-refused/%s" % name, "legal value %r of format %s cannot be packed: %s" % (v, name, perr), case)
                continue
            # round trip at offsets, with 0..3 trailing bytes
            for sl in ([0, 1, 2, 3] if d[0] in ("addr", "nested") or i == 0 else [r.choice([0, 1, 2, 3, 7])]):
                if d[0] == "raw" and sl:
                    continue
                pre = r.randbytes(r.choice([0, 1, 23, 5]))
                data = pre + bs + r.randbytes(sl)
                got = unpack_case(name, packer, d, data, len(pre), extra, cargs, "encoding of a legal value + %d bytes" % sl)
                rcase = {"kind": "packer-roundtrip", "name": name, "data": data.hex(), "offset": len(pre), "nbytes": len(bs),
                         "cls": _real_name(extra), "value": repr(v)[:200]}
                if got is None:
                    ctx.violation("decode-fails/%s" % name, "%s: the encoding of %r followed by %d bytes is refused" % (name, v, sl), rcase)
                else:
                    again = unpack_entries(d, got[0])
                    want = unpack_entries(d, _as_unpacked(d, args, reg))
                    if again != want:
                        ctx.violation("roundtrip-value/%s" % name, "%s: %r decodes to %r" % (name, v, got[0][:2]), rcase)
                    if got[1] != len(pre) + len(bs):
                        ctx.violation("roundtrip-offset/%s" % name, "%s: %d bytes at offset %d, decode reports end %d" % (
                            name, len(bs), len(pre), got[1]), rcase)
            # malformed: truncations at every cut, over-claiming length fields, past-the-end offsets
            if i < 2 or (d[0] in ("addr", "nested", "node") and i < 4):
                cuts = range(len(bs)) if len(bs) <= 80 else sorted(r.sample(range(len(bs)), 40))
                for c in cuts:
                    unpack_case(name, packer, d, bs[:c], 0, extra, cargs, "truncated to %d of %d bytes" % (c, len(bs)))
                if i < 1:
                    pre = r.randbytes(3)
                    for c in (list(range(len(bs))) if len(bs) <= 24 else sorted(r.sample(range(len(bs)), 16))):
                        unpack_case(name, packer, d, pre + bs[:c], 3, extra, cargs, "truncated to %d of %d bytes at offset 3" % (c, len(bs)))
            for w in (1, 2, 4):
                if len(bs) >= w and d[0] in ("varlen", "listof", "nested", "array", "node", "addr"):
                    skip = 1 if d[0] == "addr" else 0
                    for delta in (1, 2, 3, 255):
                        b2 = bytearray(bs)
                        n0 = int.from_bytes(b2[skip:skip + w], "big")
                        if n0 + delta < 256 ** w:
                            b2[skip:skip + w] = (n0 + delta).to_bytes(w, "big")
                            unpack_case(name, packer, d, bytes(b2), 0, extra, cargs, "length field +%d (width %d)" % (delta, w))
            unpack_case(name, packer, d, bs, len(bs), extra, cargs, "offset at the end")
            unpack_case(name, packer, d, bs, len(bs) + 1, extra, cargs, "offset past the end")
        for j in range(N):
            data = r.randbytes(r.choice([0, 1, 2, 3, 6, 7, 8, 19, 30]))
            d, extra, cargs = d0, (), ""
            if d0[0] in ("payload", "payload-list"):
                cls = r.choice(sample_nested)
                nd = ("nested", wire.class_fmts(cls, reg), cls)
                d = nd if d0[0] == "payload" else ("listof", d0[1], nd)
                extra, cargs = (wire.shim(cls),), cls_ident(cls)
            if d[0] in ("addr", "node") or (d[0] == "listof" and d[2][0] == "node"):
                data = bytes([r.choice([1, 1, 2, 3, 0, 9])]) + data      # a plausible address type
            unpack_case(name, packer, d, data, r.choice([0, 0, 1]), extra, cargs, "random bytes")
    # all 256 values of a `bits` byte
    if "bits" in reg:
        for b in range(256):
            got = unpack_case("bits", ser._packers["bits"], reg["bits"], bytes([b]), 0, (), "", "bits byte %d" % b)
            case = {"kind": "packer-roundtrip", "name": "bits", "data": "%02x" % b, "offset": 0, "nbytes": 1, "cls": None}
            if got is None:
                ctx.violation("decode-fails/bits", "the byte 0x%02x cannot be decoded by the bits packer" % b, case)
            elif ser._packers["bits"].pack(*got[0]) != bytes([b]) or got[1] != 1:
                ctx.violation("roundtrip-value/bits", "the byte 0x%02x decodes to %r" % (b, got[0]), case)

    # ---- B: the Serializer on shipped classes
    M = 3 if ctx.quick else 30
    for cls in classes:
        fmts = wire.class_fmts(cls, reg)
        shim = wire.shim(cls)
        for i in range(M):
            inst = gen_class(r, cls)
            bs, perr = attempt(lambda: ser.pack_serializable(inst))
            if bs is not None and len(bs) > 1500:
                continue
            case = {"kind": "serializer", "cls": cls.__module__ + "." + cls.__name__}
            add(keys, "PPackSer %s" % inst_term(inst, reg), "(VBytes %s)" % zl(bs) if bs is not None else None, perr,
                ("pack_serializable/" + cls.__name__, json.dumps(case)))
            if bs is None:
                continue
            ctx.count(("ser", cls.__name__, bs), nontrivial=len(bs) > 0)
            pre = r.randbytes(r.choice([0, 23, 2]))
            variants = [(pre + bs, len(pre), "plain")]
            if (len(bs) <= 60 and i < 2) or i == 0:
                variants += [(bs[:c], 0, "truncated to %d" % c) for c in (range(len(bs)) if len(bs) <= 60 else sorted(r.sample(range(len(bs)), 30)))]
            variants.append((bs + b"\x00", 0, "one extra byte"))
            for data, off, origin in variants:
                c2 = dict(case, data=data.hex(), offset=off, origin=origin)
                got, err = attempt(lambda: ser.unpack_serializable(shim, data, off))
                kl = list(keys) + _node_keys(got[0].args if got else [])
                add(kl, "PUnpackSer %s %s %s" % (cls_ident(cls), zl(data), cz(off)),
                    "(VTuple [(VMsg [%s]); (VInt %d)])" % ("; ".join(raw_entries(fmts, got[0].args)), got[1]) if got else None, err,
                    ("unpack_serializable/" + cls.__name__, json.dumps(c2)[:900]))
                if got is not None and off <= len(data) and not off <= got[1] <= len(data):
                    ctx.violation("overread/%s" % cls.__name__, "unpack_serializable(%s) of %d bytes at %d accepts and reports end %d (%s)" % (
                        cls.__name__, len(data), off, got[1], origin), c2)
                for consume in (True, False):
                    got2, err2 = attempt(lambda: ser.unpack_serializable_list([shim], data, off, consume_all=consume))
                    if got2 is not None:
                        items = ["(VMsg [%s])" % "; ".join(raw_entries(fmts, got2[0].args))] + ["(VBytes %s)" % zl(x) for x in got2[1:]]
                        kl = list(keys) + _node_keys(got2[0].args)
                    add(kl, "PUnpackList [%s] %s %s %s" % (cls_ident(cls), zl(data), cz(off), "true" if consume else "false"),
                        "(VList [%s])" % "; ".join(items) if got2 is not None else None, err2,
                        ("unpack_serializable_list/" + cls.__name__, json.dumps(dict(c2, consume_all=consume))[:900]))
                    tail = len(inst.to_pack_list()[-1][1]) if fmts[-1][0] == "raw" else 0
                    if consume and got2 is not None and origin.startswith("truncated") and len(data) < len(bs) - tail:
                        ctx.violation("truncated-accepted/%s" % cls.__name__, "unpack_serializable_list accepts %s %s (%d of %d bytes)" % (
                            cls.__name__, origin, len(data), len(bs)), c2)
    ctx.extra["packers_cases"] = len(cases)
    ctx.extra["packers_gen_s"] = round(_t.time() - t0, 1)
    ctx.extra["packers_registered"] = len(reg)
    if text is None:
        return
    ok, log, cmd, dt = coqrun.make(["gen/G02_packers.vo"])
    if not ok:
        ctx.broke("generated code gen/G02_packers.v does not compile", log[-3000:])
        return
    mism, errs = coqrun.eval_mismatches(IMPORTS, "run_pcase", "pres_eqb", [(c, e) for c, e, _ in cases],
                                        os.path.join(ctx.scratch, "packers"), ctype="(list bytes * pcase) * res val",
                                        shard=400, jobs=14, max_bytes=200000,
                                        preamble="Definition k_ : list bytes := [%s]." % "; ".join(zl(k) for k in keys))
    ctx.extra["packers_coq_s"] = round(_t.time() - t0 - ctx.extra["packers_gen_s"], 1)
    for e in errs:
        ctx.broke("model evaluation failed (packers)", e)
    kinds = {}
    for i in mism:
        k = cases[i][2][0]
        kinds[k] = kinds.get(k, 0) + 1
        if kinds[k] <= 2 and sum(1 for x in kinds.values() if x) <= 12:
            ctx.broke("correspondence (packers/%s): translated code and implementation differ" % k,
                      cases[i][2][1] + "\ncase: " + cases[i][0][:700] + "\nimplementation: " + cases[i][1][:500])
    ctx.coverage["traces_validated_against_impl"] += len(cases) - len(mism)
    ctx.extra["packers_mismatches"] = len(mism)
    ctx.coverage["trusted_base"] = list(ctx.coverage["trusted_base"]) + [
        "tools/tr/tr_packers.py: Python AST of the Packer classes / Serializer methods -> Gallina (fail closed); CPython "
        "struct / socket.inet_* / array / str codecs / dict lookup as modelled in coq/model/M02_packers_rt.v; tied by this "
        "run's correspondence on generated and malformed inputs"]


def _real_name(extra):
    """qualified name of the class a shim argument stands for"""
    if not extra:
        return None
    for real, sh in wire._shims.items():
        if sh is extra[0]:
            return real.__module__ + "." + real.__name__
    return extra[0].__name__


def _node_keys(args):
    out = []
    for a in args:
        for x in (a if isinstance(a, list) else [a]):
            if hasattr(x, "public_key"):
                out.append(x.public_key.key_to_bin())
            elif hasattr(x, "args"):
                out.extend(_node_keys(x.args))
    return out


def _as_unpacked(d, args, reg):
    """the unpack-list entries a faithful decode of pack(*args) appends (Python values)"""
    k = d[0]
    if k == "bits":
        return [1 if a else 0 for a in args]
    if k == "struct" and len(d[1]) > 1:
        return [tuple(args)]
    x = args[0]
    if k in ("ipv4", "addr"):
        return [_addr_obj(x)]
    if k == "listof":
        return [[_as_unpacked(d[2], [y], reg)[0] for y in x]]
    if k == "nested":
        return [_raw_of(x, d, reg)]
    return [x]


def _addr_obj(a):
    import socket
    from ipv8.messaging.interfaces.udp.endpoint import DomainAddress, UDPv4Address, UDPv6Address
    for fam, cls in ((socket.AF_INET, UDPv4Address), (socket.AF_INET6, UDPv6Address)):
        try:
            socket.inet_pton(fam, a[0])
            return cls(a[0], a[1])
        except OSError:
            pass
    return DomainAddress(a[0], a[1])


def _raw_of(inst, d, reg):
    """the RawMsg a faithful decode of a packed instance yields"""
    args = []
    for e, f in zip(inst.to_pack_list(), d[1]):
        vals = _as_unpacked(f, list(e[1:]), reg)
        args.extend(vals)
    return wire.RawMsg(args)


def replay_case(c):
    """re-run one recorded witness on the implementation; 1 if it still fails"""
    ser = wire.make_serializer()
    reg = wire.registry(ser, strict=False)

    class Rec:
        def __init__(self):
            self.v = []

        def violation(self, key, what, case):
            self.v.append((key, what))
    rec = Rec()
    data = bytes.fromhex(c.get("data", ""))
    if c["kind"] in ("packer-unpack", "packer-roundtrip"):
        name = c["name"]
        d, extra = reg[name], ()
        if d[0] in ("payload", "payload-list"):
            from tools.tr import tr_wire
            cls = [k for k in tr_wire.shipped_classes() if k.__module__ + "." + k.__name__ == c["cls"]][0]
            nd = ("nested", wire.class_fmts(cls, reg), cls)
            d, extra = (nd if d[0] == "payload" else ("listof", d[1], nd)), (wire.shim(cls),)
        got = oracle_unpack(rec, name, ser._packers[name], d, data, c["offset"], extra, c.get("origin", ""), c)
        print("  %s.unpack(%s, %d) -> %s" % (name, data.hex()[:80], c["offset"], "raises" if got is None else (repr(got[0])[:120], got[1])))
        if c["kind"] == "packer-roundtrip":
            if got is None:
                rec.v.append(("decode-fails/%s" % name, "refused"))
            elif got[1] != c["offset"] + c["nbytes"]:
                rec.v.append(("roundtrip-offset/%s" % name, "end %d" % got[1]))
    elif c["kind"] == "serializer":
        import importlib
        mod, _, nm = c["cls"].rpartition(".")
        cls = getattr(importlib.import_module(mod), nm)
        got, err = attempt(lambda: ser.unpack_serializable(wire.shim(cls), data, c["offset"]))
        print("  unpack_serializable(%s, %s, %d) -> %s" % (nm, data.hex()[:80], c["offset"], err or got[1]))
        if got is not None and not c["offset"] <= got[1] <= len(data):
            rec.v.append(("overread/%s" % nm, "end %d of %d" % (got[1], len(data))))
        if got is not None and c.get("origin", "").startswith("truncated"):
            got2, _ = attempt(lambda: ser.unpack_serializable_list([wire.shim(cls)], data, c["offset"]))
            if got2 is not None:
                rec.v.append(("truncated-accepted/%s" % nm, "accepted"))
    for k, w in rec.v:
        print("  STILL FAILS:", k, "::", w)
    return 1 if rec.v else 0
