"""C01 - signed handlers run only for authentic, untampered datagrams.

Stage G: tr_handlers (live handler tables of every shipped overlay) -> gen/G01_handlers.v ; tr_wire
Stage P: props/C01.v
Stage C: real signed datagrams (protocol runs between two nodes + one synthesised per authenticated id) are
         mutated (bit flips, truncation, extension, key substitution with re-signing by the wrong key,
         signature transplant, payload splice, prefix / message-id swap, replay into every other overlay)
         and delivered through Endpoint.notify_listeners; the real decorator's outcome is compared with the
         model's wrapper_signed, whose signature oracle is answered by the real primitive on the slices the
         MODEL prescribes.
Oracle : a decorated handler body entered with Peer p for datagram d  =>  d ends in a signature valid under
         p's key over all preceding bytes, and p's key is the key field of d (checked with the key vault
         directly, independently of ipv8's own slicing); the verified-peer set grows only by such keys.
"""
from __future__ import annotations

import asyncio
import json
import os

from tools.checks import c02, c03
from tools.tr import tr_handlers, tr_wire
from tools.vlib import coqrun, simnet, wire
from tools.vlib.coqrun import zl

IMPORTS = ("From Coq Require Import ZArith List Bool.\n"
           "From IPV8V Require Import lib.PyErr lib.Bytes model.M02_wire model.M01_auth.\n"
           "Import ListNotations.\nOpen Scope Z_scope.\n")


def independent_auth(data):
    """Is `data` = signed part ++ signature under the key carried at offset 23?  Uses the key vault only."""
    from ipv8.keyvault.crypto import default_eccrypto as ec
    if len(data) < 25:
        return False, None
    klen = int.from_bytes(data[23:25], "big")
    pk = data[25:25 + klen]
    if len(pk) != klen:
        return False, None
    try:
        key = ec.key_from_public_bin(pk)
        n = ec.get_signature_length(key)
    except Exception:   # noqa
        return False, pk
    if n <= 0 or len(data) < 25 + klen + n:
        return False, pk
    try:
        return bool(ec.is_valid_signature(key, data[:-n], data[-n:])), pk
    except Exception:   # noqa
        return False, pk


class AuthNode(c03.Node):
    """a node whose decorated handler bodies (the functions under the decorators) are spied upon"""

    def __init__(self, net, addr, classes):
        super().__init__(net, addr, classes)
        self.bodies = []   # (overlay, msg id, first argument, payload args)
        refs = tr_handlers.reference_codes()
        self.kinds = {}
        self._patched = []
        for ov in self.overlays:
            for mid in range(256):
                h = ov.decode_map[mid]
                if h is None:
                    continue
                # the spy installed by c03.Node wraps the bound handler; find the decorator function below it
                f = h
                while hasattr(f, "__closure__") and f.__closure__ and getattr(f, "__code__", None) not in refs \
                        and not hasattr(f, "__func__"):
                    inner = [c.cell_contents for c in f.__closure__ if callable(c.cell_contents)]
                    inner = [x for x in inner if hasattr(x, "__func__") or hasattr(x, "__code__")]
                    if not inner:
                        break
                    f = inner[0]
                f = getattr(f, "__func__", f)
                chain = [f]
                while hasattr(chain[-1], "__wrapped__"):
                    chain.append(chain[-1].__wrapped__)
                deco = next((g for g in chain if g.__code__ in refs), None)
                if deco is None:
                    self.kinds[(id(ov), mid)] = ("raw", ())
                    continue
                kind = refs[deco.__code__]
                cells = dict(zip(deco.__code__.co_freevars, deco.__closure__))
                payloads = tuple(cells["payloads"].cell_contents) if "payloads" in cells else ()
                self.kinds[(id(ov), mid)] = (kind, payloads)
                if "func" in cells and not getattr(cells["func"].cell_contents, "_verif_spy", False):
                    orig = cells["func"].cell_contents

                    def spy(self_, first, *args, _orig=orig, _node=self, **kw):
                        _node_list = getattr(self_, "_verif_bodies", None)
                        if _node_list is not None:
                            _node_list.append((id(self_), _orig.__name__, first, args))
                        return _orig(self_, first, *args, **kw)
                    spy._verif_spy = True
                    spy.__name__ = getattr(orig, "__name__", "handler")
                    cells["func"].cell_contents = spy
                    self._patched.append((cells["func"], orig))
            ov._verif_bodies = self.bodies

    def restore(self):
        for cell, orig in self._patched:
            cell.cell_contents = orig

    def feed_from(self, src, data):
        del self.events[:]
        del self.bodies[:]
        try:
            self.ep.inject(src, data)
            esc = None
        except Exception as e:   # noqa
            esc = type(e).__name__
        return esc, list(self.events), list(self.bodies)


def mutations(r, d, others, wrong_key, quick, special_pubs=()):
    """named mutants of a valid signed datagram d"""
    out = []
    n = len(d)
    if quick:
        pos = sorted(set(r.randrange(n * 8) for _ in range(40)))
    else:   # every bit of the header (prefix, message id, start of the key field), a sample of the signature and of the rest
        pos = sorted(set(list(range(min(n, 30) * 8)) + [r.randrange(max(0, n - 64) * 8, n * 8) for _ in range(64)] +
                         [r.randrange(n * 8) for _ in range(150)]))
    for p in pos:
        b = bytearray(d)
        b[p // 8] ^= 1 << (p % 8)
        out.append(("bitflip", bytes(b)))
    edge = [0, 22, 23, 24, 25, n - 65, n - 64, n - 63, n - 1]
    cuts = sorted(set(edge + [r.randrange(n) for _ in range(20 if quick else 70)]))
    for k in cuts:
        out.append(("truncate", d[:k]))
    if n >= 64:   # extensions that end with a copy of the datagram's own signature (or repeat it): the original signature is
        # then no longer the last 64 bytes of what must be covered, so nothing authenticates the inserted bytes
        sig = d[-64:]
        out.append(("extend-own-signature", d + sig))
        out.append(("extend-bytes-then-own-signature", d + r.randbytes(24) + sig))
        out.append(("insert-before-signature-copy", d[:-64] + sig + r.randbytes(8) + sig))
    for extra in (b"\x00", b"\xff" * 3, r.randbytes(64)):
        out.append(("extend", d + extra))
        out.append(("insert", d[:30] + extra + d[30:]))
    # key substitution: replace the key field by another key and re-sign with THAT key's owner? no: with the wrong private key
    from ipv8.keyvault.crypto import default_eccrypto as ec
    klen = int.from_bytes(d[23:25], "big")
    body_end = n - 64
    other_pub = wrong_key.pub().key_to_bin()
    if klen == len(other_pub):
        sub = d[:25] + other_pub + d[25 + klen:body_end]
        out.append(("key-substituted-old-signature", sub + d[body_end:]))
        # signed by a key that is NOT the one in the datagram
        out.append(("signed-by-other-key", d[:body_end] + ec.create_signature(wrong_key, d[:body_end])))
        out.append(("key-substituted-resigned", sub + ec.create_signature(wrong_key, sub)))   # authentic for the OTHER key: must be attributed to it
    # key substitution by keys that are special to the RECEIVER (its own key, keys of peers it has verified): nobody but their
    # owners can sign for them, so whatever signature follows (the stale one, random bytes, a third party's) must be refused
    for label, pub in special_pubs:
        if klen == len(pub) and pub != d[25:25 + klen]:
            sub = d[:25] + pub + d[25 + klen:body_end]
            out.append(("key-substituted-%s-old-signature" % label, sub + d[body_end:]))
            out.append(("key-substituted-%s-random-signature" % label, sub + r.randbytes(64)))
            out.append(("key-substituted-%s-signed-by-other-key" % label, sub + ec.create_signature(wrong_key, sub)))
            if body_end > 25 + klen + 2:
                tam = bytearray(sub)
                tam[r.randrange(25 + klen, body_end)] ^= 0x20
                out.append(("key-substituted-%s-body-tampered" % label, bytes(tam) + d[body_end:]))
    # hybrid curve25519 identities sharing one half of the victim's key material (LibNaCLPK: + 32-byte encryption key +
    # 32-byte signing key): first an AUTHENTIC datagram under the hybrid key (the attacker owns its signing half), then the
    # victim's own key with the attacker's signature - anything remembered per key half must not carry over
    vpub = d[25:25 + klen]
    if klen == len(other_pub) == 74 and vpub.startswith(b"LibNaCLPK:") and other_pub.startswith(b"LibNaCLPK:"):
        hyb = vpub[:42] + other_pub[42:]
        subh = d[:25] + hyb + d[25 + klen:body_end]
        out.append(("hybrid-key-resigned", subh + ec.create_signature(wrong_key, subh)))      # authentic for the hybrid key
        out.append(("signed-by-other-key-after-hybrid-priming", d[:body_end] + ec.create_signature(wrong_key, d[:body_end])))
        # the same with a victim identity the receiver has never heard of (nothing about it can be cached yet)
        fresh = ec.generate_key("curve25519").pub().key_to_bin()
        hybf = fresh[:42] + other_pub[42:]
        subhf = d[:25] + hybf + d[25 + klen:body_end]
        subf = d[:25] + fresh + d[25 + klen:body_end]
        out.append(("fresh-hybrid-key-resigned", subhf + ec.create_signature(wrong_key, subhf)))   # authentic for the hybrid key
        out.append(("fresh-victim-key-signed-by-other-key-after-hybrid-priming", subf + ec.create_signature(wrong_key, subf)))
        hyb2 = other_pub[:42] + vpub[42:]
        subh2 = d[:25] + hyb2 + d[25 + klen:body_end]
        out.append(("hybrid-key-with-victims-signing-half-old-signature", subh2 + d[body_end:]))
    for o in others[:6]:
        if len(o) >= 64:
            out.append(("signature-transplant", d[:body_end] + o[-64:]))
            out.append(("payload-splice", d[:25 + klen] + o[25 + klen:len(o) - 64] + d[body_end:]))
            out.append(("prefix-swap", o[:22] + d[22:]))
            out.append(("msgid-swap", d[:22] + o[22:23] + d[23:]))
    for mid in (0, 1, 3, 245, 246, 250, 255, (d[22] + 1) % 256):
        out.append(("msgid-set", d[:22] + bytes([mid]) + d[23:]))
    return out


def run(ctx):
    import logging
    logging.disable(logging.CRITICAL)
    try:
        ttext, rows = tr_handlers.write()
        wtext = tr_wire.write()
        ctx.extra["handler_rows"] = len(rows)
    except Exception as e:
        ctx.broke("translator tr_handlers / tr_wire aborted", repr(e))
        ttext = None
    ctx.proofs() if ttext is not None else None
    # extension: the decorators translated from the AST (gen/G01_auth.v), theorems in props/C01x.v
    from tools.checks import c01_auth_gen
    xtext = c01_auth_gen.translate(ctx) if ttext is not None else None
    if xtext is not None:
        ctx.proofs(part="C01x")
    ctx.coverage["trusted_base"] = [
        "Coq 8.16.1 kernel; no axioms",
        "signature scheme (verify, siglen) is a Section variable: unforgeability of the Rust/libsodium primitive is assumed, not proved",
        "tr_handlers: live introspection of the handler tables; hand model M01_auth of the decorators tied by this run's correspondence",
        "handlers registered without a lazy_wrapper decorator (raw_handlers in G01: tunnel cell dispatch, deprecated ids, "
        "DiscoveryCommunity's hand-parsed 246) are outside the decorator theorem; their entries are observed by the oracle only",
    ]
    ctx.assumptions = ["the verified-peer index files every peer under its own key (C12 invariant)"]
    loop = asyncio.new_event_loop()
    asyncio.set_event_loop(loop)
    try:
        loop.run_until_complete(_run(ctx, ttext))
    finally:
        loop.close()
    c01_auth_gen.stage(ctx, text=xtext)


async def _run(ctx, ttext):
    from ipv8.keyvault.crypto import default_eccrypto as ec
    from ipv8.messaging.anonymization.community import TunnelCommunity
    from ipv8.peer import Peer
    r = ctx.rng("main")
    ser = wire.make_serializer()
    reg = wire.registry_for_harness(ctx, ser)
    vkeys = [ec.generate_key("curve25519").pub().key_to_bin() for _ in range(2)]
    gen_class = c02.make_gen_class(reg, vkeys)
    classes = c03.overlay_classes()
    net = simnet.SimNet()
    A = AuthNode(net, ("10.0.0.1", 1000), classes)
    B = AuthNode(net, ("10.0.0.2", 1000), classes)
    wrong_key = ec.generate_key("curve25519")
    # ---- valid datagrams: protocol runs + one synthesised per authenticated id
    for a, b in zip(A.overlays, B.overlays):
        try:
            a.walk_to(b.my_peer.address)
        except Exception:   # noqa
            pass
    await net.pump()
    valid = []   # (overlay index at receiver B, datagram, source address)
    prefix_to_idx = {ov.get_prefix(): i for i, ov in enumerate(B.overlays)}
    for (src, dst, d) in net.log:
        if dst == B.ep.addr and d[:22] in prefix_to_idx:
            i = prefix_to_idx[d[:22]]
            kind = B.kinds.get((id(B.overlays[i]), d[22] if len(d) > 22 else -1), ("raw", ()))[0]
            if kind == "signed" or (kind == "raw" and independent_auth(d)[0]):
                # also hand-parsed handlers of authenticated messages (e.g. DiscoveryCommunity's 246)
                valid.append((i, d, src, "captured"))
    covered = {(i, d[22]) for i, d, _, _ in valid}
    total_ids = 0
    for i, (a, b) in enumerate(zip(A.overlays, B.overlays)):
        for mid in range(256):
            kind, payloads = B.kinds.get((id(b), mid), ("raw", ()))
            if kind != "signed":
                continue
            total_ids += 1
            reps = 1
            for _ in range(reps):
                try:
                    insts = [gen_class(r, p) for p in payloads]
                    d = a.ezr_pack(mid, *insts)
                except Exception:   # noqa
                    continue
                if len(d) <= 1400:
                    valid.append((i, d, A.ep.addr, "synthesised"))
    ctx.extra["authenticated_ids"] = total_ids
    ctx.extra["valid_datagrams"] = len(valid)
    ctx.extra["captured_signed"] = sum(1 for v in valid if v[3] == "captured")

    cases, meta = [], []
    stats = {"entered": 0, "rejected": 0, "by_mutation": {}}
    all_valid_bytes = [v[1] for v in valid]
    # fresh receiver for each datagram family would be cleanest; handler bodies may change state, so the
    # verified set is compared before/after every delivery instead
    for (i, d, src, how) in valid:
        ov = B.overlays[i]
        kind, payloads = B.kinds.get((id(ov), d[22]), ("raw", ()))
        fmts = []
        for p in payloads:
            fmts.extend(wire.class_fmts(p, reg))
        fcoq = "[" + "; ".join(wire.fmt_coq(f) for f in fmts) + "]"
        others = [o for o in all_valid_bytes if o is not d]
        r.shuffle(others)
        special = [("receivers-own-key", ov.my_peer.public_key.key_to_bin())]
        special += [("verified-peers-key", p.public_key.key_to_bin()) for p in list(ov.network.verified_peers)[:1]]
        muts = [("unmutated", d)] + mutations(r, d, others, wrong_key, ctx.quick, special)
        # replay into every other overlay of the receiver
        for j, ov2 in enumerate(B.overlays):
            if j != i:
                muts.append(("replay-into-other-overlay", ov2.get_prefix() + d[22:]))
        for (mname, md, known_mode) in [(a, b, km) for j, (a, b) in enumerate(muts) for km in (False, True)
                                        if not km or ctx.quick or a not in ("bitflip", "truncate") or j % 3 == 0]:
            # mode 1: forget the peers named by the datagram's key field (in every overlay of the receiver), so that a
            # verified-peer entry created by this very datagram is observable;
            # mode 2: the named key already is a verified peer of the receiver (at another address): an unauthentic
            # datagram naming it must still not reach a handler, nor move that peer's address
            kf = independent_auth(md)[1]
            for o2 in B.overlays:
                nw = o2.network
                for p in [p for p in list(nw.verified_peers) if p.public_key.key_to_bin() == kf]:
                    nw.remove_peer(p)
                nw.verified_by_public_key_bin.pop(kf, None)
            known_peers = []
            if known_mode:
                try:
                    for o2 in B.overlays:
                        kp = Peer(kf, ("10.9.9.9", 999))
                        o2.network.add_verified_peer(kp)
                        known_peers.append(kp)
                except Exception:   # noqa - the key field is not a key the vault accepts: nothing to know
                    continue
                mname = mname + "+known-peer"
            before = {p.public_key.key_to_bin() for p in B.overlays[i].network.verified_peers}
            esc, evs, bodies = B.feed_from(src, md)
            await asyncio.sleep(0)
            auth_ok, pk_field = independent_auth(md)
            ctx.count(("c01", md), nontrivial=len(md) > 23)
            stats["by_mutation"][mname] = stats["by_mutation"].get(mname, 0) + 1
            m = {"kind": "datagram", "mutation": mname, "data": md.hex(), "src": list(src), "overlay": type(ov).__name__}
            entered_signed = False
            for (ovid, fname, first, args) in bodies:
                if isinstance(first, Peer):
                    entered_signed = True
                    hk = first.public_key.key_to_bin()
                    if not auth_ok:
                        ctx.violation("unauthentic-datagram-enters-signed-handler/%s" % mname,
                                      "%s.%s entered with Peer %s for a datagram without a valid signature (%s)" % (
                                          type(ov).__name__, fname, hk.hex()[:16], mname), m)
                    elif hk != pk_field:
                        ctx.violation("peer-key-differs-from-datagram-key/%s" % mname,
                                      "%s.%s entered with Peer key %s but the datagram carries key %s" % (
                                          type(ov).__name__, fname, hk.hex()[:16], pk_field.hex()[:16]), m)
            stats["entered" if entered_signed else "rejected"] += 1
            after_all = set()
            for o2 in B.overlays:
                after_all |= {p.public_key.key_to_bin() for p in o2.network.verified_peers}
            after = {p.public_key.key_to_bin() for p in B.overlays[i].network.verified_peers}
            for newk in after - before:
                if not (auth_ok and newk == pk_field):
                    ctx.violation("verified-peer-without-signature/%s" % mname,
                                  "key %s became a verified peer through a datagram not signed by it" % newk.hex()[:16], m)
            if known_peers and not auth_ok:
                for kp in known_peers:
                    if kp.address != ("10.9.9.9", 999):
                        ctx.violation("verified-peer-address-moved-without-signature/%s" % mname,
                                      "the verified peer %s was moved to %r by a datagram without a valid signature" % (
                                          kf.hex()[:16], kp.address), m)
                        break
            if mname.startswith("unmutated") and not entered_signed and kind == "signed":
                ctx.violation("authentic-datagram-rejected", "a valid %s datagram (%s) did not reach its handler" % (type(ov).__name__, how), m)
            # correspondence with the model of the decorator (only for datagrams addressed to this overlay's signed id)
            if kind == "signed" and md[:22] == ov.get_prefix() and len(md) > 22 and md[22] == d[22] and len(md) <= 600:
                # oracle tables for the model: siglen of the key field, validity of the split the MODEL prescribes
                lens, valids = [], []
                if pk_field is not None:
                    try:
                        key = ec.key_from_public_bin(pk_field)
                        n = ec.get_signature_length(key)
                        lens.append("(%s, %d%%nat)" % (zl(pk_field), n))
                        sp, sg = (md[:-n], md[-n:]) if n else (b"", md)
                        try:
                            if ec.is_valid_signature(key, sp, sg):
                                valids.append("(%s, %s, %s)" % (zl(pk_field), zl(sp), zl(sg)))
                        except Exception:   # noqa
                            pass
                    except Exception:   # noqa
                        pass
                signed_bodies = [b for b in bodies if isinstance(b[2], Peer)]
                if signed_bodies:
                    first, args = signed_bodies[0][2], signed_bodies[0][3]
                    pls = [a for a in args if not isinstance(a, (bytes, bytearray))]
                    try:
                        vals = []
                        for p, inst in zip(payloads, pls):
                            vals.extend(wire.msg_vals_coq(wire.class_fmts(p, reg), inst))
                        exp = "Ok (%s, [%s])" % (zl(first.public_key.key_to_bin()), "; ".join(vals))
                    except Exception:   # noqa
                        exp = None
                else:
                    exp = "Raise DecodingError"
                if exp is not None:
                    kc = "[" + "; ".join(zl(k) for k in vkeys) + "]"
                    cases.append(("([%s], [%s], %s, %s, %s)" % ("; ".join(lens), "; ".join(valids), kc, fcoq, zl(md)), exp))
                    meta.append(m)
    # ---- the hand-parsed path: EZPackOverlay._ez_unpack_auth against the model's ez_unpack_auth
    from ipv8.messaging.payload import IntroductionRequestPayload
    ez_cases = []
    ez_fmts = [("struct", [("U", 8)])] + wire.class_fmts(IntroductionRequestPayload, reg)
    ez_fcoq = "[" + "; ".join(wire.fmt_coq(f) for f in ez_fmts) + "]"
    kc = "[" + "; ".join(zl(k) for k in vkeys) + "]"
    for (i, d, src, how) in valid:
        ov = B.overlays[i]
        if d[22] != 246 or len(d) > 400:
            continue
        others = [o for o in all_valid_bytes if o is not d]
        for (mname, md) in [("unmutated", d)] + mutations(r, d, others, wrong_key, True):
            if len(md) > 500:
                continue
            auth_ok, pk_field = independent_auth(md)
            lens, valids = [], []
            if pk_field is not None:
                try:
                    key = ec.key_from_public_bin(pk_field)
                    n = ec.get_signature_length(key)
                    lens.append("(%s, %d%%nat)" % (zl(pk_field), n))
                    sp, sg = (md[:-n], md[-n:]) if n else (b"", md)
                    if ec.is_valid_signature(key, sp, sg):
                        valids.append("(%s, %s, %s)" % (zl(pk_field), zl(sp), zl(sg)))
                except Exception:   # noqa
                    pass
            try:
                auth, gt, pl = ov._ez_unpack_auth(IntroductionRequestPayload, md)
                vals = ["(VInt %d)" % gt.global_time] + wire.msg_vals_coq(ez_fmts[1:], pl)
                exp = "Ok (%s, [%s])" % (zl(auth.public_key_bin), "; ".join(vals))
                if not auth_ok or auth.public_key_bin != pk_field:
                    ctx.violation("ez_unpack_auth-accepts-unauthentic/%s" % mname,
                                  "_ez_unpack_auth returned for a datagram without a valid signature by its own key",
                                  {"kind": "datagram", "mutation": mname, "data": md.hex(), "src": list(src), "overlay": type(ov).__name__})
            except Exception:   # noqa
                exp = "Raise DecodingError"
            ctx.count(("ez", md), nontrivial=len(md) > 23)
            ez_cases.append(("([%s], [%s], %s, %s, %s)" % ("; ".join(lens), "; ".join(valids), kc, ez_fcoq, zl(md)), exp))
    if ttext is not None and ez_cases:
        mism, errs = coqrun.eval_mismatches(IMPORTS, "run_signed", "res_eqb_loose pkvs_eqb", ez_cases, os.path.join(ctx.scratch, "ez"),
                                            ctype="auth_case * res (bytes * list val)", shard=150, jobs=14)
        for e in errs:
            ctx.broke("model evaluation failed (ez_unpack_auth)", e)
        for k in mism[:5]:
            ctx.broke("correspondence: _ez_unpack_auth differs from the model", ez_cases[k][0][-600:])
        ctx.coverage["traces_validated_against_impl"] += len(ez_cases) - len(mism)
        ctx.extra["ez_unpack_auth_cases"] = len(ez_cases)
    ctx.extra["outcomes"] = {k: v for k, v in stats.items() if k != "by_mutation"}
    ctx.extra["mutation_mix"] = stats["by_mutation"]
    if valid:
        ctx.sample({"valid_datagram": valid[0][1].hex(), "overlay": type(B.overlays[valid[0][0]]).__name__, "origin": valid[0][3]})
    if ttext is not None and cases:
        mism, errs = coqrun.eval_mismatches(IMPORTS, "run_signed", "res_eqb_loose pkvs_eqb", cases, os.path.join(ctx.scratch, "auth"),
                                            ctype="auth_case * res (bytes * list val)", shard=150, jobs=14)
        for e in errs:
            ctx.broke("model evaluation failed (auth)", e)
        if mism:
            out = coqrun.eval_terms(IMPORTS, ["run_signed %s" % cases[k][0] for k in mism[:2]], os.path.join(ctx.scratch, "dbg"))
            ctx.extra["model_says"] = out[-3000:]
            ctx.extra["impl_says"] = [cases[k][1][-1500:] for k in mism[:2]]
        for k in mism[:8]:
            ctx.broke("correspondence: decorator model and implementation differ (%s)" % meta[k]["mutation"], json.dumps(meta[k])[:900])
        ctx.coverage["traces_validated_against_impl"] += len(cases) - len(mism)
        ctx.extra["model_cases"] = len(cases)
    A.restore()
    B.restore()
    for n in (A, B):
        for ov in n.overlays:
            try:
                await ov.unload()
            except Exception:   # noqa
                pass
    ctx.coverage["rule"] = ("valid signed datagrams: captured from walks between two nodes carrying every shipped overlay + synthesised with the "
                            "sender's real ezr_pack for every authenticated id; mutants: bit flips, every truncation, extension/insertion, key "
                            "substitution (old signature / re-signed by the other key), signing by a key other than the carried one, signature "
                            "transplant, payload splice, prefix and message-id swaps, replay into every other overlay; non-trivial = longer "
                            "than 23 bytes; distinct by datagram bytes")


def replay(path):
    js = json.load(open(path))
    rc = 0
    for v in js.get("violations", []):
        print(v["key"], "::", v["what"])
        c = v["case"]
        if c.get("kind") in ("decorator", "decorator-fan", "ez_unpack_auth", "ezr_pack", "history"):
            from tools.checks import c01_auth_gen
            rc |= c01_auth_gen.replay_case(c)
        elif c.get("kind") == "datagram":
            ok, pk = independent_auth(bytes.fromhex(c["data"]))
            print("  independent signature check of the recorded datagram:", ok, "key field:", pk.hex()[:16] if pk else None)
            rc = 1
    for b in js.get("no_longer_checks", []):
        print("no longer checks:", b["what"], b["detail"][:300])
        rc = 1
    return rc
