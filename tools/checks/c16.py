"""C16 - a token tree only ever holds its owner's signed chain, in any order.

Stage 0: replay corpus/C16/*.json against the implementation through the oracle.
Stage P: props/C16.v (elements_sound, elements_complete_any_order, order_independent, content_bound,
         public_roundtrip, ...).
Stage C: the real TokenTree / Token (real keys, real SHA3-256, real signatures) against the hand model
         coq/model/M16_tokentree.v evaluated inside Coq on the same operation sequences.  SHA3-256 and
         signature validity enter the model as per-case tables computed here with hashlib / ECCrypto
         directly (not through Token).  Two renderings of a case:
           * "real":  the bytes as they are (widths 32/32/siglen);
           * "short": every 32-byte digest and every signature is replaced by a short code through an
             injective renaming applied consistently to inputs, tables and observations (the model is
             parametric in the widths) - this keeps the Coq files small enough for exhaustive sweeps.
Oracle : an independent Python statement of the property evaluated on what the implementation did:
         soundness of elements, elements = closure of what was offered (while the waiting area cannot
         have overflowed), content binding, verify / get_root_path answers, public dump reloads.
"""
from __future__ import annotations

import glob
import hashlib
import itertools
import json
import multiprocessing
import os
import struct

from tools.tr import tr_tokentree
from tools.vlib import coqrun
from tools.vlib.repoenv import VERIF

IMPORTS = ("From Coq Require Import ZArith List Bool.\n"
           "From IPV8V Require Import lib.PyErr lib.Bytes model.M16_lits model.M16_tokentree.\n"
           "Import ListNotations.\nOpen Scope Z_scope.\n")

IMPORTS_GEN = IMPORTS.replace("model.M16_tokentree.", "model.M16_tokentree model.M16_run_gen.")

CORPUS = os.path.join(VERIF, "corpus", "C16")


def translate(ctx):
    """stage G: the token tree's methods translated from the AST (gen/G16_tokentree.v); returns the generated
    text or None (reported as broken; the stale file is removed so that nothing is proved or evaluated against it)"""
    try:
        text = tr_tokentree.write()
        ctx.extra.setdefault("generated", {})["gen/G16_tokentree.v"] = len(text)
        return text
    except Exception as e:   # noqa: BLE001  tr_expr.Unsupported or anything else: fail closed
        ctx.broke("translator tr_tokentree aborted", e)
        for ext in (".v", ".vo", ".vos", ".vok", ".glob"):
            try:
                os.remove(tr_tokentree.DEST[:-2] + ext)
            except OSError:
                pass
        return None


def sha3(b: bytes) -> bytes:
    return hashlib.sha3_256(b).digest()


# ---------------------------------------------------------------------------- Coq literals
def zid(n: int) -> str:
    if n == -1:
        return "zm1"
    if 0 <= n < 1024:
        return "z%d" % n
    return "(%d)" % n


def nid(n: int) -> str:
    return "n%d" % n if 0 <= n < 256 else "%d%%nat" % n


def zl(b) -> str:
    return "[" + ";".join(zid(x) for x in b) + "]"


# ---------------------------------------------------------------------------- keys and tokens
class World:
    """One owner key (the tree's key) and one foreign key; signing helpers with a cache."""

    def __init__(self, seed: bytes, curve: str = "curve25519"):
        from ipv8.keyvault.crypto import ECCrypto
        self.crypto = ECCrypto()
        self.curve = curve
        if curve == "curve25519":
            self.sk = self.crypto.key_from_private_bin(b"LibNaCLSK:" + seed[:64])
            self.sk2 = self.crypto.key_from_private_bin(b"LibNaCLSK:" + seed[64:128])
        else:
            self.sk = self.crypto.generate_key(curve)
            self.sk2 = self.crypto.generate_key(curve)
        self.pk = self.sk.pub()
        self.pkbin = self.pk.key_to_bin()
        self.siglen = self.pk.get_signature_length()
        self.genesis = sha3(self.pkbin)
        self.pk2bin = self.sk2.pub().key_to_bin()
        self._sig = {}

    def signed(self, prev: bytes, chash: bytes, foreign=False):
        k = (prev, chash, foreign)
        if k not in self._sig:
            self._sig[k] = (self.sk2 if foreign else self.sk).signature(prev + chash)
        return (prev, chash, self._sig[k])


def thash(f) -> bytes:
    return sha3(f[0] + f[1] + f[2])


class Builder:
    """Concrete, replayable case: pools of token fields and contents, operations by index."""

    def __init__(self, w: World, cap=100, depths=(1000,), trace=True, mode="short", label=""):
        self.w = w
        self.cap, self.depths, self.trace, self.mode, self.label = cap, list(depths), trace, mode, label
        self.pool, self.pix, self.contents, self.cix, self.ops, self.kinds = [], {}, [], {}, [], {}

    def tok(self, fields, kind="legit"):
        fields = tuple(fields)
        if fields not in self.pix:
            self.pix[fields] = len(self.pool)
            self.pool.append(fields)
            self.kinds[len(self.pool) - 1] = kind
        return self.pix[fields]

    def content(self, c: bytes):
        if c not in self.cix:
            self.cix[c] = len(self.contents)
            self.contents.append(c)
        return self.cix[c]

    def legit(self, parent, tag: bytes, kind="legit"):
        """own-key token over content b'c'+tag succeeding pool[parent] (None = genesis)"""
        prev = self.w.genesis if parent is None else thash(self.pool[parent])
        c = b"c" + tag
        self.content(c)
        return self.tok(self.w.signed(prev, sha3(c)), kind)

    def gather(self, i, content=None, share=None):
        """share: the operation uses ONE Token object per pool entry for the whole case (as an application that
        keeps token objects around does) and, besides offering it to the tree under test, shows it to the tree of
        another owner (key `other_pk`): 'signer-first' before, 'signer-after' after, 'same' not at all"""
        op = ["g", i, None if content is None else self.content(content)]
        if share is not None:
            assert content is None
            op.append(share)
        self.ops.append(op)

    def unser(self, data: bytes):
        self.ops.append(["u", data])

    def case(self):
        return {"pk": self.w.pkbin, "cap": self.cap, "depths": self.depths, "trace": self.trace, "mode": self.mode,
                "label": self.label, "pool": list(self.pool), "contents": list(self.contents), "ops": list(self.ops),
                "kinds": dict(self.kinds), "other_pk": self.w.pk2bin}


def case_to_json(c):
    return {"pk": c["pk"].hex(), "cap": c["cap"], "depths": c["depths"], "trace": c["trace"], "mode": c["mode"],
            "label": c["label"], "pool": [[x.hex() for x in f] for f in c["pool"]],
            "contents": [x.hex() for x in c["contents"]],
            "ops": [[o[0], o[1].hex()] if o[0] == "u" else o for o in c["ops"]],
            "kinds": {str(k): v for k, v in c.get("kinds", {}).items()},
            "other_pk": c["other_pk"].hex() if c.get("other_pk") else None}


def case_from_json(j):
    return {"pk": bytes.fromhex(j["pk"]), "cap": j["cap"], "depths": j["depths"], "trace": j["trace"], "mode": j["mode"],
            "label": j.get("label", ""), "pool": [tuple(bytes.fromhex(x) for x in f) for f in j["pool"]],
            "contents": [bytes.fromhex(x) for x in j["contents"]],
            "ops": [["u", bytes.fromhex(o[1])] if o[0] == "u" else list(o) for o in j["ops"]],
            "kinds": {int(k): v for k, v in j.get("kinds", {}).items()},
            "other_pk": bytes.fromhex(j["other_pk"]) if j.get("other_pk") else None}


# ---------------------------------------------------------------------------- renaming ("short" rendering)
class Ren:
    """Injective renaming of digests (-> hl bytes) and signatures (-> sl bytes); identity in real mode."""

    def __init__(self, mode, siglen, npool):
        self.real = mode == "real"
        self.siglen = siglen
        if self.real:
            self.hl, self.sl = 32, siglen
        elif npool <= 30:
            self.hl, self.sl = 1, 2
        else:
            self.hl, self.sl = 2, 3
        self.hm, self.sm, self.cm = {}, {}, {}

    def h(self, b: bytes) -> bytes:
        if self.real:
            return b
        if b not in self.hm:
            self.hm[b] = len(self.hm).to_bytes(self.hl, "big")    # OverflowError (fail closed) if the codes run out
        return self.hm[b]

    def s(self, b: bytes) -> bytes:
        if self.real:
            return b
        if b not in self.sm:
            self.sm[b] = len(self.sm).to_bytes(self.sl, "big")
        return self.sm[b]

    def pk(self, b: bytes) -> bytes:
        return b if self.real else b"\xfe\xfd\xfc\xfb\xfa"   # 5 bytes: a length no token / content key has

    def c(self, b: bytes) -> bytes:
        """contents: 6-byte codes (token keys are 4 or 7 bytes long, the key is 5)"""
        if self.real:
            return b
        if b not in self.cm:
            self.cm[b] = b"\xc0" + len(self.cm).to_bytes(2, "big") + b"\x00\x00\x00"
        return self.cm[b]

    def tok(self, f) -> bytes:
        return self.h(f[0]) + self.h(f[1]) + self.s(f[2])

    def dump(self, data: bytes) -> bytes:
        """a public dump (or any byte string fed to unserialize_public): chunkwise renaming; a ragged tail
        stays a ragged tail"""
        if self.real:
            return data
        ch = 64 + self.siglen
        out = b""
        n = len(data) // ch
        for i in range(n):
            c = data[i * ch:(i + 1) * ch]
            out += self.tok((c[:32], c[32:64], c[64:]))
        tail = len(data) - n * ch
        if tail:
            out += bytes(min(tail, self.hl + self.hl + self.sl - 1))
        return out


def chunks_of(data: bytes, siglen: int):
    ch = 64 + siglen
    return [(data[i:i + 32], data[i + 32:i + 64], data[i + 64:i + ch]) for i in range(0, len(data) - ch + 1, ch)]


# ---------------------------------------------------------------------------- implementation run
EXN_CODES = {"error": 10, "KeyError": 11, "ValueError": 13}


def exn_code(e) -> int:
    return EXN_CODES.get(type(e).__name__, 19)


def observe_tree(t, Token):
    """What the harness reads of a TokenTree.  Public surface: `elements` (dict hash -> Token) and
    get_missing().  The waiting tokens are internal: they are collected from whatever container
    `unchained` is (Token objects found as keys, values or inside nested containers), cross-checked against
    get_missing(), and reported as None ("not observable") when that fails - never an exception."""
    notes = []
    try:
        e = [(bytes(k), (v.previous_token_hash, v.content_hash, v.signature), v.content) for k, v in t.elements.items()]
    except Exception as ex:   # noqa: BLE001
        e = []
        notes.append("elements unreadable: %s" % type(ex).__name__)
    try:
        miss = frozenset(bytes(m) for m in t.get_missing())
    except Exception as ex:   # noqa: BLE001
        miss = ("raise", type(ex).__name__)
    u = None
    try:
        found, seen = [], set()

        def walk(x, depth):
            if isinstance(x, Token):
                if id(x) not in seen:
                    seen.add(id(x))
                    found.append(x)
            elif depth < 4 and isinstance(x, dict):
                for k, v in list(x.items()):
                    walk(k, depth + 1)
                    walk(v, depth + 1)
            elif depth < 4 and (isinstance(x, (list, tuple, set, frozenset)) or type(x).__name__ == "deque"):
                for y in list(x):
                    walk(y, depth + 1)

        walk(getattr(t, "unchained"), 0)
        u = [((x.previous_token_hash, x.content_hash, x.signature), x.content) for x in found]
        if isinstance(miss, frozenset) and {f[0] for (f, _c) in u} != set(miss):
            notes.append("waiting tokens found in `unchained` do not account for get_missing()")
            u = None
    except Exception as ex:   # noqa: BLE001
        notes.append("waiting area not readable: %s" % type(ex).__name__)
        u = None
    return {"e": e, "u": u, "miss": miss, "notes": notes}


def run_impl(c):
    """Run the case on the real TokenTree.  Returns the raw record used by the oracle and by the
    canonical flattening."""
    from ipv8.attestation.tokentree.token import Token
    from ipv8.attestation.tokentree.tree import TokenTree
    from ipv8.keyvault.crypto import ECCrypto
    pk = ECCrypto().key_from_public_bin(c["pk"])
    siglen = pk.get_signature_length()
    tree = TokenTree(public_key=pk)
    tree.unchained_max_size = c["cap"]

    def snap(t):
        return observe_tree(t, Token)

    steps = []
    shared = {}           # pool index -> the one Token object used by the sharing operations of this case
    other = {}

    def show_to_other_owner(tok):
        """the same object is looked at by another owner's tree (and checked against that owner's key)"""
        if not c.get("other_pk"):
            return
        try:
            if "tree" not in other:
                other["pk"] = ECCrypto().key_from_public_bin(c["other_pk"])
                other["tree"] = TokenTree(public_key=other["pk"])
            tok.verify(other["pk"])
            other["tree"].gather_token(tok)
            other["tree"].verify(tok)
        except Exception:   # noqa: BLE001  the other owner's tree is not under test
            pass

    for op in c["ops"]:
        offered = []
        if op[0] == "g":
            prev, chash, sig = c["pool"][op[1]]
            content = None if op[2] is None else c["contents"][op[2]]
            share = op[3] if len(op) > 3 else None
            if share is not None:
                if op[1] not in shared:
                    shared[op[1]] = Token.from_database_tuple(prev, sig, chash, None)
                tok = shared[op[1]]
                if share == "signer-first":
                    show_to_other_owner(tok)
            else:
                tok = Token.from_database_tuple(prev, sig, chash, content)
            offered.append(((prev, chash, sig), tok.content))
            try:
                r = tree.gather_token(tok)
                res = ("none",) if r is None else ("tok", (r.previous_token_hash, r.content_hash, r.signature), r.content)
            except Exception as e:   # noqa: BLE001
                res = ("raise", type(e).__name__, exn_code(e))
            if share == "signer-after":
                show_to_other_owner(tok)
        else:
            data = op[1]
            offered += [(f, None) for f in chunks_of(data, siglen)]
            try:
                r = tree.unserialize_public(data)
                res = ("bool", r)
            except Exception as e:   # noqa: BLE001
                res = ("raise", type(e).__name__, exn_code(e))
        steps.append({"res": res, "offered": offered, "state": snap(tree)})
    fin = {"genesis": sha3(c["pk"]), "siglen": siglen}
    probes = []
    for pi, f in enumerate(c["pool"]):
        row = []
        for d in c["depths"]:
            # the application's own object when it kept one, otherwise a fresh one
            t = shared[pi] if pi in shared else Token(f[0], content_hash=f[1], signature=f[2])
            try:
                v = tree.verify(t, d)
                p = [((x.previous_token_hash, x.content_hash, x.signature), x.content) for x in tree.get_root_path(t, d)]
                row.append((v, p))
            except Exception as e:   # noqa: BLE001
                row.append(("raise", type(e).__name__))
        probes.append(row)
    fin["probes"] = probes
    try:
        fin["dump"] = bytes(tree.serialize_public())
    except Exception as e:   # noqa: BLE001
        fin["dump"] = b""
        fin["dump_raised"] = type(e).__name__
    upto = []
    for f in c["pool"]:
        t = Token(f[0], content_hash=f[1], signature=f[2])
        try:
            upto.append(tree.serialize_public(t))
        except Exception as e:   # noqa: BLE001
            upto.append(("raise", type(e).__name__, exn_code(e)))
    fin["upto"] = upto
    t2 = TokenTree(public_key=pk)
    t2.unchained_max_size = c["cap"]
    try:
        fin["reload"] = ("bool", t2.unserialize_public(fin["dump"]))
    except Exception as e:   # noqa: BLE001
        fin["reload"] = ("raise", type(e).__name__, exn_code(e))
    fin["reload_state"] = snap(t2)
    fin["state"] = snap(tree)
    return {"steps": steps, "final": fin}


# ---------------------------------------------------------------------------- canonical flattening (both sides)
def waiting_observable(run):
    sts = [s["state"] for s in run["steps"]] + [run["final"]["state"], run["final"]["reload_state"]]
    return all(st["u"] is not None for st in sts)


def flatten(c, run, ren: Ren):
    waiting = waiting_observable(run)
    pool_ix = {}
    for i, f in enumerate(c["pool"]):
        pool_ix.setdefault(f[0] + f[1] + f[2], i)    # equality of tokens = equal signed bytes
    cont_ix = {}
    for i, b in enumerate(c["contents"]):
        cont_ix.setdefault(b, i)

    def enc_tok(f, content):
        return [pool_ix.get(f[0] + f[1] + f[2], len(c["pool"])),
                -1 if content is None else cont_ix.get(content, len(c["contents"]))]

    def enc_bytes(b):
        return [len(b)] + list(b)

    def enc_state(st):
        out = [len(st["e"])]
        for (_k, f, ct) in st["e"]:
            out += enc_tok(f, ct)
        miss = st["miss"] if isinstance(st["miss"], frozenset) else frozenset()
        ms = sorted(ren.h(m) for m in miss)          # a set: canonical order
        out.append(len(ms))
        for m in ms:
            out += enc_bytes(m)
        if waiting:
            us = sorted(tuple(enc_tok(f, ct)) for (f, ct) in st["u"])   # internal: compared as a set
            out.append(len(us))
            for x in us:
                out += list(x)
        return out

    def enc_res(res):
        if res[0] == "none":
            return [0]
        if res[0] == "tok":
            return [1] + enc_tok(res[1], res[2])
        if res[0] == "bool":
            return [2, 1 if res[1] else 0]
        return [res[2]]

    flat = []
    for st in run["steps"]:
        flat += enc_res(st["res"])
        if c["trace"]:
            flat += enc_state(st["state"])
    fin = run["final"]
    flat += enc_state(fin["state"])
    for row in fin["probes"]:
        for (v, p) in row:
            if v == "raise":
                flat += [98]
                continue
            flat.append(1 if v is True else 0 if v is False else 99)
            flat.append(len(p))
            for (f, ct) in p:
                flat += enc_tok(f, ct)
    flat += enc_bytes(ren.dump(fin["dump"]))
    for u in fin["upto"]:
        if isinstance(u, tuple):
            flat.append(u[2])
        else:
            flat += [1] + enc_bytes(ren.dump(u))
    flat += enc_res(fin["reload"]) + enc_state(fin["reload_state"])
    return flat


def case_to_coq(c, ren: Ren, valid_of, hash_of, waiting=True):
    """the model's input: widths, key, SHA3 table, valid (plaintext, signature) pairs, pools, ops"""
    pool = c["pool"]
    # tokens parsed out of unserialize inputs are part of the tables as well
    extra = []
    for op in c["ops"]:
        if op[0] == "u":
            extra += chunks_of(op[1], ren.siglen)
    htbl = [(ren.pk(c["pk"]), ren.h(sha3(c["pk"])))]
    vtbl = []
    seen = set()
    for f in list(pool) + extra:
        if f in seen:
            continue
        seen.add(f)
        htbl.append((ren.tok(f), ren.h(hash_of(f))))
        if valid_of(f):
            vtbl.append((ren.h(f[0]) + ren.h(f[1]), ren.s(f[2])))
    for b in c["contents"]:
        htbl.append((ren.c(b), ren.h(sha3(b))))
    ops = []
    for op in c["ops"]:
        if op[0] == "g":
            ops.append("OGather %s %s" % (nid(op[1]), "None" if op[2] is None else "(Some %s)" % nid(op[2])))
        else:
            ops.append("OUnser %s" % zl(ren.dump(op[1])))
    return "(mkCase %s %s %s [%s] [%s] %s [%s] [%s] [%s] %s %s [%s])" % (
        nid(ren.hl), nid(ren.sl), zl(ren.pk(c["pk"])),
        ";".join("(%s,%s)" % (zl(a), zl(b)) for a, b in htbl),
        ";".join("(%s,%s)" % (zl(a), zl(b)) for a, b in vtbl),
        nid(c["cap"]),
        ";".join("mkToken %s %s %s None" % (zl(ren.h(f[0])), zl(ren.h(f[1])), zl(ren.s(f[2]))) for f in pool),
        ";".join(zl(ren.c(b)) for b in c["contents"]),
        ";".join(zid(d) for d in c["depths"]),
        "true" if c["trace"] else "false",
        "true" if waiting else "false",
        ";".join(ops))


# ---------------------------------------------------------------------------- oracle: the property on the observed run
def oracle(c, run):
    """Independent reading of C16 on what the implementation did.  Returns [(key, what)]."""
    from ipv8.keyvault.crypto import ECCrypto
    crypto = ECCrypto()
    pk = crypto.key_from_public_bin(c["pk"])
    genesis = sha3(c["pk"])
    vcache = {}

    def valid(f):
        if f not in vcache:
            vcache[f] = bool(crypto.is_valid_signature(pk, f[0] + f[1], f[2]))
        return vcache[f]

    bad = []

    def report(key, what):
        if not any(k == key for k, _ in bad):
            bad.append((key, what))

    def kind_of(f):
        i = c["pool"].index(f) if f in c["pool"] else None
        return c.get("kinds", {}).get(i, "parsed") if i is not None else "parsed"

    def check_sound(state, offered_fields, where):
        e, u, miss = state["e"], state["u"], state["miss"]
        ekeys = {k for (k, _f, _c) in e}
        for note in state["notes"]:
            if note.startswith("elements unreadable"):
                report("exception/elements-unreadable", "%s: %s" % (where, note))
        for (k, f, ct) in e:
            if k != thash(f):
                report("sound/key-is-not-token-hash", "%s: element stored under a key that is not its hash" % where)
            if not valid(f):
                report("sound/invalid-signature-element",
                       "%s: a %s token whose signature does not verify under the tree's key is an element" % (where, kind_of(f)))
            if f not in offered_fields:
                report("sound/element-never-offered", "%s: element %s.. was never offered" % (where, thash(f).hex()[:12]))
            if f[0] != genesis and f[0] not in ekeys:
                report("sound/dangling-element", "%s: element %s.. has no contained predecessor" % (where, thash(f).hex()[:12]))
            if ct is not None and sha3(ct) != f[1]:
                report("content/not-bound-to-pointer", "%s: element carries content that does not hash to its content pointer" % where)
        for (f, ct) in (u or []):
            if not valid(f):
                report("waiting/invalid-signature", "%s: a token with a bad signature sits in the waiting area" % where)
            if f not in offered_fields:
                report("waiting/never-offered", "%s: a waiting token was never offered" % where)
            if ct is not None and sha3(ct) != f[1]:
                report("content/not-bound-to-pointer", "%s: waiting token carries content that does not hash to its pointer" % where)
        if u is not None and len(u) > max(c["cap"], 0):
            report("waiting/over-capacity", "%s: %d tokens waiting, capacity %d" % (where, len(u), c["cap"]))
        # the public view of the waiting area: get_missing()
        if isinstance(miss, tuple):
            report("exception/%s" % miss[1], "%s: get_missing raised %s" % (where, miss[1]))
        else:
            if len(miss) > max(c["cap"], 0):
                report("waiting/over-capacity", "%s: %d hashes missing, capacity %d" % (where, len(miss), c["cap"]))
            awaited = {f[0] for f in offered_fields if valid(f)}
            if not miss <= awaited:
                report("missing/wrong-set", "%s: get_missing reports a hash no validly signed offered token points to" % where)
        return ekeys

    def closure(fields):
        got, keys, todo = [], set(), [f for f in fields if valid(f)]
        changed = True
        while changed:
            changed = False
            rest = []
            for f in todo:
                if f[0] == genesis or f[0] in keys:
                    got.append(f)
                    keys.add(thash(f))
                    changed = True
                else:
                    rest.append(f)
            todo = rest
        return keys

    offered = []
    unexpected = None
    may_have_overflowed = False
    for n, st in enumerate(run["steps"]):
        offered += [f for (f, _ct) in st["offered"]]
        where = "after operation %d" % n
        res = st["res"]
        op = c["ops"][n]
        if res[0] == "raise":
            ragged = op[0] == "u" and len(op[1]) % (64 + run["final"]["siglen"]) != 0
            if not (ragged and res[1] == "error"):
                report("exception/%s" % res[1], "%s: %s raised %s" % (where, "gather_token" if op[0] == "g" else "unserialize_public", res[1]))
                unexpected = res[1]
        ekeys = check_sound(st["state"], set(offered), where)
        if op[0] == "u" and res == ("bool", True) and any(not valid(f) for (f, _ct) in st["offered"]):
            report("unserialize/true-despite-rejected-token",
                   "%s: unserialize_public answered True although the data holds a token that does not verify" % where)
        # completeness / order independence: as long as the waiting area cannot have overflowed
        # the waiting area cannot have overflowed as long as, after every operation so far, the validly signed
        # offers outside the closure (= the tokens that have to wait) fit into it
        distinct_valid = {f for f in offered if valid(f)}
        want = closure(list(dict.fromkeys(offered)))
        if len([f for f in distinct_valid if thash(f) not in want]) > c["cap"]:
            may_have_overflowed = True
        if op[0] == "u" and len(st["offered"]) > 1 and len(distinct_valid) > c["cap"]:
            may_have_overflowed = True     # several tokens in one operation: intermediate states are not observed
        if not may_have_overflowed and unexpected is None and not (res[0] == "raise"):
            if ekeys != want:
                missing = want - ekeys
                if missing:
                    report("complete/offered-chain-token-missing",
                           "%s: %d validly signed token(s) connected to genesis through offered tokens are not elements "
                           "(%d elements, %d hashes reported missing)" % (
                               where, len(missing), len(ekeys), len(st["state"]["miss"]) if isinstance(st["state"]["miss"], frozenset) else -1))
                else:
                    report("complete/extra-element", "%s: elements outside the closure of the offered tokens" % where)
            expect_missing = {f[0] for f in distinct_valid if thash(f) not in want}
            if isinstance(st["state"]["miss"], frozenset) and set(st["state"]["miss"]) != expect_missing:
                report("missing/wrong-set", "%s: get_missing() has %d hashes, the offered tokens still waiting point to %d" % (
                    where, len(st["state"]["miss"]), len(expect_missing)))
        if unexpected is None and res[0] != "raise":
            for h in (st["state"]["miss"] if isinstance(st["state"]["miss"], frozenset) else ()):
                if h in ekeys or h == genesis:
                    report("waiting/ready-token-left-waiting", "%s: a hash reported missing is an element" % where)
            for (f, _ct) in (st["state"]["u"] or []):
                if f[0] in ekeys or f[0] == genesis:
                    report("waiting/ready-token-left-waiting", "%s: a waiting token's predecessor is an element" % where)
        # returned token of gather_token
        if op[0] == "g" and res[0] == "tok":
            if thash(res[1]) not in ekeys:
                report("gather/returned-token-not-element", "%s: gather_token returned a token that is not an element" % where)
        if op[0] == "g" and res[0] == "none" and valid(c["pool"][op[1]]) and thash(c["pool"][op[1]]) in ekeys:
            report("gather/none-for-contained-token", "%s: gather_token returned None although the token is an element" % where)
        # content binding of what was accepted: a wrong content must not appear anywhere
        if op[0] == "g" and op[2] is not None:
            ct = c["contents"][op[2]]
            f = c["pool"][op[1]]
            if sha3(ct) != f[1]:
                for (_k, g, gc) in st["state"]["e"]:
                    if g == f and gc == ct:
                        report("content/not-bound-to-pointer", "%s: wrong content was attached" % where)
    fin = run["final"]
    e = fin["state"]["e"]
    if "dump_raised" in fin:
        report("exception/%s" % fin["dump_raised"], "serialize_public raised %s" % fin["dump_raised"])
    emap = {k: (f, ct) for (k, f, ct) in e}
    # verify / get_root_path: the oracle's own walk
    for f, row in zip(c["pool"], fin["probes"]):
        for d, pr in zip(c["depths"], row):
            if pr[0] == "raise":
                report("exception/%s" % pr[1], "verify/get_root_path raised %s" % pr[1])
                continue
            v, p = pr
            cur, steps, ok, path = f, 0, None, [f]
            while d > steps:     # d < 0: no walk, no path (see model: -1 answers False as well)
                if not valid(cur):
                    ok = False
                    break
                if cur[0] == genesis:
                    ok = True
                    break
                if cur[0] not in emap:
                    ok = False
                    break
                cur = emap[cur[0]][0]
                path.append(cur)
                steps += 1
            if ok is None:
                ok = False
            if d == -1:
                continue    # documented as "unlimited"; answers False on every input (reported separately, not C16)
            if bool(v) != ok:
                report("verify/wrong-answer", "verify(maxdepth=%d) says %s for a %s token, expected %s" % (d, v, kind_of(f), ok))
            if [x for (x, _c) in p] != (path if ok else []):
                report("root-path/wrong-path", "get_root_path(maxdepth=%d) wrong for a %s token" % (d, kind_of(f)))
            if ok and thash(f) in emap and not valid(f):
                report("sound/invalid-signature-element", "verify accepts an invalid token")
    for (k, f, ct) in e:
        depth, cur = 1, f
        while cur[0] != genesis and cur[0] in emap and depth <= len(e):
            cur = emap[cur[0]][0]
            depth += 1
        if cur[0] != genesis:
            report("sound/dangling-element", "final: element not connected to genesis")
    # public dump reloads to the same tree
    wire = all(len(f[0]) == 32 and len(f[1]) == 32 and len(f[2]) == fin["siglen"] for (_k, f, _c) in e)
    if wire and fin["dump"] != b"".join(f[0] + f[1] + f[2] for (_k, f, _c) in e):
        report("dump/not-the-elements", "serialize_public is not the concatenation of the elements' signed double pointers")
    if wire:
        if fin["reload"] != ("bool", True):
            report("roundtrip/reload-not-true", "unserialize_public(serialize_public()) into a fresh tree gave %r" % (fin["reload"][:2],))
        if {k for (k, _f, _c) in fin["reload_state"]["e"]} != set(emap):
            report("roundtrip/elements-differ", "reloaded tree has %d elements, original %d" % (len(fin["reload_state"]["e"]), len(e)))
    return bad


def shuffled_reload(c, run, r):
    """the dump in another chunk order reloads to the same elements (|elements| <= capacity)"""
    from ipv8.attestation.tokentree.tree import TokenTree
    from ipv8.keyvault.crypto import ECCrypto
    fin = run["final"]
    e = fin["state"]["e"]
    if not e or len(e) > c["cap"] or any(len(f[1]) != 32 for (_k, f, _c) in e):
        return []
    ch = 64 + fin["siglen"]
    parts = [fin["dump"][i:i + ch] for i in range(0, len(fin["dump"]), ch)]
    r.shuffle(parts)
    t2 = TokenTree(public_key=ECCrypto().key_from_public_bin(c["pk"]))
    t2.unchained_max_size = c["cap"]
    try:
        t2.unserialize_public(b"".join(parts))
    except Exception as ex:   # noqa: BLE001
        return [("exception/%s" % type(ex).__name__, "reload of a shuffled dump raised")]
    if set(t2.elements) != {k for (k, _f, _c) in e}:
        return [("roundtrip/order-dependent", "a shuffled public dump reloads to %d of %d elements" % (len(t2.elements), len(e)))]
    return []


# ---------------------------------------------------------------------------- generators
def labelled_trees(n):
    """all parent functions on 1..n (0 = genesis) that form a tree; with arrival order 1..n this is every
    (shape, arrival permutation) pair exactly once up to relabelling"""
    for ps in itertools.product(range(n + 1), repeat=n):
        ok = True
        for i in range(1, n + 1):
            seen, j = 0, i
            while j != 0 and seen <= n:
                j = ps[j - 1]
                seen += 1
            if j != 0:
                ok = False
                break
        if ok:
            yield ps


def topo(ps):
    n = len(ps)
    done, order = {0}, []
    while len(order) < n:
        for i in range(1, n + 1):
            if i not in done and ps[i - 1] in done:
                done.add(i)
                order.append(i)
    return order


def build_tree(b: Builder, ps, tagp=b""):
    """create the pool tokens of the labelled tree; returns {label: pool index}"""
    ix = {}
    for i in topo(ps):
        # the token is determined by the labels on its path to the root
        path, j = [i], ps[i - 1]
        while j != 0:
            path.append(j)
            j = ps[j - 1]
        ix[i] = b.legit(None if ps[i - 1] == 0 else ix[ps[i - 1]], tagp + bytes(path))
    return ix


DECOS = ["forged_sig", "forged_body", "foreign", "dangling", "dup", "content_right", "content_wrong", "dup_content",
         "child_of_forged", "child_of_foreign"]


def decorate(b: Builder, ix, arrivals, kind, k, pos, r):
    """insert one disturbance into the arrival list (list of (pool idx, content|None)); k = label of the
    legit token it refers to (or None), pos = position of insertion"""
    w = b.w
    tgt = b.pool[ix[k]] if k is not None else None
    ins = []
    if kind == "forged_sig":
        s = bytearray(tgt[2])
        s[r.randrange(len(s))] ^= 1 << r.randrange(8)
        ins = [(b.tok((tgt[0], tgt[1], bytes(s)), "forged"), None)]
    elif kind == "forged_body":
        ins = [(b.tok((tgt[0], sha3(b"other" + tgt[1]), tgt[2]), "forged"), None)]
    elif kind == "foreign":
        prev = w.genesis if tgt is None else thash(tgt)
        ins = [(b.tok(w.signed(prev, sha3(b"foreign"), foreign=True), "foreign"), None)]
    elif kind == "dangling":
        ins = [(b.tok(w.signed(sha3(b"nowhere%d" % pos), sha3(b"cd")), "dangling"), None)]
    elif kind == "dup":
        ins = [(ix[k], None)]
    elif kind == "content_right":
        arrivals = [(i, right_content(b, i) if i == ix[k] else c) for (i, c) in arrivals]
    elif kind == "content_wrong":
        arrivals = [(i, b"wrong" if i == ix[k] else c) for (i, c) in arrivals]
    elif kind == "dup_content":
        ins = [(ix[k], r.choice([right_content(b, ix[k]), b"wrong", right_content(b, ix[k])]))]
    elif kind == "child_of_forged":
        s = bytearray(tgt[2])
        s[0] ^= 0x80
        forged = (tgt[0], tgt[1], bytes(s))
        fi = b.tok(forged, "forged")
        ci = b.tok(w.signed(thash(forged), sha3(b"cf")), "dangling")
        ins = [(fi, None), (ci, None)] if r.random() < 0.5 else [(ci, None), (fi, None)]
    elif kind == "child_of_foreign":
        prev = w.genesis if tgt is None else thash(tgt)
        fo = w.signed(prev, sha3(b"foreign2"), foreign=True)
        fi = b.tok(fo, "foreign")
        ci = b.tok(w.signed(thash(fo), sha3(b"cfo")), "dangling")
        ins = [(ci, None), (fi, None)] if r.random() < 0.5 else [(fi, None), (ci, None)]
    out = list(arrivals)
    for j, x in enumerate(ins):
        out.insert(min(pos + j, len(out)), x)
    return out


def right_content(b: Builder, i):
    f = b.pool[i]
    for ct in b.contents:
        if sha3(ct) == f[1]:
            return ct
    return b"none"


def gen_exhaustive(w, nmax, mode="short"):
    for n in range(0, nmax + 1):
        for ps in labelled_trees(n):
            b = Builder(w, mode=mode, label="tree%s" % (ps,), depths=(1000, 2))
            ix = build_tree(b, ps)
            for i in range(1, n + 1):
                b.gather(ix[i])
            yield b.case()


def gen_decorated(w, r, nmax_all, nmax_rand, per_base, mode="short"):
    for n in range(1, nmax_rand + 1):
        for ps in labelled_trees(n):
            if n <= nmax_all:
                combos = [(kd, k, pos) for kd in DECOS for k in range(1, n + 1) for pos in range(0, n + 1)]
                if n == nmax_all and n >= 3:
                    combos = r.sample(combos, min(len(combos), 24))
            else:
                combos = [(r.choice(DECOS), r.randrange(1, n + 1), r.randrange(0, n + 1)) for _ in range(per_base)]
            for (kd, k, pos) in combos:
                b = Builder(w, mode=mode, label="tree%s+%s@%d/%d" % (ps, kd, k, pos), depths=(1000, 1))
                ix = build_tree(b, ps)
                arr = [(ix[i], None) for i in range(1, n + 1)]
                arr = decorate(b, ix, arr, kd, k, pos, r)
                for (i, ct) in arr:
                    b.gather(i, ct)
                yield b.case()


def random_parents(r, n):
    style = r.choice(["chain", "fork", "wide", "deep", "mixed", "mixed"])
    ps = []
    for i in range(1, n + 1):
        if style == "chain":
            p = i - 1
        elif style == "wide":
            p = r.choice([0, 0, 1]) if i > 1 else 0
        elif style == "deep":
            p = i - 1 if r.random() < 0.85 else r.randrange(0, i)
        elif style == "fork":
            p = r.choice([max(0, i - 1), max(0, i - 2), (i - 1) // 2])
        else:
            p = r.randrange(0, i)
        ps.append(p)
    return tuple(ps)


def gen_random_tree(w, r, n, orders, mode="short", cap=100, trace=True, tag=b""):
    """one random tree with disturbances; `orders` arrival orders of the same multiset of arrivals.
    Returns the list of cases (same pools, different ops)."""
    ps = random_parents(r, n)
    proto = Builder(w, mode=mode, cap=cap, trace=trace, depths=(1000, 3, 0, -1))
    ix = build_tree(proto, ps, tagp=tag)
    arr = [(ix[i], None) for i in range(1, n + 1)]
    for _ in range(r.randrange(0, 5)):
        arr = decorate(proto, ix, arr, r.choice(DECOS), r.randrange(1, n + 1), r.randrange(0, len(arr) + 1), r)
    cases = []
    for o in range(orders):
        b = Builder(w, mode=mode, cap=cap, trace=trace, depths=proto.depths, label="random%s order %d" % (ps, o))
        b.pool, b.pix, b.contents, b.cix, b.kinds = proto.pool, proto.pix, proto.contents, proto.cix, proto.kinds
        a = list(arr)
        if o == 1:
            a.reverse()
        elif o > 1:
            r.shuffle(a)
        for (i, ct) in a:
            b.gather(i, ct)
        cases.append(b.case())
    return cases


def gen_overflow(w, r, cap, n_dangling, mode="short", trace=True):
    """more waiting tokens than the waiting area holds; then the parents arrive"""
    b = Builder(w, mode=mode, cap=cap, trace=trace, depths=(1000,), label="overflow cap=%d" % cap)
    root = b.legit(None, b"r")
    kids = [b.legit(root, b"k%d" % i) for i in range(n_dangling)]
    grand = [b.legit(kids[i], b"g%d" % i) for i in range(min(3, n_dangling))]
    order = grand + kids
    r.shuffle(order)
    for i in order:
        b.gather(i)
    b.gather(kids[0])          # duplicate of a waiting (or dropped) token
    b.gather(root)
    for i in r.sample(kids, min(3, len(kids))):
        b.gather(i)
    return b.case()


def gen_shared(w, r, nmax_all, nmax_rand, per_base, mode="short"):
    """Token OBJECTS shared between trees of different owners: a foreign / forged / legit token object is shown
    to the other owner's tree (which runs its own signature check on it) before or after the SAME object is offered
    to the tree under test, at every position of the arrival sequence; with a validly signed child of the foreign
    token, which must keep waiting."""
    for n in range(0, nmax_rand + 1):
        for ps in labelled_trees(n):
            combos = []
            for kind in ("foreign", "forged", "legit"):
                for k in ([0] if kind == "foreign" else []) + list(range(1, n + 1)):
                    for pos in range(0, n + 1):
                        for how in ("first", "after"):
                            combos.append((kind, k, pos, how))
            if n > nmax_all:
                combos = r.sample(combos, min(len(combos), per_base))
            for (kind, k, pos, how) in combos:
                b = Builder(w, mode=mode, label="tree%s shared %s@%d/%d %s" % (ps, kind, k, pos, how), depths=(1000, 1))
                ix = build_tree(b, ps)
                arr = [(ix[i], None) for i in range(1, n + 1)]
                if kind == "foreign":
                    prev = w.genesis if k == 0 else thash(b.pool[ix[k]])
                    fo = w.signed(prev, sha3(b"shared-foreign"), foreign=True)
                    fi = b.tok(fo, "foreign")
                    ci = b.tok(w.signed(thash(fo), sha3(b"child-of-shared-foreign")), "dangling")
                    extra = [(ci, None)]
                elif kind == "forged":
                    tgt = b.pool[ix[k]]
                    sg = bytearray(tgt[2])
                    sg[r.randrange(len(sg))] ^= 1 << r.randrange(8)
                    fi = b.tok((tgt[0], tgt[1], bytes(sg)), "forged")
                    extra = []
                else:
                    fi = ix[k]
                    arr = [(i, m) for (i, m) in arr if i != fi]
                    pos = min(pos, len(arr))
                    extra = []
                if how == "first":
                    arr.insert(pos, (fi, "signer-first"))
                else:
                    arr.insert(pos, (fi, "signer-after"))
                    arr.append((fi, "same"))
                for x in extra:
                    arr.insert(r.randrange(len(arr) + 1), x)
                for (i, m) in arr:
                    b.gather(i, None, share=m)
                yield b.case()


def gen_at_capacity(w, r, cap, mode="short"):
    """exactly `cap` tokens wait for their common parent: nothing may be dropped"""
    b = Builder(w, mode=mode, cap=cap, depths=(1000,), label="at capacity cap=%d" % cap)
    root = b.legit(None, b"R")
    kids = [b.legit(root, b"K%d" % i) for i in range(cap)]
    for i in kids:
        b.gather(i)
    if kids:
        b.gather(kids[-1])
    b.gather(root)
    return b.case()


def gen_serial(w, r, n, mode, variant):
    """unserialize_public on dumps: in order, reversed, shuffled, with duplicates / forged / foreign chunks,
    ragged tails, garbage, empty"""
    b = Builder(w, mode=mode, depths=(1000,), label="serial/%s n=%d" % (variant, n))
    ps = random_parents(r, n)
    ix = build_tree(b, ps)
    ch = 64 + w.siglen
    parts = [b"".join(b.pool[ix[i]]) for i in topo(ps)]
    if variant == "inorder":
        data = b"".join(parts)
    elif variant == "reversed":
        data = b"".join(reversed(parts))
    elif variant == "shuffled":
        r.shuffle(parts)
        data = b"".join(parts)
    elif variant == "dups":
        parts = parts + r.sample(parts, min(2, len(parts)))
        r.shuffle(parts)
        data = b"".join(parts)
    elif variant == "forged":
        i = r.randrange(len(parts)) if parts else 0
        if parts:
            p = bytearray(parts[i])
            p[r.randrange(len(p))] ^= 1 << r.randrange(8)
            parts.insert(r.randrange(len(parts) + 1), bytes(p))
        data = b"".join(parts)
    elif variant == "foreign":
        fo = w.signed(w.genesis, sha3(b"fz"), foreign=True)
        parts.insert(r.randrange(len(parts) + 1), b"".join(fo))
        data = b"".join(parts)
    elif variant == "ragged":
        data = b"".join(parts) + r.randbytes(r.choice([1, 31, 32, 63, 64, ch - 1]))
    elif variant == "cut":
        data = b"".join(parts)
        data = data[:max(0, len(data) - r.choice([1, 32, ch - 1, ch]))]
    elif variant == "garbage":
        data = r.randbytes(r.choice([0, 1, ch - 1, ch, ch + 1, 2 * ch]))
    elif variant == "split":
        data = b"".join(parts)
        k = (len(parts) // 2) * ch
        b.unser(data[k:])
        data = data[:k]
    else:
        data = b""
    b.unser(data)
    if variant in ("inorder", "shuffled") and n:
        b.gather(ix[r.randrange(1, n + 1)], right_content(b, ix[1]))
    return b.case()


SERIAL_VARIANTS = ["inorder", "reversed", "shuffled", "dups", "forged", "foreign", "ragged", "cut", "garbage", "split", "empty"]


def gen_odd_widths(w, r):
    """locally built tokens whose fields do not have wire widths (real rendering only)"""
    b = Builder(w, mode="real", depths=(1000,), label="odd widths")
    t1 = b.tok(w.signed(w.genesis, b"short-content-hash"), "legit")
    t2 = b.tok(w.signed(thash(b.pool[t1]), sha3(b"x")), "legit")
    t3 = b.tok(w.signed(thash(b.pool[t2])[:31], sha3(b"y") + b"z"), "dangling")
    for i in r.sample([t1, t2, t3], 3):
        b.gather(i)
    return b.case()


# ---------------------------------------------------------------------------- per-case work (runs in worker processes)
def process(c):
    """implementation run + oracle + rendering for the model; never raises: harness trouble is returned
    in "errors" and becomes a broken correspondence, the oracle's findings are returned regardless"""
    import traceback
    out = {"coq": None, "bad": [], "errors": [], "waiting": True, "notes": [],
           "summary": {"ops": len(c["ops"]), "elements": 0, "max_waiting": 0, "label": c["label"], "struct_errors": 0},
           "keys": None}
    try:
        run = run_impl(c)
    except Exception:   # noqa: BLE001
        out["errors"].append("implementation run failed in the harness: " + traceback.format_exc()[-1200:])
        return out
    try:
        out["bad"] = oracle(c, run)
    except Exception:   # noqa: BLE001
        out["errors"].append("oracle failed: " + traceback.format_exc()[-1200:])
    fin = run["final"]
    sts = [s_["state"] for s_ in run["steps"]] + [fin["state"], fin["reload_state"]]
    out["notes"] = sorted({n for st in sts for n in st["notes"]})
    out["waiting"] = waiting_observable(run)
    out["keys"] = sorted(k.hex() for (k, _f, _c) in fin["state"]["e"])
    out["summary"].update({
        "elements": len(fin["state"]["e"]),
        "max_waiting": max([len(s_["state"]["miss"]) if isinstance(s_["state"]["miss"], frozenset) else 0
                            for s_ in run["steps"]] or [0]),
        "struct_errors": sum(1 for s_ in run["steps"] if s_["res"][0] == "raise" and s_["res"][1] == "error")})
    try:
        ren = Ren(c["mode"], fin["siglen"],
                  len(c["pool"]) + sum(len(o[1]) // (64 + fin["siglen"]) for o in c["ops"] if o[0] == "u"))
        from ipv8.keyvault.crypto import ECCrypto
        crypto = ECCrypto()
        pk = crypto.key_from_public_bin(c["pk"])
        coq_case = case_to_coq(c, ren, lambda f: bool(crypto.is_valid_signature(pk, f[0] + f[1], f[2])), thash,
                               waiting=out["waiting"])
        out["coq"] = (coq_case, zl(flatten(c, run, ren)))
    except Exception:   # noqa: BLE001
        out["errors"].append("rendering for the model failed: " + traceback.format_exc()[-1200:])
    return out


def process_light(c):
    return process(c)


def oracle_only(c):
    o = process_noncoq(c)
    return o["bad"], o["keys"], len(c["ops"]), o["errors"]


def process_noncoq(c):
    import traceback
    out = {"bad": [], "keys": None, "errors": []}
    try:
        run = run_impl(c)
        out["keys"] = sorted(k.hex() for (k, _f, _c) in run["final"]["state"]["e"])
        out["bad"] = oracle(c, run)
    except Exception:   # noqa: BLE001
        out["errors"].append("harness failed: " + traceback.format_exc()[-1200:])
    return out


def final_keys(c):
    o = process_noncoq(c)
    return o["keys"], o["bad"]


def case_size(c):
    """witness size: offered tokens, then prefer plain gather_token sequences"""
    return (sum(1 if o[0] == "g" else max(1, len(o[1]) // 100) for o in c["ops"]), sum(o[0] == "u" for o in c["ops"]),
            len(c["pool"]))


# ---------------------------------------------------------------------------- the check
def replay_cases(cases, verbose=False):
    rc, out = 0, []
    for c in cases:
        try:
            run = run_impl(c)
            bad = oracle(c, run)
        except Exception as ex:   # noqa: BLE001
            print("case %r: the harness could not observe the implementation: %r" % (c["label"], ex))
            out.append([("harness", repr(ex))])
            rc = 1
            continue
        if verbose:
            e = run["final"]["state"]["e"]
            u = run["final"]["state"]["miss"] if isinstance(run["final"]["state"]["miss"], frozenset) else ()
            print("case %r: %d operations -> %d elements, %d hashes reported missing; reload=%r" % (
                c["label"], len(c["ops"]), len(e), len(u), run["final"]["reload"][:2]))
            for k, wh in bad:
                print("  VIOLATES %s :: %s" % (k, wh))
            if not bad:
                print("  property holds on this case")
        out.append(bad)
        rc |= int(bool(bad))
    return rc, out


def run(ctx):
    r = ctx.rng("main")
    # ---- stage 0: corpus
    for path in sorted(glob.glob(os.path.join(CORPUS, "*.json"))):
        js = json.load(open(path))
        for cj in js.get("cases", []):
            c = case_from_json(cj)
            o = process_noncoq(c)
            for k, wh in o["bad"]:
                ctx.violation(k, "corpus %s: %s" % (os.path.basename(path), wh), cj)
            for e in o["errors"]:
                ctx.broke("corpus replay: harness could not observe the implementation (%s)" % os.path.basename(path), e)
            ctx.count(("corpus", path, cj["label"]))
    # ---- stage G + P
    ctx.proofs()
    gtext = translate(ctx)
    gen_ok = False
    if gtext is not None:
        ctx.proofs(part="C16x")
        ok_, log_, _cmd, _dt = coqrun.make(["model/M16_run_gen.vo"], timeout=600)
        gen_ok = ok_
        if not ok_:
            ctx.broke("the generated definitions no longer fit the evaluation interface model/M16_run_gen.v", log_[-1500:])
    ctx.coverage["trusted_base"] = [
        "Coq 8.16.1 kernel (coqc, vm_compute); no axioms (Print Assumptions: closed)",
        "hand model coq/model/M16_tokentree.v of TokenTree/Token, tied by this run's correspondence",
        "SHA3-256 and the signature scheme are parameters of the model (tables from hashlib / ECCrypto in the runs)",
        "translator tools/tr/tr_tokentree.py (Python ast -> Gallina) and its vocabulary coq/model/M16_tokentree_gen.v "
        "(dict / OrderedDict / loop primitives); assumed outside the translated set: Token.__init__ stores its "
        "arguments with content None, Token.__hash__ consistent with __eq__, parameters not mutated through a dict "
        "alias during a call",
        "the injective renaming of digests/signatures to short codes used for the bulk of the runs",
    ]
    ctx.assumptions = ["offered tokens have a 32-byte predecessor pointer (wire form) for the completeness theorem",
                       "the waiting area does not overflow (distinct offered tokens <= unchained_max_size) for completeness",
                       "Token objects are built through the constructor / receive_content (content matches its pointer)"]
    w = World(r.randbytes(128))
    # ---- stage C: cases
    cases = []
    nmax = 5 if ctx.quick else 6
    cases += list(gen_exhaustive(w, nmax))
    n_exh = len(cases)
    cases += list(gen_decorated(w, r, 2 if ctx.quick else 3, 4 if ctx.quick else 5, 1 if ctx.quick else 2))
    n_dec = len(cases) - n_exh
    groups = []    # lists of indices of cases that are arrival orders of the same offers
    for i in range(10 if ctx.quick else 60):
        n = r.choice([7, 9, 12, 16, 24, 40]) if i % 3 else r.choice([30, 40])
        cs = gen_random_tree(w, r, n, 3 if ctx.quick else 5, trace=(n <= 16), tag=b"%d" % i)
        groups.append(list(range(len(cases), len(cases) + len(cs))))
        cases += cs
    n_before = len(cases)
    cases += list(gen_shared(w, r, 2, 3 if ctx.quick else 4, 6 if ctx.quick else 10))
    n_shared = len(cases) - n_before
    for cap in ([0, 1, 3] if ctx.quick else [0, 1, 2, 3, 5, 8]):
        cases.append(gen_overflow(w, r, cap, cap + 3))
    cases.append(gen_overflow(w, r, 100, 103, trace=False))
    for cap in ([1, 2, 3] if ctx.quick else [1, 2, 3, 5, 8, 13]):
        cases.append(gen_at_capacity(w, r, cap))
    for v in SERIAL_VARIANTS:
        for n in ([0, 3, 6] if ctx.quick else [0, 1, 2, 3, 5, 8, 12]):
            cases.append(gen_serial(w, r, n, "short", v))
    # real rendering (true widths), two key types
    w2 = World(b"", "very-low")
    for ww in (w, w2):
        for ps in [(), (0,), (0, 1), (0, 0), (2, 0), (2, 3, 0), (0, 1, 1), (3, 1, 0)] if ctx.quick else \
                [ps for n in range(0, 4) for ps in labelled_trees(n)]:
            b = Builder(ww, mode="real", depths=(1000, 1), label="real tree%s" % (ps,))
            ix = build_tree(b, ps)
            arr = [(ix[i], None) for i in range(1, len(ps) + 1)]
            if ps and r.random() < 0.7:
                arr = decorate(b, ix, arr, r.choice(DECOS), r.randrange(1, len(ps) + 1), r.randrange(0, len(ps) + 1), r)
            for (i, ct) in arr:
                b.gather(i, ct)
            cases.append(b.case())
        for v in SERIAL_VARIANTS:
            cases.append(gen_serial(ww, r, r.choice([2, 3]), "real", v))
        cases.append(gen_odd_widths(ww, r))
        cases += list(gen_shared(ww, r, 1, 2, 4, mode="real"))
    # ---- run on the implementation + oracle (parallel), render for Coq
    with multiprocessing.Pool(12) as pool:
        results = pool.map(process_light, cases, chunksize=32)
    coq_cases, coq_ix = [], []      # coq_ix: index into `cases` of every rendered case
    viol = {}
    dist = {"ops": 0, "elements": 0, "waited": 0, "struct_errors": 0}
    harness_errors, unobservable, shape_notes = [], 0, set()
    for idx, (c, res) in enumerate(zip(cases, results)):
        bad, summ = res["bad"], res["summary"]
        if res["coq"] is not None:
            coq_cases.append(res["coq"])
            coq_ix.append(idx)
        for e in res["errors"]:
            harness_errors.append((c["label"], e))
        if not res["waiting"]:
            unobservable += 1
        shape_notes.update(res["notes"])
        ctx.count((c["label"], c["mode"], idx), nontrivial=summ["ops"] > 0)
        dist["ops"] += summ["ops"]
        dist["elements"] += summ["elements"]
        dist["waited"] += int(summ["max_waiting"] > 0)
        dist["struct_errors"] += summ["struct_errors"]
        for k, wh in bad:
            if k not in viol or case_size(c) < case_size(viol[k][1]):
                viol[k] = (wh, c)
    # arrival-order independence, directly: the orders of one random tree end with the same elements
    for g in groups:
        c0 = cases[g[0]]
        distinct_valid = len(c0["pool"])
        if distinct_valid > c0["cap"]:
            continue
        keysets = [results[i]["keys"] for i in g]
        for i, ks in zip(g, keysets):
            if ks is not None and keysets[0] is not None and ks != keysets[0]:
                k = "order/result-depends-on-arrival-order"
                if k not in viol or case_size(cases[i]) < case_size(viol[k][1]):
                    viol[k] = ("two arrival orders of the same %d offers end with %d and %d elements" % (
                        len(cases[i]["ops"]), len(keysets[0]), len(ks)), cases[i])
    # further random trees through the implementation and the oracle only (no model evaluation)
    extra, egroups = [], []
    for i in range(40 if ctx.quick else 400):
        n = r.choice([5, 8, 12, 20, 40, 60])
        cs = gen_random_tree(w, r, n, 4, trace=False, tag=b"x%d" % i)
        egroups.append(list(range(len(extra), len(extra) + len(cs))))
        extra += cs
    with multiprocessing.Pool(12) as pool:
        eres = pool.map(oracle_only, extra, chunksize=16)
    for c, (bad, _ks, nops, errs_) in zip(extra, eres):
        ctx.count((c["label"], "oracle-only", nops), nontrivial=True)
        for e in errs_:
            harness_errors.append((c["label"], e))
        for k, wh in bad:
            if k not in viol or case_size(c) < case_size(viol[k][1]):
                viol[k] = (wh, c)
    for g in egroups:
        if len(extra[g[0]]["pool"]) > extra[g[0]]["cap"]:
            continue
        for i in g[1:]:
            if eres[i][1] is not None and eres[g[0]][1] is not None and eres[i][1] != eres[g[0]][1]:
                k = "order/result-depends-on-arrival-order"
                if k not in viol or case_size(extra[i]) < case_size(viol[k][1]):
                    viol[k] = ("two arrival orders of the same %d offers end with %d and %d elements" % (
                        len(extra[i]["ops"]), len(eres[g[0]][1]), len(eres[i][1])), extra[i])
    ctx.extra["oracle_only_cases"] = len(extra)
    # shuffled public dumps
    for c in cases[:n_exh:7] + [cases[g[0]] for g in groups]:
        try:
            found = shuffled_reload(c, run_impl(c), r)
        except Exception as ex:   # noqa: BLE001
            harness_errors.append((c["label"], "shuffled reload: %r" % ex))
            found = []
        for k, wh in found:
            if k not in viol or case_size(c) < case_size(viol[k][1]):
                viol[k] = (wh, c)
    # harness trouble and unexpected internal shapes: the correspondence is broken, never a crash
    for (label, e) in harness_errors[:5]:
        ctx.broke("correspondence: the harness could not observe the implementation on case %r" % label, e)
    if unobservable or shape_notes:
        ctx.broke("correspondence: the waiting area of TokenTree does not have a shape the harness can read "
                  "(%d cases compared on the public surface only: elements, get_missing, verify, get_root_path, dumps)" % unobservable,
                  "; ".join(sorted(shape_notes)))
    for k, (wh, c) in sorted(viol.items()):
        ctx.violation(k, "%s [case %s, %d operations]" % (wh, c["label"], len(c["ops"])), case_to_json(c))
    for c in (cases[n_exh - 1], cases[n_exh + 3], cases[groups[0][0]]):
        ctx.sample({"label": c["label"], "operations": len(c["ops"]), "pool": len(c["pool"]),
                    "ops": [o if o[0] == "g" else ["u", len(o[1])] for o in c["ops"]][:12]})
    ctx.extra["case_mix"] = {"exhaustive_trees_x_orders": n_exh, "decorated": n_dec,
                             "random_tree_orders": sum(len(g) for g in groups),
                             "token_objects_shared_with_another_owners_tree": n_shared,
                             "other (overflow, serialisation, real widths)": len(cases) - n_exh - n_dec - sum(len(g) for g in groups),
                             "total_operations": dist["ops"], "total_final_elements": dist["elements"],
                             "cases_that_used_the_waiting_area": dist["waited"],
                             "unserialize_public_on_ragged_input_raised_struct_error (accepted, see C03)": dist["struct_errors"]}
    # ---- model inside Coq
    # with the translated definitions available every case is evaluated through both models
    imports, runfn = (IMPORTS_GEN, "run_case_both") if gen_ok else (IMPORTS, "run_case")
    ctx.extra["model_evaluated"] = "hand model + generated definitions" if gen_ok else "hand model only"
    mism, errs = coqrun.eval_mismatches(imports, runfn, "bytes_eqb", coq_cases, os.path.join(ctx.scratch, "tt"),
                                        ctype="case * list Z", shard=60 if ctx.quick else 120, jobs=12, timeout=900)
    for e in errs[:5]:
        ctx.broke("model evaluation failed", e)
    for j in mism[:8]:
        i = coq_ix[j]
        detail = {"label": cases[i]["label"], "mode": cases[i]["mode"], "impl_flat": coq_cases[j][1][:600],
                  "case": case_to_json(cases[i])}
        what = "correspondence: model and implementation differ on case %r" % cases[i]["label"]
        if j == mism[0]:
            detail["model_flat"] = coqrun.eval_terms(imports, ["%s %s" % (runfn, coq_cases[j][0])], os.path.join(ctx.scratch, "dbg"))[-1500:]
            if "-777" in detail["model_flat"][:200]:
                what = "correspondence: the GENERATED definitions differ from the hand model on case %r" % cases[i]["label"]
        ctx.broke(what, json.dumps(detail)[:3900])
    ctx.coverage["traces_validated_against_impl"] += len(coq_cases) - len(mism)
    ctx.coverage["rule"] = (
        "every rooted tree shape with <= %d tokens x every arrival permutation (as labelled trees, exhaustive); the same with one "
        "disturbance (forged signature/body, foreign key, dangling, duplicate, right/wrong content, child of a forged/foreign token) "
        "at every/random positions; random trees of 7..40 tokens with disturbances in several arrival orders; waiting-area overflow "
        "(capacity 0..8 and the real 100); the same Token object shown to another owner's tree before / after it is offered "
        "(foreign, forged, legit; every position); unserialize_public on dumps (ordered, reversed, shuffled, duplicated, forged, foreign, ragged, "
        "cut, garbage, split, empty); real widths with two key types; non-trivial = at least one operation" % nmax)
    ctx.coverage["exhaustive"] = False


def replay(path):
    js = json.load(open(path))
    rc = 0
    cases = []
    for v in js.get("violations", []):
        print("recorded: %s :: %s" % (v["key"], v["what"]))
        cases.append(case_from_json(v["case"]))
    cases += [case_from_json(c) for c in js.get("cases", [])]
    r, _ = replay_cases(cases, verbose=True)
    rc |= r
    for b in js.get("no_longer_checks", []):
        print("no longer checks:", b["what"])
        rc = 1
    return rc
