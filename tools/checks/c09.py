"""C09 - tunnel state is always reclaimed, whatever gets lost.

Stage G: tools/tr/tr_reclaim.py -> coq/gen/G09_rules.v (TunnelSettings defaults, Circuit.state, the do_remove
         chains, should_join_circuit, the retry budget rules, the relay_early tests)
Stage P: props/C09.v
Stage C: real TunnelCommunity nodes (origin, relays, exits) on a timed lossy network under virtual time;
         scripted teardown / abandonment at every position and phase, scripted loss / duplication / delay;
         every node's history replayed through the model in lockstep (one quiescent instant at a time)
Oracle : independent Python statement of the property on the implementation's observed behaviour:
         freshness of every table entry at every instant, emptiness and closed sockets at the deadline,
         join limit, relay_early budget, destroy shortcut.
"""
from __future__ import annotations

import asyncio
import hashlib
import itertools
import json
import logging
import multiprocessing
import os
import random
import struct
import types

from tools.vlib import coqrun
from tools.vlib.coqrun import cb, cz

IMPORTS = ("From Coq Require Import ZArith List Bool.\n"
           "From IPV8V Require Import lib.PyErr gen.G09_rules model.M09_reclaim model.M09_harness.\n"
           "Import ListNotations.\nOpen Scope Z_scope.\n")

CORPUS = os.path.join(os.path.dirname(os.path.dirname(os.path.dirname(os.path.abspath(__file__)))), "corpus", "C09")
BT_DATA = b"d1:ad2:id20:abcdefghij0123456789e1:q4:ping1:t2:aa1:y1:qe"     # DHT-shaped: passes the exit policy
JUNK_DATA = b"\xff" * 40                                                   # refused by the exit policy


# ================================================================================ rendering for Coq
def zl(xs):
    return "[" + "; ".join(cz(x) for x in xs) + "]"


def oz(x):
    return "None" if x is None else "(Some %s)" % cz(x)


def ro_c(r):
    return "(mkRo %s %s %s %s)" % tuple(cz(x) for x in r)


KIND = {"C": "KCirc", "R": "KRelay", "E": "KExit"}


def deferred_c(d):
    k = d[0]
    if k == "remove":
        return "(DRemove %s %s %s %s)" % (KIND[d[1]], cz(d[2]), cz(d[3]), cb(d[4]))
    if k == "create":
        return "(DCreate %s %s %s)" % (cz(d[1]), cz(d[2]), cz(d[3]))
    if k == "extend":
        return "(DExtend %s %s %s)" % (cz(d[1]), cz(d[2]), cz(d[3]))
    if k == "retry":
        return "(DRetry %s %s %s)" % (cz(d[1]), cz(d[2]), cb(d[3]))
    return "(DOpen %s)" % cz(d[1])


def node_c(a):
    circ = "; ".join("(%s, mkCirc %s %s %s %s %s %s %s)" % (cz(c[0]), ro_c(c[1]), cz(c[2]), cz(c[3]), cb(c[4]), oz(c[5]),
                                                           cz(c[6]), cz(c[7])) for c in a["circuits"])
    rel = "; ".join("(%s, mkRelay %s %s %s %s %s)" % (cz(r[0]), ro_c(r[1]), cz(r[2]), cz(r[3]), cb(r[4]), cz(r[5]))
                    for r in a["relays"])
    ex = "; ".join("(%s, mkExit %s %s %s %s %s)" % (cz(e[0]), ro_c(e[1]), cz(e[2]), cb(e[3]), cb(e[4]), zl(e[5]))
                   for e in a["exits"])
    rt = "; ".join("(%s, mkRetry %s %s %s %s %s)" % (cz(r[0]), cz(r[1]), cz(r[2]), cb(r[3]), cb(r[4]), cz(r[5]))
                   for r in a["retries"])
    cd = "; ".join("(%s, %s)" % (cz(c[0]), cz(c[1])) for c in a["createds"])
    cc = "; ".join("(%s, mkCreateC %s %s %s %s %s %s)" % tuple(cz(x) for x in c) for c in a["creates"])
    st = "; ".join(deferred_c(d) for d in a["starts"])
    sl = "; ".join("(%s, %s, %s)" % (cz(s[0]), KIND[s[1]], cz(s[2])) for s in a["sleeping"])
    return "(mkNode %s %s [%s] [%s] [%s] [%s] [%s] [%s] [%s] [%s])" % (cz(a["now"]), cz(a["last_sweep"]), circ, rel, ex,
                                                                       rt, cd, cc, st, sl)


def settings_c(s):
    return "(mkSettings %s %s %s %s %s %s %s %s %s %s %s %s %s)" % (
        cz(s["max_joined"]), cz(s["max_time"]), cz(s["max_inactive"]), cz(s["max_traffic"]), cz(s["circuit_timeout"]),
        cz(s["unstable_timeout"]), cz(s["next_hop_timeout"]), cz(s["remove_delay"]), cz(s["max_early"]), cz(s["sweep"]),
        cz(s["cache_timeout"]), cb(s["any_flag"]), cb(s["relay_flag"]))


def pick_c(p):
    if p is None or p[0] is None:
        return "np"
    return "(sp %s %s %s)" % (cz(p[0]), cb(p[1]), cz(p[2]))


def msg_c(m):
    k = m[0]
    if k == "create":
        return "(MCreate %s)" % cz(m[1])
    if k == "created":
        return "(MCreated %s %s %s)" % (cz(m[1]), m[2], pick_c(m[3]))
    if k == "extend":
        return "(MExtend %s)" % cz(m[1])
    if k == "extended":
        return "(MExtended %s %s %s)" % (cz(m[1]), m[2], pick_c(m[3]))
    if k == "data":
        return "(MData %s %s %s %s)" % (cb(m[1]), cb(m[2]), cb(m[3]), cz(m[4]))
    if k == "ping":
        return "MPing"
    if k == "pong":
        return "MPong"
    return "(MOther %s)" % cz(m[1])


def ev_c(e):
    k = e[0]
    if k == "cell":
        cr = e[6]
        crc = "CFail" if cr == "fail" else "CEmpty" if cr == "empty" else "(COk %s)" % msg_c(cr)
        return "(ERecvCell %s %s %s %s %s %s %s)" % (cz(e[1]), cz(e[2]), cb(e[3]), cb(e[4]), cz(e[5]), crc, zl(e[7]))
    if k == "destroy":
        return "(ERecvDestroy %s %s %s)" % (cz(e[1]), cz(e[2]), cz(e[3]))
    if k == "sweep":
        return "ESweep"
    if k == "ping":
        return "(EPing %s)" % zl(e[1])
    if k == "run":
        return "(ERun %d%%nat %s %s %s %s %s %s)" % (e[1], cb(e[2]), cz(e[3]), cz(e[4]), cz(e[5]), pick_c(e[6]), zl(e[7]))
    if k == "wake":
        return "(EWake %d%%nat)" % e[1]
    if k == "retry_timeout":
        return "(ERetryTimeout %s)" % cz(e[1])
    if k == "created_timeout":
        return "(ECreatedTimeout %s)" % cz(e[1])
    if k == "create_timeout":
        return "(ECreateTimeout %s)" % cz(e[1])
    if k == "create_circuit":
        return "(ECreateCircuit %s %s %s %s)" % (cz(e[1]), cz(e[2]), pick_c(e[3]), zl(e[4]))
    if k == "call_remove":
        return "(ECallRemove %s %s %s %s)" % (KIND[e[1]], cz(e[2]), cz(e[3]), cb(e[4]))
    if k == "send_data":
        return "(ESendData %s %s %s)" % (cz(e[1]), cz(e[2]), zl(e[3]))
    if k == "outside":
        return "(EOutside %s %s %s %s)" % (cz(e[1]), cz(e[2]), cb(e[3]), zl(e[4]))
    raise ValueError(k)


def out_c(o):
    k = o[0]
    if k == "cell":
        return "(OCell %s %s %s %s)" % (cz(o[1]), cz(o[2]), cb(o[3]), cz(o[4]))
    if k == "destroy":
        return "(ODestroy %s %s %s)" % (cz(o[1]), cz(o[2]), cz(o[3]))
    if k == "sendto":
        return "(OSendto %s %s)" % (cz(o[1]), cz(o[2]))
    if k == "open":
        return "(OOpen %s)" % cz(o[1])
    return "(OClose %s)" % cz(o[1])


def case_c(settings, init, instants):
    ins = []
    for evs, post in instants:
        obs = "; ".join("(%s, %s, [%s])" % (cz(t), ev_c(e), "; ".join(out_c(o) for o in outs)) for t, e, outs in evs)
        ins.append("([%s], %s)" % (obs, node_c(post)))
    return "(%s, %s, [%s])" % (settings_c(settings), node_c(init), ";\n  ".join(ins))


# ================================================================================ from segments to model events
MSG_NAMES = {1: "data", 2: "create", 3: "created", 4: "extend", 5: "extended", 6: "ping", 7: "pong"}


def parse_message(w, node, cid, msg, aux):
    """decrypted cell body -> abstract message (with the oracle outcomes observed while it was handled)"""
    from ipv8.messaging.anonymization import payload as pl
    from ipv8.messaging.anonymization.exit_socket import TunnelExitSocket
    mid = msg[0]
    data = node.get_prefix() + msg[0:1] + struct.pack("!I", cid) + msg[1:]
    cls = {1: pl.DataPayload, 2: pl.CreatePayload, 3: pl.CreatedPayload, 4: pl.ExtendPayload, 5: pl.ExtendedPayload,
           6: pl.PingPayload, 7: pl.PongPayload}.get(mid)
    if cls is None:
        return ("other", mid)
    try:
        p, _ = node.serializer.unpack_serializable(cls, data, offset=23)
    except Exception:   # noqa: the handler fails the same way and the dispatcher swallows it
        return ("other", mid)
    verify = next((a[1] for a in aux if a[0] == "verify"), "VOk")
    pick = next((a[1:4] for a in aux if a[0] == "pick"), None)
    if mid == 2:
        return ("create", p.identifier)
    if mid == 3:
        return ("created", p.identifier, verify, pick)
    if mid == 4:
        return ("extend", p.identifier)
    if mid == 5:
        return ("extended", p.identifier, verify, pick)
    if mid == 1:
        fake = types.SimpleNamespace(overlay=node, logger=logging.getLogger("c09"))
        allowed = bool(TunnelExitSocket.is_allowed(fake, p.data))
        return ("data", bool(p.org_address), tuple(p.dest_address) == ("0.0.0.0", 0), allowed, len(p.data))
    return ("ping",) if mid == 6 else ("pong",)


def seg_outs(w, sg):
    outs = []
    for a in sg.aux:
        if a[0] == "send":
            d = w.describe(("0.0.0.0", 0), ("0.0.0.0", 0), a[2])
            if d["kind"] == "cell":
                outs.append(("cell", a[1], d["cid"], d["early"], a[3] or 0))
            elif d["kind"] == "destroy":
                outs.append(("destroy", a[1], d.get("cid", -1), d.get("reason", -1)))
            else:
                outs.append(("cell", a[1], -1, False, -1))
        elif a[0] in ("sendto", "open", "close"):
            outs.append(a)
    return outs


def seg_event(w, sg):
    """-> (event tuple | None, problems)"""
    node, a, aux = sg.node, sg.args, sg.aux
    lens = [len(x[2]) for x in aux if x[0] == "send"]
    k = sg.kind
    if k == "Packet":
        data = a["data"]
        pfx = node.get_prefix()
        if data[:22] != pfx or len(data) <= 22:
            return None
        if data[22] == 0:
            if len(data) < 29:
                return None
            cid, plain, early = struct.unpack_from("!I??", data, 23)
            if any(x[0] == "relay" for x in aux):
                cr = "fail" if any(x[0] == "crypto_fail" for x in aux) else ("other", 0)
            else:
                inc = [x for x in aux if x[0] == "incoming"]
                if not inc or inc[0][1] is None:
                    cr = "fail"
                elif len(inc[0][1]) == 0:
                    cr = "empty"
                else:
                    cr = parse_message(w, node, cid, inc[0][1], aux)
            return ("cell", a["src"], cid, plain, early, len(data), cr, lens)
        d = next((x for x in aux if x[0] == "destroy"), None)
        if d is not None:
            return ("destroy", d[1], d[2], d[3])
        return None
    if k == "Sweep":
        return ("sweep",)
    if k == "Ping":
        return ("ping", lens)
    if k.startswith("Run"):
        idx = a.get("index")
        if idx is None:
            return ("run", 9999, False, 0, 0, 0, None, lens)
        if k == "RunExtend":
            fresh = next((x[1] for x in aux if x[0] == "fresh_cid"), None)
            number = next((x[2] for x in aux if x[0] == "cache_add" and x[1] == "create"), 0)
            target = next((x[1] for x in aux if x[0] == "send"), 0)
            return ("run", idx, fresh is not None, target, fresh or 0, number, None, lens)
        if k == "RunRetry":
            pick = next((x[1:4] for x in aux if x[0] == "pick"), None)
            return ("run", idx, False, 0, 0, 0, pick, lens)
        return ("run", idx, False, 0, 0, 0, None, lens)
    if k == "Wake":
        return ("wake", a["index"])
    if k == "Timeout":
        p = a["prefix"]
        if p == "retry":
            return ("retry_timeout", a["number"])
        if p == "created":
            return ("created_timeout", a["number"])
        if p == "create":
            return ("create_timeout", a["number"])
        return None
    if k == "ApiCreate":
        if a.get("cid") is None:
            return None
        pick = next((x[1:4] for x in aux if x[0] == "pick"), None)
        return ("create_circuit", a["cid"], a["hops"], pick, lens)
    if k == "ApiRemove":
        return ("call_remove", a["kind"], a["cid"], a["destroy"], a["remove_now"])
    if k == "ApiSendData":
        return ("send_data", a["dst"], a["cid"], lens)
    if k == "ApiOutside":
        return ("outside", a["cid"], a["len"], a["allowed"], lens)
    raise ValueError(k)


def node_settings(node):
    from tools.vlib.reclaim_harness import tk
    s = node.settings
    return {"max_joined": s.max_joined_circuits, "max_time": tk(s.max_time), "max_inactive": tk(s.max_time_inactive),
            "max_traffic": s.max_traffic, "circuit_timeout": tk(s.circuit_timeout), "unstable_timeout": tk(s.unstable_timeout),
            "next_hop_timeout": tk(s.next_hop_timeout), "remove_delay": tk(s.remove_tunnel_delay),
            "max_early": s.max_relay_early, "sweep": tk(5), "cache_timeout": tk(10),
            "any_flag": bool(s.peer_flags), "relay_flag": 1 in s.peer_flags}


class Renamer:
    """random 32-bit circuit ids -> first-occurrence indices (the model never computes with them)"""

    def __init__(self):
        self.m = {}

    def __call__(self, cid):
        if cid is None or cid < 0:
            return cid
        if cid not in self.m:
            self.m[cid] = len(self.m) + 1
        return self.m[cid]


def rename_state(a, rn):
    return {"now": a["now"], "last_sweep": a["last_sweep"],
            "circuits": [(rn(c[0]),) + tuple(c[1:]) for c in a["circuits"]],
            "relays": [(rn(r[0]), r[1], rn(r[2])) + tuple(r[3:]) for r in a["relays"]],
            "exits": [(rn(e[0]),) + tuple(e[1:]) for e in a["exits"]],
            "retries": [(rn(r[0]),) + tuple(r[1:]) for r in a["retries"]],
            "createds": [(rn(c[0]), c[1]) for c in a["createds"]],
            "creates": [(c[0], c[1], rn(c[2]), rn(c[3])) + tuple(c[4:]) for c in a["creates"]],
            "starts": [rename_deferred(d, rn) for d in a["starts"]],
            "sleeping": [(s[0], s[1], rn(s[2])) for s in a["sleeping"]]}


def rename_deferred(d, rn):
    if d[0] == "remove":
        return (d[0], d[1], rn(d[2])) + tuple(d[3:])
    if d[0] in ("create", "extend"):
        return (d[0], d[1], rn(d[2]), d[3])
    if d[0] == "retry":
        return (d[0], rn(d[1])) + tuple(d[2:])
    return (d[0], rn(d[1]))


def rename_event(e, rn):
    k = e[0]
    if k == "cell":
        return (k, e[1], rn(e[2])) + tuple(e[3:])
    if k == "destroy":
        return (k, e[1], rn(e[2]), e[3])
    if k == "run":
        return e[:4] + (rn(e[4]),) + e[5:]
    if k in ("retry_timeout", "created_timeout"):
        return (k, rn(e[1]))
    if k == "create_circuit":
        return (k, rn(e[1])) + tuple(e[2:])
    if k == "call_remove":
        return (k, e[1], rn(e[2])) + tuple(e[3:])
    if k == "send_data":
        return (k, e[1], rn(e[2]), e[3])
    if k == "outside":
        return (k, rn(e[1])) + tuple(e[2:])
    return e


def rename_out(o, rn):
    if o[0] in ("cell", "destroy"):
        return (o[0], o[1], rn(o[2])) + tuple(o[3:])
    return (o[0], rn(o[1])) + tuple(o[2:])


def empty_state(t):
    return {"now": t, "last_sweep": t, "circuits": [], "relays": [], "exits": [], "retries": [], "createds": [],
            "creates": [], "starts": [], "sleeping": []}


def build_cases(w, max_instants=400):
    """one lockstep case per node: (settings, initial state, [(events, expected state)])"""
    rn = Renamer()
    per_node = {i: [] for i in range(len(w.nodes))}
    last_t = {i: 0 for i in range(len(w.nodes))}
    problems = []
    for t, segs, post in w.instants:
        evs = {}
        for sg in segs:
            i = w.nid(sg.node)
            e = seg_event(w, sg)
            if e is None:
                continue
            if e[0] == "run" and e[1] == 9999:
                problems.append("deferred task not found in the bookkeeping: %s %r" % (sg.kind, sg.args.get("cid")))
            evs.setdefault(i, []).append((sg.t, rename_event(e, rn), [rename_out(o, rn) for o in seg_outs(w, sg)]))
        for i, a in post.items():
            if i in evs:
                last_t[i] = evs[i][-1][0]
            st = rename_state(a, rn)
            st["now"] = last_t[i]
            if i in evs or per_node[i]:
                per_node[i].append((evs.get(i, []), st))
    cases = []
    for i, ins in per_node.items():
        ins = [x for x in ins if x[0]]       # instants without modelled events only repeat the state
        # idle stretches (sweeps and pings of a node that holds nothing) are skipped; the next instant restarts
        # from the implementation's state, marked by an empty event list
        kept, prev, skipped = [], empty_state(0), None
        for evs, st in ins:
            trivial = is_empty(prev) and is_empty(st) and all(e[1][0] in ("sweep", "ping") for e in evs) and kept
            if trivial:
                skipped = st
            else:
                if skipped is not None:
                    kept.append(([], skipped))
                    skipped = None
                kept.append((evs, st))
            prev = st
        if not any(x[0] for x in kept[1:]) and len(kept) <= 1:
            continue
        for k in range(0, len(kept), max_instants):
            init = empty_state(0) if k == 0 else kept[k - 1][1]
            cases.append((i, case_c(node_settings(w.nodes[i]), init, kept[k:k + max_instants])))
    return cases, problems


def is_empty(st):
    return not any(st[k] for k in ("circuits", "relays", "exits", "retries", "createds", "creates", "starts", "sleeping"))


# ================================================================================ scenarios on the implementation
TPS = 1024
LAT = 16                      # base one-way latency (ticks)
DMAX = 2 * TPS                # largest extra delay a fault script may add
T_CREATE = TPS // 4
POLICY_TAGS = ("create", "created", "extend", "extended", "destroy")


def half_time(k):
    """the create for hop k+1 has just been accepted, its created is on the way back (fault-free timing)"""
    return T_CREATE + LAT * (1 + k * (k + 2)) + LAT // 2


def spec_settings(spec):
    st = dict(spec.get("settings") or {})
    return st


def make_policy(spec, w, state):
    """fault script -> policy(info) -> list of delivery delays (ticks)"""
    faults = spec.get("faults") or []
    rnd = random.Random(spec.get("seed", 0) * 7919 + 13) if spec.get("random") else None
    rp = spec.get("random") or {}

    def policy(info):
        key = (info["tag"], info["src"], info["dst"], info["occ"])
        cut = state.get("cut")
        if cut is not None and {info["src"], info["dst"]} == set(cut):
            return []
        crashed = state.get("crashed")
        if crashed is not None and crashed in (info["src"], info["dst"]):
            return []
        out = [LAT]
        for f in faults:
            if (f["tag"], f["src"], f["dst"], f["occ"]) == key:
                if f["act"] == "drop":
                    out = []
                elif f["act"] == "dup":
                    out = out + [LAT + f.get("delay", LAT)]
                elif f["act"] == "delay":
                    out = [LAT + f.get("delay", LAT)]
        if rnd is not None and info["tag"] in rp.get("tags", POLICY_TAGS):
            x = rnd.random()
            if x < rp.get("drop", 0.15):
                out = []
            elif x < rp.get("drop", 0.15) + rp.get("dup", 0.1):
                out = [LAT, LAT + rnd.randrange(1, DMAX)]
            elif x < rp.get("drop", 0.15) + rp.get("dup", 0.1) + rp.get("delay", 0.15):
                out = [LAT + rnd.randrange(1, DMAX)]
        return out
    return policy


def path_of(w, circuit):
    """nodes holding state for the circuit, in path order: [(node id, role, ids)]"""
    out = [(0, "origin", [circuit.circuit_id])]
    hop = circuit._hops[0] if circuit._hops else circuit.unverified_hop
    if hop is None:
        return out
    nid, cid = w.id_of_key(hop.peer.public_key.key_to_bin()), circuit.circuit_id
    seen = set()
    while nid < len(w.nodes) and (nid, cid) not in seen:
        seen.add((nid, cid))
        n = w.nodes[nid]
        if cid in n.relay_from_to:
            r = n.relay_from_to[cid]
            out.append((nid, "relay", [cid, r.circuit_id]))
            nid, cid = w.id_of_key(r.hop.peer.public_key.key_to_bin()), r.circuit_id
        elif cid in n.exit_sockets:
            out.append((nid, "exit", [cid]))
            nxt = [c for c in n.request_cache._identifiers.values() if c.prefix == "create" and c.from_circuit_id == cid]
            if not nxt:
                break
            nid, cid = w.id_of_key(nxt[-1].to_peer.public_key.key_to_bin()), nxt[-1].to_circuit_id
        else:
            break
    return out


def tear_down(w, nid, destroy):
    """the node drops everything it holds, as unload() would (with the configured delay)"""
    n = w.nodes[nid]
    for cid in list(n.circuits):
        w.api_remove(n, "C", cid, destroy)
    for cid in list(n.relay_from_to):
        w.api_remove(n, "R", cid, destroy)
    for cid in list(n.exit_sockets):
        w.api_remove(n, "E", cid, destroy)


class Oracle:
    """the property, stated directly on what the implementation did (independent of the Coq model)"""

    def __init__(self, w, spec):
        self.w, self.spec = w, spec
        self.viol = []
        self.early_relay = {}     # (node, cid, creation) -> forwarded relay_early cells
        self.early_origin = {}    # (cid, creation) -> non-extend cells marked relay_early
        self.expect_gone = []     # (node id, table, cid, destroy time, due)
        self.circ_side = {}       # (node id, cid) -> time of the last create / cell for that id
        self.seen_segs = 0
        self.max_entries = 0
        self.checked_entries = 0

    def bad(self, key, what):
        if len(self.viol) < 8 and sum(1 for k, _ in self.viol if k == key) < 2:
            self.viol.append((key, what))

    def limits(self, node):
        from tools.vlib.reclaim_harness import tk
        s = node.settings
        mi, sw, d = tk(s.max_time_inactive), tk(5), tk(s.remove_tunnel_delay)
        nht = tk(s.next_hop_timeout)
        init = int(s.circuit_timeout // s.next_hop_timeout)
        return mi, sw, d, nht, init

    def at_instant(self, w, t, post):
        # (0) what counts as activity of an exit entry is traffic from the circuit side: the create that made it and
        #     the cells that arrive for its id - judged here from the datagrams, not from last_activity
        for sg in w.segs[self.seen_segs:]:
            if sg.kind == "Packet":
                data = sg.args["data"]
                if len(data) >= 29 and data[22] == 0:
                    self.circ_side[(w.nid(sg.node), struct.unpack_from("!I", data, 23)[0])] = sg.t
            elif sg.kind == "RunCreate":
                self.circ_side[(w.nid(sg.node), sg.args["cid"])] = sg.t
        # (1) every entry in a table was active recently enough: nothing outlives its limits
        for i, a in post.items():
            node = w.nodes[i]
            mi, sw, d, nht, init = self.limits(node)
            for e in a["exits"]:
                ca = self.circ_side.get((i, e[0]))
                if ca is not None and t > ca + mi + sw + d:
                    self.bad("exit-outlives-circuit-silence", "node %d exit socket %d: nothing from the circuit side since %d, "
                             "entry still present at %d (last_activity %d)" % (i, e[0], ca, t, e[1][1]))
            for r in a["relays"]:
                self.checked_entries += 1
                if t > r[1][1] + mi + sw + d:
                    self.bad("stale-entry/relay", "node %d relay %d idle since %d still present at %d" % (i, r[0], r[1][1], t))
            for e in a["exits"]:
                self.checked_entries += 1
                if t > e[1][1] + mi + sw + d:
                    self.bad("stale-entry/exit", "node %d exit socket %d idle since %d still present at %d" % (i, e[0], e[1][1], t))
            for c in a["circuits"]:
                self.checked_entries += 1
                build = nht * (init + max(c[2], 1) - 1)
                if t > max(c[1][1] + mi + sw, c[1][0] + build) + d:
                    self.bad("stale-entry/circuit", "node %d circuit %d (created %d, idle since %d, hops %d/%d, closing %s) "
                             "still present at %d" % (i, c[0], c[1][0], c[1][1], c[3], c[2], c[4], t))
            self.max_entries = max(self.max_entries, len(a["relays"]) + len(a["exits"]) + len(a["circuits"]))
        # (2) an outside socket is open only while its exit socket is in the table
        for tr in w.transports:
            if not tr.closed:
                ov = tr.sock.overlay
                if ov.exit_sockets.get(tr.sock.circuit_id) is not tr.sock:
                    self.bad("leaked-socket", "node %d: transport of exit socket %d open although the entry is gone (t=%d)"
                             % (w.nid(ov), tr.sock.circuit_id, t))
        # (3) per-segment observations
        segs = w.segs[self.seen_segs:]
        self.seen_segs = len(w.segs)
        for sg in segs:
            node = sg.node
            i = w.nid(node)
            mx = node.settings.max_relay_early
            for a in sg.aux:
                if a[0] == "join":
                    if a[1] >= a[2]:
                        self.bad("join-limit", "node %d joined a circuit while holding %d >= %d entries" % (i, a[1], a[2]))
                elif a[0] == "send" and len(a[2]) >= 29 and a[2][22] == 0:
                    cid, plain, early = struct.unpack_from("!I??", a[2], 23)
                    if not early:
                        continue
                    if sg.kind == "Packet" and any(x[0] == "relay" for x in sg.aux):
                        r = node.relay_from_to.get(struct.unpack_from("!I", sg.args["data"], 23)[0])
                        if r is not None:
                            k = (i, id(r))
                            self.early_relay[k] = self.early_relay.get(k, 0) + 1
                            if self.early_relay[k] > mx:
                                self.bad("relay-early/relay", "node %d forwarded %d relay_early cells on one route (max %d)"
                                         % (i, self.early_relay[k], mx))
                    elif a[3] is not None and a[3] != 4 and cid in node.circuits and self.spec.get("kind") != "rogue":
                        k = (i, id(node.circuits[cid]))
                        self.early_origin[k] = self.early_origin.get(k, 0) + 1
                        if self.early_origin[k] > mx:
                            self.bad("relay-early/origin", "node %d marked %d non-extend cells relay_early (max %d)"
                                     % (i, self.early_origin[k], mx))
                elif a[0] == "destroy":
                    # an authenticated destroy from the adjacent peer: the entry it names (both routes of a relayed
                    # circuit) must be gone after remove_tunnel_delay; adjacency is judged here from the tables
                    mi, sw, d, nht, init = self.limits(node)
                    src, cid = a[1], a[2]
                    key = lambda peer: w.id_of_key(peer.public_key.key_to_bin())   # noqa
                    nxt = node.relay_from_to.get(cid)
                    prev = node.relay_from_to.get(nxt.circuit_id) if nxt is not None else None
                    if prev is not None and key(prev.hop.peer) == src:
                        self.expect_gone.append((i, "R", cid, sg.t, sg.t + d))
                        self.expect_gone.append((i, "R", nxt.circuit_id, sg.t, sg.t + d))
                    elif cid in node.exit_sockets and key(node.exit_sockets[cid].hop.peer) == src:
                        self.expect_gone.append((i, "E", cid, sg.t, sg.t + d))
                    elif cid in node.circuits and node.circuits[cid].hop is not None \
                            and key(node.circuits[cid].hop.peer) == src:
                        self.expect_gone.append((i, "C", cid, sg.t, sg.t + d))

    def check_shortcuts(self, w):
        tab = {"C": "circuits", "R": "relays", "E": "exits"}
        for (i, k, cid, t0, due) in self.expect_gone:
            for t, segs, post in w.instants_kept:
                if t >= due and i in post:
                    for e in post[i][tab[k]]:
                        if e[0] == cid and e[1][0] <= t0:
                            self.bad("destroy-shortcut", "node %d: %s entry %d named by a destroy at %d still present at %d"
                                     % (i, tab[k], cid, t0, t))
                    break

    def final(self, w, label):
        for i, n in enumerate(w.nodes):
            if w.crashed == i:
                continue
            if n.circuits or n.relay_from_to or n.exit_sockets:
                self.bad("not-reclaimed/" + label, "node %d holds circuits=%d relays=%d exits=%d at %s" % (
                    i, len(n.circuits), len(n.relay_from_to), len(n.exit_sockets), label))
            if w.sleeping[n] or w.starts[n]:
                self.bad("pending-removal/" + label, "node %d still has removal tasks pending at %s" % (i, label))
        for tr in w.transports:
            if not tr.closed and w.nid(tr.sock.overlay) != w.crashed:
                self.bad("socket-open/" + label, "node %d: outside socket of circuit %d not closed at %s" % (
                    w.nid(tr.sock.overlay), tr.sock.circuit_id, label))

    def final_caches(self, w, label):
        for i, n in enumerate(w.nodes):
            if w.crashed == i:
                continue
            left = [str(c) for c in n.request_cache._identifiers.values()]
            if left:
                self.bad("cache-left/" + label, "node %d request cache still holds %s" % (i, left[:4]))
            tasks = [t for t in n.get_tasks() if not t.done() and not getattr(t, "interval", None)]
            if tasks:
                self.bad("task-left/" + label, "node %d still has %d one-shot tasks pending" % (i, len(tasks)))


async def _scenario(loop, spec, want_cases):
    from tools.vlib import reclaim_harness as rh
    random.seed(spec.get("seed", 0) * 1000003 + 17)
    w = rh.World(loop, settings=spec_settings(spec), latency=LAT)
    w.crashed = None
    state = {}
    w.net.policy = make_policy(spec, w, state)
    orc = Oracle(w, spec)
    w.oracle_hooks.append(orc.at_instant)
    await w.start()
    if spec.get("kind"):
        return await _special(loop, w, orc, spec, want_cases)
    hops, phase, init, mode = spec["hops"], spec["phase"], spec.get("init"), spec.get("mode", "destroy")
    await loop.advance(T_CREATE / TPS)
    c = w.api_create(hops)
    res = {"built": False, "path": None}
    if c is None:
        await w.stop()
        return {"error": "no circuit"}
    # when does the teardown happen
    if phase == "half":
        t_td = half_time(spec.get("k", 0))
    elif phase == "ready":
        t_td = 2 * TPS
    else:
        t_td = 4 * TPS
    t_td = spec.get("t_td", t_td)
    # traffic before the teardown
    now = T_CREATE
    if phase == "transfer":
        t = TPS
        while t < t_td:
            await loop.advance((t - now) / TPS)
            now = t
            if c.state == "READY" and c.circuit_id in w.origin.circuits:
                w.api_send_data(c, ("1.2.3.4", 5), JUNK_DATA if spec.get("junk") else BT_DATA)
                for n in w.nodes:
                    for cid, sock in list(n.exit_sockets.items()):
                        if sock.enabled and sock.transport_ipv4 is not None:
                            w.api_outside(n, cid, BT_DATA)
            t += TPS // 2
    await loop.advance((t_td - now) / TPS)
    path = path_of(w, c)
    res["built"] = c.state == "READY"
    res["path"] = [(p[0], p[1]) for p in path]
    destroy = {"destroy": 2, "silent": 0}.get(mode, 0)
    dem = spec.get("demand")
    if dem is not None:
        # nodes of the path want circuits of their own (build_tunnels) but know nobody to build them with: every
        # round of their interval task first fails to create a circuit - and must still sweep
        res["demand"] = []
        for p in (range(len(path)) if dem == "all" else [dem]):
            if p < len(path):
                n = w.nodes[path[p][0]]
                n.candidates.clear()
                n.build_tunnels(1)
                res["demand"].append(path[p][0])
    if init is not None and init[0] == "node":
        pos = init[1]
        if pos >= len(path):
            res["skipped"] = True          # lost handshake messages left the path shorter: its last node acts
            pos = len(path) - 1
        tear_down(w, path[pos][0], destroy)
    elif init is not None and init[0] == "cut":
        j = init[1]
        if j < len(path):
            state["cut"] = (path[j - 1][0], path[j][0])
        else:
            res["skipped"] = True
    elif init is not None and init[0] == "crash":
        pos = init[1]
        if pos < len(path):
            w.crashed = state["crashed"] = path[pos][0]
        else:
            res["skipped"] = True
    if spec.get("data_after") and c.state == "READY" and c.circuit_id in w.origin.circuits:
        # the originator does not know about the teardown yet: the circuit's FIRST data cell is in flight and reaches
        # the exit while its entry lingers for remove_tunnel_delay (seed C09h: outside sockets closed before the delay,
        # the late cell opens them again and nothing closes them when the entry goes)
        w.api_send_data(c, ("1.2.3.4", 5), BT_DATA)
    # how long until everything must be gone
    n0 = w.origin
    mi, sw, d, nht, init_tries = orc.limits(n0)
    b1 = mi + sw + d
    slack = (3 * hops + 4) * (DMAX + LAT) + TPS
    build = nht * (init_tries + hops - 1)
    deadline = max(t_td + 2 * b1, T_CREATE + build + d + b1)
    if init is None or "max_time" in (spec.get("settings") or {}):
        # a teardown that found nothing to tear down leaves the circuit to its age limit
        deadline = max(deadline, T_CREATE + rh.tk(n0.settings.max_time) + sw + d + b1)
    deadline += slack
    res["deadline"] = deadline
    if spec.get("outside_after"):
        # the peer in the outside world does not know about the teardown: it keeps sending allowed datagrams to the
        # exit's outside ports (IPv4 and IPv6 alternately), more often than max_time_inactive, until past the deadline
        period = int(spec.get("outside_period", 8 * TPS))
        now, k, sent = t_td, 0, 0
        while now + period <= deadline:
            await loop.advance(period / TPS)
            now += period
            for ni, n in enumerate(w.nodes):
                if ni == w.crashed:
                    continue
                for cid, sock in list(n.exit_sockets.items()):
                    if sock.enabled and sock.transport_ipv4 is not None:
                        sent += bool(w.api_outside(n, cid, BT_DATA, v6=bool(k % 2)))
            k += 1
        res["outside_after"] = sent
        await loop.advance((deadline - now) / TPS)
    else:
        await loop.advance((deadline - t_td) / TPS)
    orc.final(w, "deadline")
    cases, problems = ([], [])
    if want_cases:
        cases, problems = build_cases(w)
    w.recording = False
    w.instants_kept = w.instants
    tail = rh.tk(n0.settings.unstable_timeout) + 15 * TPS
    await loop.advance(tail / TPS)
    orc.final(w, "after-caches")
    orc.final_caches(w, "after-caches")
    if spec.get("long_tail"):
        await loop.advance(3600)
        orc.final(w, "one-hour-later")
        orc.final_caches(w, "one-hour-later")
    orc.check_shortcuts(w)
    msgs = [(m["tag"], m["src"], m["dst"], m["occ"], m["t"]) for m in w.net.msgs if m["tag"] in POLICY_TAGS]
    res.update({"viol": orc.viol, "cases": cases, "problems": problems + ["stray activity: %r" % (s,) for s in w.stray[:3]],
                "msgs": msgs, "segments": len(w.segs), "entries_checked": orc.checked_entries,
                "max_entries": orc.max_entries, "escaped": [repr(e[2])[:100] for e in w.net.escaped[:3]],
                "exits_out": len(w.exits_out), "shortcuts": len(orc.expect_gone),
                "early_max": max(list(orc.early_relay.values()) + list(orc.early_origin.values()) + [0])})
    await w.stop()
    return res


async def _special(loop, w, orc, spec, want_cases):
    """join-limit probe / originator that ignores its relay_early budget"""
    from tools.vlib import reclaim_harness as rh
    kind = spec["kind"]
    await loop.advance(T_CREATE / TPS)
    circuits = []
    if kind == "join":
        # more circuits than the joined-circuit limit of the relays / exits allows
        for i in range(spec.get("n", 6)):
            c = w.api_create(spec["hops"])
            if c is not None:
                circuits.append(c)
            await loop.advance(96 / TPS)
        await loop.advance(1)
        ready = sum(1 for c in circuits if c.state == "READY")
        t_td = rh.tk(loop.time())
        for c in circuits:
            if c.circuit_id in w.origin.circuits:
                w.api_remove(w.origin, "C", c.circuit_id, 2 if spec.get("mode") == "destroy" else 0)
        res = {"built": ready > 0, "ready": ready}
    elif kind == "late_create":
        # the network delivers a second copy of the create long after the first (the 60 s CreatedRequestCache has
        # expired) while the circuit is alive and its exit socket has open transports
        c = w.api_create(1)
        await loop.advance(1)
        res = {"built": c is not None and c.state == "READY"}
        first = w.net.log[0]
        for i in range(int(spec.get("alive", 70)) * 2):
            if c.circuit_id in w.origin.circuits:
                w.api_send_data(c, ("1.2.3.4", 5), BT_DATA)
            await loop.advance(0.5)
        w.net._deliver(first[0], first[1], first[2], "create")
        await loop.advance(1)
        t_td = rh.tk(loop.time())
        if c.circuit_id in w.origin.circuits:
            w.api_remove(w.origin, "C", c.circuit_id, 2)
    else:
        c = w.api_create(spec["hops"])
        await loop.advance(1)
        res = {"built": c is not None and c.state == "READY"}
        if c is not None and c.state == "READY":
            for i in range(spec.get("n", 24)):
                c.relay_early_count = 0          # an originator that does not keep to its budget
                w.api_send_data(c, ("1.2.3.4", 5), BT_DATA)
                await loop.advance(32 / TPS)
        t_td = rh.tk(loop.time())
        if c is not None and c.circuit_id in w.origin.circuits:
            w.api_remove(w.origin, "C", c.circuit_id, 2)
    mi, sw, d, nht, init_tries = orc.limits(w.origin)
    b1 = mi + sw + d
    deadline = t_td + max(2 * b1, nht * (init_tries + spec.get("hops", 1) - 1) + d + b1) + 8 * (DMAX + LAT) + TPS
    await loop.advance((deadline - t_td) / TPS)
    orc.final(w, "deadline")
    cases, problems = ([], [])
    if want_cases:
        cases, problems = build_cases(w)
        skip = set(spec.get("skip_nodes") or [])
        cases = [c for c in cases if c[0] not in skip]
    w.recording = False
    w.instants_kept = w.instants
    await loop.advance((rh.tk(w.origin.settings.unstable_timeout) + 15 * TPS) / TPS)
    orc.final(w, "after-caches")
    orc.final_caches(w, "after-caches")
    orc.check_shortcuts(w)
    joins = sum(1 for sg in w.segs for a in sg.aux if a[0] == "join")
    res.update({"viol": orc.viol, "cases": cases, "problems": problems + ["stray activity: %r" % (x,) for x in w.stray[:3]],
                "msgs": [], "segments": len(w.segs), "entries_checked": orc.checked_entries, "max_entries": orc.max_entries,
                "escaped": [], "exits_out": len(w.exits_out), "shortcuts": len(orc.expect_gone), "joins": joins,
                "early_max": max(list(orc.early_relay.values()) + list(orc.early_origin.values()) + [0])})
    await w.stop()
    return res


def run_scenario(spec, want_cases=True):
    from tools.vlib.vtime import VLoop, patched_time
    loop = VLoop()
    asyncio.set_event_loop(loop)
    try:
        with patched_time(loop):
            return loop.run_until_complete(_scenario(loop, spec, want_cases))
    finally:
        try:
            loop.run_until_complete(asyncio.sleep(0))
        except Exception:   # noqa
            pass
        loop.close()


# ================================================================================ families of scenarios
def subsets(items, upto):
    for n in range(upto + 1):
        yield from itertools.combinations(items, n)


def _stable_hash(x):
    return int(hashlib.sha1(json.dumps(x, sort_keys=True, default=str).encode()).hexdigest()[:8], 16)


def fault_of(m, act="drop", delay=None):
    f = {"tag": m[0], "src": m[1], "dst": m[2], "occ": m[3], "act": act}
    if delay is not None:
        f["delay"] = delay
    return f


def run_job(job):
    """a base scenario and its fault variants, enumerated from the messages of the fault-free run"""
    base, mode, upto, lockstep = job["base"], job["enumerate"], job["upto"], job["lockstep"]
    out = []
    r0 = run_scenario(dict(base, faults=[]), want_cases=lockstep >= 0)
    out.append((dict(base, faults=[]), r0))
    if r0.get("error") or mode is None:
        return [_slim(s, r) for s, r in out]
    if mode == "destroy":
        msgs = [m for m in r0["msgs"] if m[0] == "destroy"]
    else:
        msgs = [m for m in r0["msgs"] if m[0] != "destroy" and m[4] <= base.get("t_td", 10 ** 9) + 4 * LAT + 64 * 8]
    msgs = msgs[:14]
    variants = []
    ps = job.get("pair_sample")
    for sub in subsets(msgs, upto):
        if sub:
            if ps and len(sub) >= 2 and (_stable_hash(sub) % ps) != 0:
                continue
            variants.append([fault_of(m) for m in sub])
    for m in msgs[:6]:
        variants.append([fault_of(m, "dup", 5 * LAT)])
        variants.append([fault_of(m, "delay", DMAX - 1)])
    for fs in variants:
        spec = dict(base, faults=fs)
        want = lockstep >= 1 and (len(fs) <= 1 or (_stable_hash(fs) % 5) < lockstep)
        out.append((spec, run_scenario(spec, want_cases=want)))
    return [_slim(s, r) for s, r in out]


def _slim(spec, r):
    r = dict(r)
    r.pop("msgs", None)
    return spec, r


def families(quick, rng, seed0=0):
    jobs = []
    up_half = 2 if quick else 3
    for h in (1, 2, 3):
        # torn down / abandoned once ready, idle or in the middle of a transfer
        for phase in ("ready", "transfer"):
            inits = [(("node", p), m) for p in range(h + 1) for m in ("destroy", "silent")]
            inits += [(("cut", j), "cut") for j in range(1, h + 1)] + [(("crash", p), "crash") for p in range(h + 1)]
            for init, mode in inits:
                jobs.append({"base": {"hops": h, "phase": phase, "init": init, "mode": mode, "seed": seed0 + len(jobs) + 1,
                                      "family": "teardown"},
                             "enumerate": "destroy" if init[0] == "node" and mode == "destroy" else None, "upto": 3,
                             "lockstep": 5})
        # half-built: torn down / abandoned after k hops, with every small subset of handshake messages lost
        for k in range(h):
            inits = [(None, "none")] + [(("node", p), m) for p in range(min(k + 2, h + 1)) for m in ("destroy", "silent")]
            for init, mode in inits:
                base = {"hops": h, "phase": "half", "k": k, "init": init, "mode": mode, "seed": seed0 + len(jobs) + 1,
                        "family": "half", "settings": {"max_time": 100}}
                base["t_td"] = half_time(k)
                jobs.append({"base": base, "enumerate": "build", "upto": up_half if (quick and h == 3 and False) else up_half,
                             "lockstep": 1 if quick else 2})
        # the outside peer keeps talking to the exit after the circuit was torn down / abandoned upstream
        outs = [(("node", p), m) for p in range(h) for m in ("destroy", "silent")]
        outs += [(("cut", j), "cut") for j in range(1, h + 1)] + [(("crash", p), "crash") for p in range(h)]
        for init, mode in outs:
            jobs.append({"base": {"hops": h, "phase": "transfer", "init": init, "mode": mode, "seed": seed0 + len(jobs) + 1,
                                  "family": "outside-peer", "outside_after": True,
                                  "outside_period": (8 if len(jobs) % 2 else 15) * TPS},
                         "enumerate": "destroy" if mode == "destroy" else None, "upto": 3, "lockstep": 5})
        # nodes on the path with a demand for own circuits that cannot be met (each position, and all at once),
        # while the teardown does not reach them: silent removal, lost destroys, cut links, crashed originator
        for dem in list(range(h + 1)) + ["all"]:
            dinits = [(("node", 0), "silent"), (("node", 0), "destroy"), (("crash", 0), "crash")]
            dinits += [(("cut", j), "cut") for j in range(1, h + 1)]
            for init, mode in dinits:
                phase = "transfer" if (len(jobs) % 3) else "ready"
                base = {"hops": h, "phase": phase, "init": init, "mode": mode, "seed": seed0 + len(jobs) + 1,
                        "family": "own-demand", "demand": dem}
                if phase == "transfer" and len(jobs) % 2:
                    base["outside_after"] = True
                jobs.append({"base": base, "enumerate": "destroy" if mode == "destroy" else None, "upto": 3, "lockstep": 5})
        # a node behind the originator tears the idle circuit down while its first data cell is on the way
        for p in range(1, h + 1):
            for m in ("destroy", "silent"):
                jobs.append({"base": {"hops": h, "phase": "ready", "init": ("node", p), "mode": m, "seed": seed0 + len(jobs) + 1,
                                      "family": "data-in-flight", "data_after": True},
                             "enumerate": None, "upto": 0, "lockstep": 5})
        # age limit and traffic limit, nobody tears anything down
        jobs.append({"base": {"hops": h, "phase": "ready", "init": None, "mode": "none", "seed": seed0 + len(jobs) + 1,
                              "family": "age-limit", "settings": {"max_time": 40}}, "enumerate": None, "upto": 0, "lockstep": 5})
        jobs.append({"base": {"hops": h, "phase": "transfer", "init": None, "mode": "none", "seed": seed0 + len(jobs) + 1, "t_td": 12 * TPS,
                              "family": "traffic-limit", "settings": {"max_time": 60, "max_traffic": 1500}},
                     "enumerate": None, "upto": 0, "lockstep": 5})
    n_rand = 48 if quick else 500
    for i in range(n_rand):
        h = rng.choice((1, 2, 3))
        phase = rng.choice(("half", "ready", "transfer"))
        kind = rng.choice(("node", "node", "cut", "crash", "none"))
        init = None if kind == "none" else (kind, rng.randrange(1 if kind == "cut" else 0, h + 1))
        base = {"hops": h, "phase": phase, "init": init, "mode": rng.choice(("destroy", "silent")), "seed": seed0 + 1000 + i,
                "family": "random", "settings": {"max_time": 100},
                "random": {"tags": ["create", "created", "extend", "extended", "destroy", "ping", "pong", "data"],
                           "drop": rng.choice((0.05, 0.15, 0.3)), "dup": rng.choice((0.0, 0.1, 0.25)),
                           "delay": rng.choice((0.0, 0.15, 0.3))}}
        if phase == "transfer" and rng.random() < 0.5:
            base["outside_after"] = True
            base["outside_period"] = rng.choice((4, 8, 15)) * TPS
        if phase != "half" and rng.random() < 0.3:
            base["demand"] = rng.choice(list(range(h + 1)) + ["all"])
        if phase == "half":
            base["k"] = rng.randrange(h)
            base["t_td"] = half_time(base["k"])
        if not quick and i % 50 == 0:
            base["long_tail"] = True
        jobs.append({"base": base, "enumerate": None, "upto": 0, "lockstep": 5})
    return jobs


# ================================================================================ the check
def special_jobs(quick):
    jobs = []
    for h, lim in ((1, 2), (2, 3), (3, 4), (2, 1)):
        for mode in ("destroy", "silent"):
            jobs.append({"base": {"kind": "join", "hops": h, "n": 7, "settings": {"max_joined_circuits": lim},
                                  "seed": 500 + len(jobs), "mode": mode, "family": "join-limit"},
                         "enumerate": None, "upto": 0, "lockstep": 5})
    for h in (2, 3):
        jobs.append({"base": {"kind": "rogue", "hops": h, "n": 24, "seed": 600 + h, "skip_nodes": [0],
                              "family": "relay-early"}, "enumerate": None, "upto": 0, "lockstep": 5})
    for m in (1, 3):
        jobs.append({"base": {"kind": "rogue", "hops": 3, "n": 12, "seed": 610 + m, "skip_nodes": [0],
                              "settings": {"max_relay_early": m}, "family": "relay-early"},
                     "enumerate": None, "upto": 0, "lockstep": 5})
    jobs.append({"base": {"kind": "late_create", "alive": 70, "seed": 620, "family": "late-create"},
                 "enumerate": None, "upto": 0, "lockstep": 5})
    return jobs


def thin_jobs(jobs, quick):
    """quick tier: pairs of lost handshake messages are sampled for the longest circuits"""
    if not quick:
        return jobs
    for j in jobs:
        b = j["base"]
        if b.get("family") == "half" and b["hops"] == 3:
            j["pair_sample"] = 4
    return jobs


def check_translation_against_live_class():
    """the constants the translator read from the source are the ones the running class carries"""
    import re
    from ipv8.messaging.anonymization.community import TunnelSettings
    from ipv8.messaging.anonymization import tunnel
    from tools.tr import tr_reclaim
    text = open(tr_reclaim.DEST).read()
    got = dict(re.findall(r"Definition ([A-Z_0-9]+) : Z := (-?\d+)\.", text))
    live = {"MAX_JOINED_CIRCUITS": TunnelSettings.max_joined_circuits, "MAX_TIME": TunnelSettings.max_time,
            "MAX_TIME_INACTIVE": TunnelSettings.max_time_inactive, "MAX_TRAFFIC": TunnelSettings.max_traffic,
            "CIRCUIT_TIMEOUT": TunnelSettings.circuit_timeout, "UNSTABLE_TIMEOUT": TunnelSettings.unstable_timeout,
            "NEXT_HOP_TIMEOUT": TunnelSettings.next_hop_timeout, "REMOVE_TUNNEL_DELAY": TunnelSettings.remove_tunnel_delay,
            "MAX_RELAY_EARLY": TunnelSettings._max_relay_early, "PING_INTERVAL_X2": int(tunnel.PING_INTERVAL * 2)}
    return [(k, got.get(k), v) for k, v in live.items() if got.get(k) != str(v)]


def _pool(n):
    return multiprocessing.get_context("fork").Pool(n)


def run(ctx):
    from tools.tr import tr_expr, tr_reclaim
    # ---- stage 0: corpus
    if os.path.isdir(CORPUS):
        for fn in sorted(os.listdir(CORPUS)):
            if fn.endswith(".json"):
                w = json.load(open(os.path.join(CORPUS, fn)))
                r = run_scenario(_tuplify(w["spec"]), want_cases=False)
                for key, what in r.get("viol", []):
                    ctx.violation(key, "corpus %s: %s" % (fn, what), {"spec": w["spec"]})
    # ---- stage G
    have_model = True
    try:
        text = tr_reclaim.write()
        ctx.extra["translator_sha"] = hashlib.sha256(text.encode()).hexdigest()[:16]
        bad = check_translation_against_live_class()
        if bad:
            ctx.broke("translated constants differ from the live TunnelSettings", bad)
    except (tr_expr.Unsupported, OSError, SyntaxError) as e:
        ctx.broke("translator tr_reclaim aborted", e)
        have_model = False
    # ---- stage P
    ok = ctx.proofs() if have_model else False
    okx = ctx.proofs(part="C09x") if have_model else False       # path-level theorems over the network model
    have_net_model = have_model and (okx or coqrun.make(["model/M09_network.vo"], timeout=600)[0])
    have_model = have_model and (ok or _model_compiles())
    # ---- stage C
    rng = ctx.rng("families")
    jobs = thin_jobs(families(ctx.quick, rng, 10000 * (ctx.seed - 1)), ctx.quick) + special_jobs(ctx.quick)
    procs = min(14, os.cpu_count() or 4)
    with _pool(procs) as pool:
        results = pool.map(run_job, jobs, chunksize=1)
    cases = {}
    order = []
    stats = {"scenarios": 0, "built": 0, "segments": 0, "entries_checked": 0, "shortcuts": 0, "by_family": {},
             "with_faults": 0, "skipped_teardown": 0, "exit_datagrams": 0}
    for jr in results:
        for spec, r in jr:
            stats["scenarios"] += 1
            fam = spec.get("family", "?")
            stats["by_family"][fam] = stats["by_family"].get(fam, 0) + 1
            if r.get("error"):
                ctx.broke("harness: scenario did not start (%s)" % r["error"], spec)
                continue
            key = json.dumps(spec, sort_keys=True, default=str)
            ctx.count(hashlib.sha1(key.encode()).hexdigest(), nontrivial=bool(r.get("built") or r.get("segments", 0) > 300))
            stats["built"] += bool(r.get("built"))
            stats["segments"] += r["segments"]
            stats["entries_checked"] += r["entries_checked"]
            stats["shortcuts"] += r["shortcuts"]
            stats["with_faults"] += bool(spec.get("faults") or spec.get("random"))
            stats["skipped_teardown"] += bool(r.get("skipped"))
            stats["exit_datagrams"] += r.get("exits_out", 0)
            for k, what in r["viol"]:
                ctx.violation(k, what, {"spec": spec})
            for e in r.get("escaped", []):
                ctx.violation("exception-escaped", "an exception escaped to the transport: %s" % e, {"spec": spec})
            for pr in r["problems"]:
                ctx.broke("harness bookkeeping: %s" % pr, spec)
            nf = len(spec.get("faults") or []) + (2 if spec.get("random") else 0)
            for i, c in r["cases"]:
                if c not in cases:
                    cases[c] = (nf, spec, i)
                    order.append(c)
            if len(ctx.coverage["samples"]) < 6 and (spec.get("faults") or spec.get("kind")):
                ctx.sample({"spec": spec, "built": r.get("built"), "path": r.get("path"), "segments": r["segments"],
                            "entries_checked": r["entries_checked"]})
    ctx.extra["scenario_stats"] = stats
    # lockstep in Coq: fewest faults first, within a size budget
    budget = 2_200_000 if ctx.quick else 45_000_000
    order.sort(key=lambda c: (cases[c][0], len(c)))
    chosen, size = [], 0
    for c in order:
        if size + len(c) > budget:
            continue
        chosen.append(c)
        size += len(c)
    ctx.extra["lockstep"] = {"distinct_cases": len(order), "evaluated": len(chosen), "bytes": size}
    if have_model and chosen:
        mism, errs = coqrun.eval_mismatches(IMPORTS, "run_case", "Nat.eqb", [(c, "0%nat") for c in chosen],
                                            os.path.join(ctx.scratch, "lockstep"), jobs=procs, max_bytes=200000)
        for e in errs[:3]:
            ctx.broke("correspondence: Coq evaluation failed", e)
        for i in mism[:5]:
            nf, spec, node = cases[chosen[i]]
            code = coqrun.eval_terms(IMPORTS, ["run_case %s" % chosen[i]], os.path.join(ctx.scratch, "lockstep"))
            m = __import__("re").search(r"=\s*(\d+)%nat", code)
            code = int(m.group(1)) if m else -1
            why = {1: "outputs differ", 2: "state differs", 3: "event loop late (timing assumption)"}.get(code // 1000, "?")
            ctx.broke("correspondence: node %d of a scenario disagrees with the model in instant %d (%s)" % (
                node, code % 1000, why), {"spec": spec})
        ctx.coverage["traces_validated_against_impl"] += len(chosen) - len(mism)
    # ---- path level: whole-network histories of teardown scenarios through coq/model/M09_network.v
    from tools.checks import c09_path
    c09_path.stage(ctx, have_model=have_net_model)
    ctx.coverage["rule"] = (
        "real TunnelCommunity nodes (1 originator, 3 relays, 2 exits) on a timed lossy network under a virtual clock; "
        "circuits of 1..3 hops; teardown / silent removal / link cut / node crash at every position; phases half-built "
        "(after 0..h-1 hops), ready, mid-transfer; every subset of <= %d lost handshake messages and every subset of lost "
        "destroys, plus single duplications and 2 s delays; %d random loss/dup/delay scripts over all message types; age "
        "and traffic limits; join limit; an originator ignoring its relay_early budget. Oracle at every quiescent instant "
        "(entry freshness, no open socket without table entry), at the deadline computed from the settings, after the "
        "cache time-outs%s; every node history replayed in Coq in lockstep (first %d bytes of distinct cases)" % (
            2 if ctx.quick else 3, 48 if ctx.quick else 500, "" if ctx.quick else " and one hour later for a sample", budget) +
        "; path level: teardown with a destroy or silently at the originator or at any node of the path while the originator "
        "stays alive, a cut link, an isolated node; fault-free, every destroy lost, random loss / duplication / delay (up to "
        "2 s); the whole network history (every delivery tied to the datagram in flight) replayed through "
        "coq/model/M09_network.v: timeliness, identity of delivered messages, outputs, every node's tables at the quiet point "
        "and at the deadline; hypotheses (quiet_shape_b, nrun_ok with D = latency + 2 s, all_on_time) and conclusion "
        "(net_holds = false at T > tq + B_path) of path_bounded_reclaim_partial evaluated on every history")
    ctx.coverage["trusted_base"] = [
        "Coq 8.16.1 kernel (vm_compute)", "tools/tr/tr_reclaim.py + tr_expr.py (constants and decision rules from the source)",
        "tools/vlib/reclaim_harness.py (instrumentation, state abstraction alpha, timed lossy network), tools/vlib/vtime.py",
        "tools/checks/c09_path.py (segments -> network trace: flight mirror, delivery matching by datagram bytes)",
        "fake transports in place of the exit sockets' OS sockets", "CPython 3.12 asyncio under the virtual clock"]
    ctx.assumptions = [
        "timely: interval tasks, sleeps and request-cache time-outs fire on time and tasks created by ensure_future run "
        "before the clock moves (evaluated on every replayed history: code 3000+k would be reported)",
        "cryptography, random identifiers and candidate selection are oracles carried by the events",
        "settings_ok: 0 <= max_time_inactive, sweep, remove_tunnel_delay; 0 < next_hop_timeout <= circuit_timeout",
        "path level (path_bounded_reclaim_partial): quiet_shape_b - circuit torn down at the originator, or path broken at "
        "position j (node without entries / dead link) with the originator last active by tq - B_entry, handshake over, "
        "entries at their path positions; nrun_ok - no new traffic for the ids of the path, datagram life-time <= D, typed "
        "decryption, nothing delivered on dead links (all evaluated on the replayed histories); distinct nodes and ids on "
        "the path; not covered: half-built circuits, nodes that stop being served (list at the end of coq/props/C09_path.v)"]


def _model_compiles():
    ok, log, cmd, dt = coqrun.make(["model/M09_harness.vo"], timeout=600)
    return ok


def _tuplify(spec):
    spec = dict(spec)
    if isinstance(spec.get("init"), list):
        spec["init"] = tuple(spec["init"])
    return spec


def replay(path):
    from tools.vlib import repoenv
    repoenv.setup()
    w = json.load(open(path))
    items = w.get("violations") or [{"key": w.get("key"), "case": {"spec": w.get("spec")}}]
    rc = 0
    for v in items:
        spec = (v.get("case") or {}).get("spec")
        if not spec:
            continue
        if str(v.get("key", "")).startswith("path-"):
            from tools.checks import c09_path
            rc |= c09_path.replay_spec(spec)
            continue
        r = run_scenario(_tuplify(spec), want_cases=False)
        print("spec:", json.dumps(spec, default=str))
        print("  built=%s path=%s" % (r.get("built"), r.get("path")))
        for key, what in r.get("viol", []):
            print("  STILL FAILS %s :: %s" % (key, what))
            rc = 1
        if not r.get("viol"):
            print("  holds now")
    return rc
