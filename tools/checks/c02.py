"""C02 - every shipped wire message survives encode/decode unchanged.

Stage G: tr_wire -> gen/G02_registry.v (live registry + format list of every shipped Serializable)
Stage P: props/C02.v (round trip for every well-formed format / message, registry = documented table,
         every shipped definition well-formed)
Stage C: packers and classes: real Serializer vs model M02_wire on generated legal values, at offsets
Oracle : decode(encode(x)) has identical fields, consumes exactly the produced bytes, re-encodes identically
         - evaluated on the implementation for every registry entry and every shipped class, plain,
         nested and listed.
"""
from __future__ import annotations

import inspect
import json
import os
import struct

from tools.checks import c02_oldstyle
from tools.tr import tr_wire
from tools.vlib import coqrun, wire
from tools.vlib.coqrun import zl

IMPORTS = ("From Coq Require Import ZArith List Bool.\n"
           "From IPV8V Require Import lib.PyErr lib.Bytes model.M02_wire.\n"
           "Import ListNotations.\nOpen Scope Z_scope.\n")


# ------------------------------------------------------------------ instance generation
CONN = ["unknown", "public", "symmetric-NAT"]


def gen_oldstyle(r, cls):
    sig = inspect.signature(cls.__init__)
    args = []
    for name, p in list(sig.parameters.items())[1:]:
        ann = str(p.annotation)
        if name.endswith("_address"):
            args.append(wire.gen_addr(r, True, allow6=False))
        elif name in ("advice", "supports_new_style", "intro_supports_new_style", "peer_limit_reached"):
            args.append(r.random() < 0.5)
        elif name == "connection_type":
            args.append(r.choice(CONN))
        elif name in ("identifier", "sequence_number"):
            args.append(wire.gen_int(r, 0, 65536))
        elif name == "global_time":
            args.append(wire.gen_int(r, 0, 2 ** 64))
        elif name in ("attestation_hash", "challenge_hash", "introduce_to"):
            args.append(wire.gen_bytes(r, 20))
        elif name == "preference_list":
            args.append([wire.gen_bytes(r, 20) for _ in range(r.choice([0, 1, 3]))])
        elif name == "tb_overlap":
            args.append([(wire.gen_bytes(r, 20), wire.gen_int(r, 0, 2 ** 32)) for _ in range(r.choice([0, 1, 3]))])
        elif "bytes" in ann:
            args.append(wire.gen_bytes(r, r.choice([0, 1, 20, 74, 300])))
        else:
            raise wire.Unsupported("no generator for %s.%s" % (cls.__name__, name))
    return cls(*args)


def make_gen_class(reg, keys):
    from ipv8.messaging.lazy_payload import VariablePayload

    def gen_class(r, cls, _keys=None, depth=0):
        if not issubclass(cls, VariablePayload):
            return gen_oldstyle(r, cls)
        fmts = wire.class_fmts(cls, reg)
        args = []
        for d in fmts:
            v = wire.gen_value(r, d, keys, depth, gen_class)
            if d[0] == "bits":
                args.extend(v)
            else:
                args.append(v)
        return cls(*args)
    return gen_class


def norm(x):
    """canonical comparable form of a field value"""
    from ipv8.messaging.serialization import Serializable
    from ipv8.peer import Peer
    if isinstance(x, Serializable):
        return ("obj", type(x).__name__, fields(x))
    if isinstance(x, Peer):
        return ("node", tuple(x.address), x.public_key.key_to_bin())
    if isinstance(x, float):
        return ("float", struct.pack(">d", x))
    if isinstance(x, (list, tuple)):
        return [norm(y) for y in x]
    if isinstance(x, bool):
        return int(x)
    return x


def fields(obj):
    from ipv8.messaging.lazy_payload import VariablePayload
    if isinstance(obj, VariablePayload):
        return [(n, norm(getattr(obj, n))) for n in type(obj).names]
    return sorted((k, norm(v)) for k, v in vars(obj).items())


def concrete(cls):
    """classes that can be instantiated and sent: have a non-empty format list"""
    return bool(cls.format_list)


# ------------------------------------------------------------------ the check
def run(ctx):
    try:
        text = tr_wire.write()
        ctx.extra["generated"] = {"gen/G02_registry.v": len(text)}
    except Exception as e:   # fail closed
        ctx.broke("translator tr_wire aborted", repr(e))
        text = None
    ctx.proofs() if text is not None else None
    # extension: class-specific glue of the old-style payload classes (translated; theorems in props/C02x.v)
    otext = c02_oldstyle.translate(ctx) if text is not None else None
    if otext is not None:
        ctx.proofs(part="C02x")
    # extension: the Packer classes and Serializer methods translated from the AST (gen/G02_packers.v), refinement to the
    # hand wire model in props/C02y.v
    from tools.checks import c02_packers
    ptext = c02_packers.translate(ctx) if text is not None else None
    if ptext is not None:
        ctx.proofs(part="C02y")
    ctx.coverage["trusted_base"] = [
        "Coq 8.16.1 kernel (coqc, vm_compute); no axioms (Print Assumptions: closed)",
        "tools/tr/tr_wire.py: introspection of live packer objects and Serializable subclasses into Gallina tables",
        "hand model coq/model/M02_wire.v of serialization.py / Flags / NodePacker, tied by this run's correspondence",
        "CPython struct/array/socket.inet_* implement big-endian (array: little-endian) packing as modelled",
        "str <-> UTF-8 bijection of CPython (strings are represented by their encodings)",
        "tools/tr/tr_oldstyle.py: AST translation of __init__/to_pack_list/from_unpack_list of the old-style classes "
        "(fail closed); CPython struct / bytes.join / slicing / range as modelled in coq/model/M02_oldstyle.v",
    ]
    ctx.assumptions = ["legal values only: canonical address strings, single-representable floats for 'f', no NaN",
                       "public-key validity answered by the real key vault per case"]
    from ipv8.keyvault.crypto import default_eccrypto
    from ipv8.messaging.lazy_payload import VariablePayload
    from ipv8.messaging.serialization import PackError
    r = ctx.rng("main")
    ser = wire.make_serializer()
    reg = wire.registry_for_harness(ctx, ser)
    keys = [default_eccrypto.generate_key("curve25519").pub().key_to_bin() for _ in range(3)]
    keys_coq = "[" + "; ".join(zl(k) for k in keys) + "]"
    gen_class = make_gen_class(reg, keys)
    classes = [c for c in tr_wire.shipped_classes() if concrete(c)]

    pack_cases, unpack_cases, packm_cases, unpackm_cases = [], [], [], []
    N = 40 if ctx.quick else 400
    big_budget = [6 if ctx.quick else 40]

    def too_big(b):
        if len(b) > 3000:
            if big_budget[0] <= 0:
                return True
            big_budget[0] -= 1
        return False

    # ---- A: every registry entry
    sample_nested = [c for c in classes if c.__name__ in ("IntroductionInfo", "SignedStrPayload", "PingPayload")]
    for name, d0 in reg.items():
        packer = ser._packers[name]
        for i in range(N):
            d, extra = d0, ()
            if d0[0] == "payload":
                cls = r.choice(sample_nested)
                d = ("nested", wire.class_fmts(cls, reg), cls)
                extra = (wire.shim(cls),)
            elif d0[0] == "payload-list":
                cls = r.choice(sample_nested)
                d = ("listof", d0[1], ("nested", wire.class_fmts(cls, reg), cls))
                extra = (wire.shim(cls),)
            v = wire.gen_value(r, d, keys, 0, gen_class)
            multi = (d[0] == "struct" and len(d[1]) > 1) or d[0] == "bits"
            try:
                bs = packer.pack(*v) if multi else packer.pack(v)
                perr = None
            except Exception as e:   # noqa
                bs, perr = None, type(e).__name__
            ctx.count(("pack", name, repr(v)[:200]), nontrivial=bs is not None and len(bs) > 0)
            if bs is not None and too_big(bs):
                continue
            vc = wire.val_coq(d, v)
            pack_cases.append(("(%s, %s, %s)" % (keys_coq, wire.fmt_coq(d), vc),
                               "Ok %s" % zl(bs) if bs is not None else "Raise PackError", ("pack", name, repr(v)[:300])))
            if bs is None:
                # every generated value is legal: a refusal to encode is a violation of the property
                ctx.violation("pack-refused/%s" % name, "legal value %r of format %s cannot be packed: %s" % (v, name, perr),
                              {"kind": "packer", "name": name, "value": repr(v)})
                continue
            if d[0] == "array":
                # the documentation promises big-endian length prefixes and values
                e = d[1]
                ch = {("bool",): "?", ("S", 8): "q", ("F", 8): "d"}.get(tuple(e))
                ref = struct.pack(">H", len(v)) + b"".join(struct.pack(">" + ch, x) for x in v) if ch else None
                if ref is not None and ref != bs:
                    ctx.violation("documented-endianness/%s" % name,
                                  "format %s is encoded in machine byte order: %r -> %s, documented big-endian form %s" % (
                                      name, v[:3], bs.hex()[:40], ref.hex()[:40]),
                                  {"kind": "packer", "name": name, "value": repr(v), "data": bs.hex(), "offset": 0})
            pre = r.randbytes(r.choice([0, 1, 23, 5]))
            suf = b"" if d[0] == "raw" else r.randbytes(r.choice([0, 1, 7]))
            data = pre + bs + suf
            lst = []
            try:
                off2 = packer.unpack(data, len(pre), lst, *extra)
                got = tuple(lst) if d[0] == "bits" else lst[0]
                uerr = None
            except Exception as e:   # noqa
                off2, got, uerr = None, None, type(e).__name__
            if uerr is None:
                exp_coq = "Ok (%s, %d%%nat)" % (wire.val_coq(d, got), off2)
            else:
                exp_coq = "Raise PackError"
            unpack_cases.append(("(%s, %s, %s, %d%%nat)" % (keys_coq, wire.fmt_coq(d), zl(data), len(pre)), exp_coq,
                                 ("unpack", name, data.hex()[:400], len(pre))))
            # oracle on the implementation
            case = {"kind": "packer", "name": name, "value": repr(v), "data": data.hex(), "offset": len(pre)}
            if uerr is not None:
                ctx.violation("unpack-fails/%s" % name, "decoding the encoding of %r raises %s" % (v, uerr), case)
            else:
                gv = wire.val_coq(d, got)
                if gv != vc:
                    ctx.violation("roundtrip-value/%s" % name, "format %s: %r decodes to %r" % (name, v, got), case)
                if off2 != len(pre) + len(bs):
                    ctx.violation("roundtrip-offset/%s" % name, "format %s at offset %d: produced %d bytes, decode reports end %s" % (
                        name, len(pre), len(bs), off2), case)
                try:
                    bs2 = packer.pack(*got) if multi else packer.pack(_repack_value(d, got, gen_class))
                    if bs2 != bs:
                        ctx.violation("reencode/%s" % name, "format %s: re-encoding the decoded value gives different bytes" % name, case)
                except Exception as e:   # noqa
                    ctx.violation("reencode-fails/%s" % name, "re-encoding raises %s" % type(e).__name__, case)
            if i < 1 and len(ctx.coverage["samples"]) < 4:
                ctx.sample({"format": name, "value": repr(v)[:120], "bytes": bs.hex()[:80], "offset": len(pre)})

    # ---- B: every shipped class, plain / nested / listed
    per_class = {}
    M = 25 if ctx.quick else 250
    for cls in classes:
        fmts = wire.class_fmts(cls, reg)
        fcoq = "[" + "; ".join(wire.fmt_coq(f) for f in fmts) + "]"
        ends_raw = fmts[-1][0] == "raw"

        class Nest(VariablePayload):
            format_list = [cls, "H"]
            names = ["inner", "tail"]

        class Lst(VariablePayload):
            format_list = ["B", [cls]]
            names = ["head", "items"]
        for i in range(M):
            inst = gen_class(r, cls)
            try:
                bs = ser.pack_serializable(inst)
            except PackError as e:
                ctx.violation("pack-refused/%s" % cls.__name__, "legal instance cannot be packed: %s" % str(e)[:200],
                              {"kind": "class", "cls": cls.__name__, "fields": repr(fields(inst))[:500]})
                continue
            ctx.count(("class", cls.__name__, bs), nontrivial=len(bs) > 0)
            per_class[cls.__name__] = per_class.get(cls.__name__, 0) + 1
            if too_big(bs):
                continue
            pre = r.randbytes(r.choice([0, 23, 1, 9]))
            suf = b"" if ends_raw else r.randbytes(r.choice([0, 0, 3]))
            data = pre + bs + suf
            case = {"kind": "class", "cls": cls.__module__ + "." + cls.__name__, "data": data.hex(), "offset": len(pre),
                    "fields": repr(fields(inst))[:600]}
            # correspondence: pack list -> bytes ; bytes -> raw unpack list
            vals = wire.msg_vals_coq(fmts, inst)
            packm_cases.append(("(%s, %s, [%s])" % (keys_coq, fcoq, "; ".join(vals)), "Ok %s" % zl(bs), case))
            try:
                raw, roff = ser.unpack_serializable(wire.shim(cls), data, len(pre))
                unpackm_cases.append(("(%s, %s, %s, %d%%nat)" % (keys_coq, fcoq, zl(data), len(pre)),
                                      "Ok ([%s], %d%%nat)" % ("; ".join(wire.msg_vals_coq(fmts, raw)), roff), case))
            except Exception:   # noqa
                unpackm_cases.append(("(%s, %s, %s, %d%%nat)" % (keys_coq, fcoq, zl(data), len(pre)), "Raise PackError", case))
            # oracle
            _oracle_class(ctx, ser, cls, inst, bs, data, len(pre), case, "plain")
            if len(bs) < 60000 and i % 3 == 0:
                nest = Nest(inst, 0xBEEF)
                nb = ser.pack_serializable(nest)
                nd = pre + nb
                try:
                    n2, noff = ser.unpack_serializable(Nest, nd, len(pre))
                    if fields(n2.inner) != fields(inst) or n2.tail != 0xBEEF or noff != len(nd):
                        ctx.violation("nested/%s" % cls.__name__, "nested inside another message: fields or end offset differ", case)
                except Exception as e:   # noqa
                    ctx.violation("nested-fails/%s" % cls.__name__, "nested decode raises %s" % type(e).__name__, case)
                if not ends_raw or True:
                    others = [gen_class(r, cls) for _ in range(r.choice([0, 1, 2]))]
                    others = [o for o in others if len(ser.pack_serializable(o)) < 60000]
                    items = [inst] + others
                    lb = ser.pack_serializable(Lst(7, items))
                    try:
                        l2, loff = ser.unpack_serializable(Lst, pre + lb, len(pre))
                        if [fields(x) for x in l2.items] != [fields(x) for x in items] or loff != len(pre) + len(lb):
                            ctx.violation("listed/%s" % cls.__name__, "listed inside another message: fields or end offset differ", case)
                    except Exception as e:   # noqa
                        ctx.violation("listed-fails/%s" % cls.__name__, "listed decode raises %s" % type(e).__name__, case)
    ctx.extra["classes"] = len(classes)
    ctx.extra["instances_per_class_min"] = min(per_class.values()) if per_class else 0
    ctx.extra["registry_entries"] = len(reg)

    # ---- evaluate the model on the same cases
    if text is not None:
        for label, cases, runf, eqb, cty in (
                ("pack", pack_cases, "run_pack", "res_eqb_loose bytes_eqb", "pack_case * res bytes"),
                ("unpack", unpack_cases, "run_unpack", "res_eqb_loose vo_eqb", "unpack_case * res (val * nat)"),
                ("packm", packm_cases, "run_packm", "res_eqb_loose bytes_eqb", "packm_case * res bytes"),
                ("unpackm", unpackm_cases, "run_unpackm", "res_eqb_loose vso_eqb", "unpackm_case * res (list val * nat)")):
            mism, errs = coqrun.eval_mismatches(IMPORTS, runf, eqb, [(c, e) for c, e, _ in cases],
                                                os.path.join(ctx.scratch, label), ctype=cty, shard=120, jobs=14)
            for e in errs:
                ctx.broke("model evaluation failed (%s)" % label, e)
            for i in mism[:8]:
                ctx.broke("correspondence (%s): model and implementation differ" % label, json.dumps(cases[i][2], default=str)[:1500])
            ctx.coverage["traces_validated_against_impl"] += len(cases) - len(mism)
            ctx.extra["cases_" + label] = len(cases)
    # ---- old-style glue: corpus replay, correspondence with the translated functions, class-level oracle
    c02_oldstyle.stage(ctx, reg, keys, text=otext)
    c02_packers.stage(ctx, text=ptext)
    _dataclass_inheritance(ctx, ser)
    ctx.coverage["rule"] = ("every registry entry x generated legal values (boundary integers, empty/maximal byte strings, IPv4/IPv6/"
                            "domain addresses, all-bit patterns) packed and unpacked at random offsets between random bytes; every "
                            "shipped Serializable class x generated instances, plain, nested and listed; non-trivial = non-empty encoding; "
                            "distinct by (format or class, value/bytes); every shipped old-style class x generated constructor "
                            "arguments: constructor, to_pack_list, from_unpack_list, encode/decode at offsets against the "
                            "translated Gallina functions")


def _dataclass_inheritance(ctx, ser):
    """dataclass payloads that extend other dataclass payloads (user-level definitions; both instantiation orders):
    the child's own fields must be on the wire and come back, also nested and listed"""
    import dataclasses
    import typing
    from ipv8.messaging.lazy_payload import VariablePayload
    from ipv8.messaging.payload_dataclass import DataClassPayload
    for order in ("parent-first", "child-first"):
        tag = order.replace("-", "_")
        parent = dataclasses.dataclass(type("InhParent_" + tag, (DataClassPayload,), {"__annotations__": {"a": int}, "__module__": __name__}))
        child = dataclasses.dataclass(type("InhChild_" + tag, (parent,), {"__annotations__": {"b": bytes, "c": bool}, "__module__": __name__}))
        grand = dataclasses.dataclass(type("InhGrand_" + tag, (child,), {"__annotations__": {"d": str}, "__module__": __name__}))
        case = {"kind": "dataclass-inheritance", "order": order}
        ctx.count(("dc-inherit", order), nontrivial=True)
        try:
            if order == "parent-first":
                parent(1)
            c = child(2 ** 63 - 1, b"abc", True)
            if order == "child-first":
                parent(1)
            g = grand(5, b"", False, "h\u00e9")
            holder = type("InhHolder_" + tag, (VariablePayload,), {"format_list": [child, [child], "H"], "names": ["one", "many", "tail"]})
            for inst, cls, want in ((c, child, [("a", 2 ** 63 - 1), ("b", b"abc"), ("c", True)]),
                                    (g, grand, [("a", 5), ("b", b""), ("c", False), ("d", "h\u00e9")])):
                bs = ser.pack_serializable(inst)
                back, off = ser.unpack_serializable(cls, b"\x00" * 3 + bs + b"\xff", 3)
                got = [(n, getattr(back, n, "<missing>")) for n, _ in want]
                if type(back) is not cls or got != want or off != 3 + len(bs):
                    ctx.violation("dataclass-inheritance/fields-lost", "%s (%s): encoded to %d bytes, decodes to %s with %r, expected %r" % (
                        cls.__name__, order, len(bs), type(back).__name__, got, want), case)
            h = holder(c, [c, child(7, b"x", False)], 513)
            bs = ser.pack_serializable(h)
            back, off = ser.unpack_serializable(holder, bs)
            flat = [(back.one.a, back.one.b, back.one.c)] + [(x.a, x.b, x.c) for x in back.many] + [back.tail]
            if flat != [(2 ** 63 - 1, b"abc", True), (2 ** 63 - 1, b"abc", True), (7, b"x", False), 513] or off != len(bs):
                ctx.violation("dataclass-inheritance/nested-fields-lost", "nested / listed child payloads come back as %r" % (flat,), case)
        except Exception as e:   # noqa
            ctx.violation("dataclass-inheritance/raises", "%s: %s (%s)" % (type(e).__name__, str(e)[:120], order), case)


def _repack_value(d, got, gen_class):
    """the unpacked value handed back to pack(); nested payloads come back as RawMsg shims"""
    if d[0] == "nested":
        return _RawPacked(d, got)
    if d[0] == "listof" and d[2][0] == "nested":
        return [_RawPacked(d[2], g) for g in got]
    return got


class _RawPacked:
    """a Serializable whose pack list is a raw unpack list (used to re-encode decoded nested payloads)"""

    def __init__(self, d, raw):
        self.d, self.raw = d, raw

    def to_pack_list(self):
        cls = self.d[2]
        out = []
        items = wire.regroup(self.d[1], self.raw.args)
        for f, fd, it in zip(cls.format_list, self.d[1], items):
            name = f if isinstance(f, str) else ("payload-list" if isinstance(f, list) else "payload")
            if fd[0] == "bits" or (fd[0] == "struct" and len(fd[1]) > 1):
                out.append((name, *it))
            elif fd[0] == "nested":
                out.append((name, _RawPacked(fd, it)))
            elif fd[0] == "listof" and fd[2][0] == "nested":
                out.append((name, [_RawPacked(fd[2], x) for x in it]))
            else:
                out.append((name, it))
        return out


def _oracle_class(ctx, ser, cls, inst, bs, data, off, case, how):
    name = cls.__name__
    try:
        inst2, off2 = ser.unpack_serializable(cls, data, off)
    except Exception as e:   # noqa
        ctx.violation("decode-fails/%s" % name, "decoding an encoded %s raises %s: %s" % (name, type(e).__name__, str(e)[:120]), case)
        return
    f1, f2 = fields(inst), fields(inst2)
    if f1 != f2:
        diff = [a[0] for a, b in zip(f1, f2) if a != b]
        ctx.violation("fields/%s/%s" % (name, ",".join(diff[:3])), "%s: field(s) %s differ after decode: %r -> %r" % (
            name, diff, [a for a, b in zip(f1, f2) if a != b][:2], [b for a, b in zip(f1, f2) if a != b][:2]), case)
    if off2 != off + len(bs):
        ctx.violation("offset/%s" % name, "%s encoded to %d bytes at offset %d but decode reports end %d" % (name, len(bs), off, off2), case)
    try:
        if ser.pack_serializable(inst2) != bs:
            ctx.violation("reencode/%s" % name, "%s: re-encoding the decoded message gives different bytes" % name, case)
    except Exception as e:   # noqa
        ctx.violation("reencode-fails/%s" % name, "re-encoding raises %s" % type(e).__name__, case)


def replay(path):
    import importlib
    js = json.load(open(path))
    ser = wire.make_serializer()
    rc = 0
    for v in js.get("violations", []):
        c = v["case"]
        print(v["key"], "::", v["what"])
        if c.get("kind") == "dataclass-inheritance":
            print("  dataclass payload extending a dataclass payload, instantiation order:", c["order"])
            rc = 1
        elif c.get("kind") == "oldstyle":
            rc |= c02_oldstyle.replay_case(c, ser)
        elif c.get("kind") in ("packer-unpack", "packer-pack", "packer-roundtrip", "serializer"):
            from tools.checks import c02_packers
            rc |= c02_packers.replay_case(c)
        elif c.get("kind") == "class":
            mod, _, name = c["cls"].rpartition(".")
            cls = getattr(importlib.import_module(mod), name)
            data = bytes.fromhex(c["data"])
            try:
                inst, off = ser.unpack_serializable(cls, data, c["offset"])
                again = ser.pack_serializable(inst)
                ok = data[c["offset"]:c["offset"] + len(again)] == again and off == c["offset"] + len(again)
                print("  decoded fields:", repr(fields(inst))[:300], "end offset", off, "reencode identical:", ok)
                print("  original fields:", c.get("fields"))
                rc |= int(not ok) | int(repr(fields(inst))[:600] != c.get("fields"))
            except Exception as e:   # noqa
                print("  decode raises", type(e).__name__, e)
                rc = 1
        else:
            data = bytes.fromhex(c.get("data", ""))
            lst = []
            try:
                off = ser._packers[c["name"]].unpack(data, c.get("offset", 0), lst)
                print("  unpack ->", repr(lst)[:200], off, " original value:", c["value"][:200])
                rc = 1
            except Exception as e:   # noqa
                print("  unpack raises", type(e).__name__)
                rc = 1
    for b in js.get("no_longer_checks", []):
        print("no longer checks:", b["what"], b["detail"][:300])
        rc = 1
    return rc
