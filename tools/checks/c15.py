"""C15 - DHT values are stored only for authorised writers and read back authentic.

Stage 0: replay corpus/C15/*.json against the implementation through the oracle.
Stage G: tr_dht_consts (limits, periods, deque bound) -> gen/G15_consts.v
         tr_dht_handlers (Storage.put/get/clean, Value.expired/__eq__, Node.blocked, the stored-value codec,
         add_value, post_process_values, generate/check_token and the decisions of get_requesting_node,
         on_store_request, on_find_request, on_store_peer_request, token_maintenance compiled from the AST)
         -> gen/G15_handlers.v
Stage P: props/C15.v (hand model), props/C15x.v (the generated definitions refine the hand model; the C15 statements
         over them; the per-peer rate limit: a blocked sender's request changes nothing)
Stage C: a real DHTDiscoveryCommunity on simnet under a virtual clock is fed hand-packed, really signed
         find / store / store-peer datagrams (tokens: fresh, one rotation old, expired, issued to another
         address, to another key, by another node, random; values: plain, signed, boundary sizes, oversized,
         too many, forged signature / data / version, wrong signer, truncated, junk, unknown type, empty,
         malformed key; versions older / equal / newer), interleaved with token rotations, clock advances and
         value maintenance - both with the timers cancelled (explicit interleaving) and with the node's own
         timers running; plus long put / get / clean histories on a bare Storage.  The same concrete operation
         lists are evaluated inside Coq by the hand model coq/model/M15_dht_store.v AND by the node assembled from
         the generated definitions, coq/model/M15_store_gen.v, which also has the rate limit (bursts of more than
         10 requests of one node within 5 s; whether the routing table holds / keeps the sender is observed and
         given to the model).  SHA-1, the signature checks and the key vault enter as per-case tables computed
         here with hashlib / the key vault directly.
Oracle : an independent Python statement of the property on what the implementation did (see `oracle`).
"""
from __future__ import annotations

import asyncio
import base64
import glob
import hashlib
import json
import multiprocessing
import os
import struct
import zlib

from tools.vlib import coqrun
from tools.vlib.repoenv import VERIF

IMPORTS = ("From Coq Require Import ZArith List Bool.\n"
           "From IPV8V Require Import lib.PyErr lib.Bytes model.M15_lits model.M15_dht_store.\n"
           "Import ListNotations.\nOpen Scope Z_scope.\n")
IMPORTS_GEN = ("From Coq Require Import ZArith List Bool.\n"
               "From IPV8V Require Import lib.PyErr lib.Bytes model.M15_lits model.M15_dht_store model.M15_py gen.G15_handlers "
               "model.M15_store_gen.\nImport ListNotations.\nOpen Scope Z_scope.\n")
CORPUS = os.path.join(VERIF, "corpus", "C15")
BASE = 1.7e9

# the limits the property speaks of (source comments / constants of the pinned tree)
SPEC_MAX_ENTRY_SIZE = 170
SPEC_MAX_VALUES = 8
SPEC_TOKEN_WINDOW = 600       # "Maximum number of seconds a token can remain valid"
SPEC_TOKEN_GENERATIONS = 2    # a token survives at most one rotation
SPEC_MAX_ENTRY_AGE = 3600
SPEC_RATE_QUERIES = 10        # "we allow a maximum number of 10 queries during a 5s interval. Additional queries will be dropped"
SPEC_RATE_INTERVAL = 5

N_ADDR = ("10.0.0.1", 1000)
M_ADDR = ("10.0.0.9", 9000)

EXN = {"IndexError": 1, "error": 2, "KeyError": 3, "ValueError": 4, "TypeError": 5, "UnicodeError": 6,
       "PackError": 7, "OSError": 8, "RuntimeError": 13, "ZeroDivisionError": 14}
EXN_COQ = {1: "IndexError", 2: "StructError", 3: "KeyError", 4: "ValueError", 5: "TypeError", 6: "UnicodeError",
           7: "PackError", 8: "OSError", 13: "RuntimeError", 14: "ZeroDivisionError"}


class HarnessError(Exception):
    pass


# ---------------------------------------------------------------------------- Coq literals
def zid(n: int) -> str:
    if n == -1:
        return "zm1"
    if 0 <= n < 256:
        return "z%d" % n
    return "(%d)" % n


def nid(n: int) -> str:
    return "n%d" % n if 0 <= n < 128 else "%d%%nat" % n


def zl(b) -> str:
    return "[" + ";".join(zid(x) for x in b) + "]"


# ---------------------------------------------------------------------------- independent primitives
def sha1(b: bytes) -> bytes:
    return hashlib.sha1(b).digest()


def ident_text(addr, pkbin: bytes) -> bytes:
    """what a token is bound to: the text form of (address, key) - written from the property, not from Peer.__str__"""
    return ("Peer<%s:%d, %s>" % (addr[0], addr[1], base64.b64encode(sha1(pkbin)).decode())).encode()


def addr_text(addr) -> bytes:
    return ("%s:%d" % (addr[0], addr[1])).encode()


def node_id(ip: str, mid: bytes) -> bytes:
    import socket
    raw = socket.inet_aton(ip)
    masked = bytes(a & b for a, b in zip(raw, b"\x03\x0f\x3f\xff"))
    return struct.pack(">I", zlib.crc32(masked) & 0xffffffff)[:3] + mid[:17]


def xor_distance(a: bytes, b: bytes) -> int:
    return int.from_bytes(a, "big") ^ int.from_bytes(b, "big")


def parse_signed(value: bytes):
    """independent parse of a type-1 value: (data, version, pk) or None"""
    o = 1
    if len(value) < o + 2:
        return None
    n = int.from_bytes(value[o:o + 2], "big")
    o += 2
    if len(value) < o + n:
        return None
    data = value[o:o + n]
    o += n
    if len(value) < o + 4:
        return None
    ver = int.from_bytes(value[o:o + 4], "big")
    o += 4
    if len(value) < o + 2:
        return None
    n = int.from_bytes(value[o:o + 2], "big")
    o += 2
    if len(value) < o + n:
        return None
    return data, ver, value[o:o + n]


_KEYINFO = {}


def key_info(pk: bytes):
    """("ok", signature length, key object) | ("err", exception class name) - straight from the key vault"""
    if pk not in _KEYINFO:
        from ipv8.keyvault.crypto import default_eccrypto as ec
        try:
            k = ec.key_from_public_bin(pk)
            _KEYINFO[pk] = ("ok", int(ec.get_signature_length(k)), k)
        except Exception as e:   # noqa
            _KEYINFO[pk] = ("err", type(e).__name__, None)
    return _KEYINFO[pk]


def verifies(pk: bytes, value: bytes) -> bool:
    """value = m ++ s with s a signature of m under pk of the length pk prescribes (key vault only)"""
    from ipv8.keyvault.crypto import default_eccrypto as ec
    ki = key_info(pk)
    if ki[0] != "ok":
        return False
    n = ki[1]
    msg, sig = (value[:-n], value[-n:]) if n else (b"", value)
    try:
        return bool(ec.is_valid_signature(ki[2], msg, sig))
    except Exception:   # noqa
        return False


def classify(value: bytes):
    """independent reading of a serialized value:
       ("plain", data) | ("signed", data, pk, version) | ("invalid",) | ("raises", class name)"""
    if not value:
        return ("raises", "IndexError")
    if value[0] == 0:
        return ("plain", value[1:])
    if value[0] == 1:
        p = parse_signed(value)
        if p is None:
            return ("raises", "PackError")
        data, ver, pk = p
        ki = key_info(pk)
        if ki[0] != "ok":
            return ("raises", ki[1])
        return ("signed", data, pk, ver) if verifies(pk, value) else ("invalid",)
    return ("invalid",)


# ---------------------------------------------------------------------------- keys, values
class World:
    """the keys of a case: [("c25519", hex of 64 seed bytes) | ("bin", hex of a private key bin)]"""

    def __init__(self, keyspecs):
        from ipv8.keyvault.crypto import default_eccrypto as ec
        self.ec = ec
        self.sk = []
        for kind, hx in keyspecs:
            raw = bytes.fromhex(hx)
            self.sk.append(ec.key_from_private_bin(b"LibNaCLSK:" + raw if kind == "c25519" else raw))
        self.pk = [k.pub().key_to_bin() for k in self.sk]

    def sign(self, k: int, msg: bytes) -> bytes:
        return self.ec.create_signature(self.sk[k], msg)


def signed_body(data: bytes, version: int, pk: bytes) -> bytes:
    return b"\x01" + struct.pack(">H", len(data)) + data + struct.pack(">I", version) + struct.pack(">H", len(pk)) + pk


def make_value(w: World, r, kind: str, k: int = 0, data: bytes = b"", version: int = 0, k2: int = 1) -> bytes:
    pk = w.pk[k]
    if kind == "plain":
        return b"\x00" + data
    if kind == "signed":
        b = signed_body(data, version, pk)
        return b + w.sign(k, b)
    if kind == "signed-junk":          # extra bytes inside the signed part: still everything before the signature is signed
        b = signed_body(data, version, pk) + r.randbytes(r.randrange(1, 6))
        return b + w.sign(k, b)
    if kind == "forged-sig":
        b = signed_body(data, version, pk)
        s = bytearray(w.sign(k, b))
        s[r.randrange(len(s))] ^= 1 << r.randrange(8)
        return b + bytes(s)
    if kind == "forged-data":
        b = signed_body(data or b"x", version, pk)
        s = w.sign(k, b)
        bb = bytearray(b)
        bb[3 + r.randrange(len(data or b"x"))] ^= 1 << r.randrange(8)
        return bytes(bb) + s
    if kind == "forged-version":       # a validly signed value whose version field was raised afterwards
        b = signed_body(data, version, pk)
        s = w.sign(k, b)
        return signed_body(data, (version + 1 + r.randrange(5)) & 0xffffffff, pk) + s
    if kind == "wrong-signer":         # key field says k, signature made by k2
        b = signed_body(data, version, pk)
        return b + w.sign(k2, b)[:key_info(pk)[1]].ljust(key_info(pk)[1], b"\x00")
    if kind == "sig-then-junk":
        b = signed_body(data, version, pk)
        return b + w.sign(k, b) + r.randbytes(r.randrange(1, 4))
    if kind == "truncated":
        b = signed_body(data, version, pk)
        v = b + w.sign(k, b)
        return v[:r.randrange(1, len(v))]
    if kind == "bad-pk":
        bad = r.choice([b"", r.randbytes(r.randrange(1, 12)), b"LibNaCLPK:" + r.randbytes(r.randrange(0, 63)), pk[:-1 - r.randrange(3)]])
        b = signed_body(data, version, bad)
        return b + r.randbytes(64)
    if kind == "unknown-type":
        return bytes([r.randrange(2, 256)]) + data
    if kind == "empty":
        return b""
    if kind == "short-signed":
        return b"\x01" + r.randbytes(r.randrange(0, 8))
    raise ValueError(kind)


def sized_value(w: World, r, k: int, signed: bool, size: int, version: int = 0) -> bytes:
    """a well-formed value of exactly `size` bytes"""
    if not signed:
        return b"\x00" + r.randbytes(size - 1)
    overhead = len(signed_body(b"", 0, w.pk[k])) + key_info(w.pk[k])[1]
    b = signed_body(r.randbytes(max(0, size - overhead)), version, w.pk[k])
    return b + w.sign(k, b)


# ---------------------------------------------------------------------------- wire: hand-packed datagrams
def pack_request(w: World, k: int, prefix: bytes, msg_id: int, body: bytes) -> bytes:
    pk = w.pk[k]
    p = prefix + bytes([msg_id]) + struct.pack(">H", len(pk)) + pk + body
    return p + w.sign(k, p)


def body_find(ident: int, lan, target: bytes, offset: int, force: bool) -> bytes:
    import socket
    return struct.pack(">I", ident) + b"\x01" + socket.inet_aton(lan[0]) + struct.pack(">H", lan[1]) + target + \
        struct.pack(">I", offset) + (b"\x01" if force else b"\x00")


def body_store(ident: int, token: bytes, target: bytes, values) -> bytes:
    return struct.pack(">I", ident) + token + target + struct.pack(">B", len(values)) + \
        b"".join(struct.pack(">H", len(v)) + v for v in values)


def body_store_peer(ident: int, token: bytes, target: bytes) -> bytes:
    return struct.pack(">I", ident) + token + target


def parse_response(prefix: bytes, data: bytes):
    """(msg id, identifier, rest of the payload) of a signed DHT datagram sent by a node"""
    if data[:22] != prefix or len(data) < 25:
        return None
    klen = int.from_bytes(data[23:25], "big")
    pk = data[25:25 + klen]
    ki = key_info(pk)
    if ki[0] != "ok":
        return None
    body = data[25 + klen:len(data) - ki[1]]
    if len(body) < 4:
        return None
    return data[22], int.from_bytes(body[:4], "big"), body[4:]


def parse_find_response(rest: bytes):
    token = rest[:20]
    n = rest[20]
    o, vals = 21, []
    for _ in range(n):
        l = int.from_bytes(rest[o:o + 2], "big")
        vals.append(rest[o + 2:o + 2 + l])
        o += 2 + l
    return token, vals


# ---------------------------------------------------------------------------- running a case on the implementation
_SPY = None
_CLOSEST = []      # answers of RoutingTable.closest_nodes(max_nodes=20) during the current request


def spy_class():
    global _SPY
    if _SPY is None:
        from ipv8.dht.discovery import DHTDiscoveryCommunity
        from ipv8.dht.routing import RoutingTable
        real_closest = RoutingTable.closest_nodes

        def closest_nodes(self, node_id, max_nodes=8, exclude_node=None):
            res = real_closest(self, node_id, max_nodes=max_nodes, exclude_node=exclude_node)
            if max_nodes == 20:
                _CLOSEST.append(list(res))
            return res
        RoutingTable.closest_nodes = closest_nodes

        class Spy(DHTDiscoveryCommunity):
            """the real overlay; maintenance runs are logged (secret drawn / clock at the run)"""

            def __init__(self, settings):
                self.vlog = []
                self.vsnap = None
                super().__init__(settings)

            def token_maintenance(self):
                super().token_maintenance()
                self.vlog.append(("rotate", bytes(self.token_secrets[-1])))

            def value_maintenance(self):
                import time
                t = time.time()
                super().value_maintenance()
                self.vlog.append(("clean", t, self.vsnap() if self.vsnap else None))
        _SPY = Spy
    return _SPY


def as_int(x, what):
    if isinstance(x, float):
        if x != int(x):
            raise HarnessError("%s is not a whole number: %r" % (what, x))
        return int(x)
    if isinstance(x, int) and not isinstance(x, bool):
        return x
    raise HarnessError("%s is not a number: %r" % (what, x))


class NodeRun:
    """one real node under test (+ a second real node whose tokens are foreign), driven op by op"""

    def __init__(self, case, loop):
        from tools.vlib import simnet
        from ipv8.dht.routing import Node
        from ipv8.keyvault.crypto import default_eccrypto as ec
        from ipv8.messaging.interfaces.udp.endpoint import UDPv4Address
        self.UDPv4Address = UDPv4Address
        self.case, self.loop = case, loop
        self.w = World(case["keys"])
        self.pool = [bytes.fromhex(h) for h in case["pool"]]
        self.targets = [bytes.fromhex(h) for h in case["targets"]]
        self.rqs = [((ip, port), k) for ip, port, k in case["rqs"]]
        self.net = simnet.SimNet()
        seed = bytes.fromhex(case["node_seed"])
        nk = ec.key_from_private_bin(b"LibNaCLSK:" + seed[:64])
        mk = ec.key_from_private_bin(b"LibNaCLSK:" + seed[64:128])
        self.N = simnet.make_overlay(spy_class(), self.net.endpoint(N_ADDR), key=nk)
        self.M = simnet.make_overlay(spy_class(), self.net.endpoint(M_ADDR), key=mk)
        keep = ("token_maintenance", "value_maintenance") if case.get("timers") else ()
        for ov in (self.N, self.M):
            for t in ("token_maintenance", "node_maintenance", "value_maintenance", "store_peer", "ping_all"):
                if ov is self.M or t not in keep:
                    ov.cancel_pending_task(t)
        self.prefix = self.N.get_prefix()
        self.exc = []
        for ov in (self.N,):
            for mid in (3, 5, 7):
                ov.decode_map[mid] = self._wrap(ov.decode_map[mid])
        # filler nodes in the routing table (only their ids matter)
        import random
        fr = random.Random(case.get("fill_seed", 0))
        if case.get("rt_fill"):
            rt = self.N.get_routing_table(Node(self.w.pk[0], UDPv4Address("10.9.9.9", 9)))
            for _ in range(case["rt_fill"]):
                k = ec.key_from_private_bin(b"LibNaCLSK:" + fr.randbytes(64)).pub().key_to_bin()
                rt.add(Node(k, UDPv4Address("%d.%d.%d.%d" % (fr.randrange(1, 200), fr.randrange(256), fr.randrange(256), fr.randrange(1, 255)),
                                            fr.randrange(1024, 60000))))
        self.secret0 = bytes(self.N.token_secrets[0])
        self.N.vlog.clear()
        self.N.vsnap = self.storage
        self.seen = []       # node ids in order of their first admitted request
        self.issued = {}     # requester index -> tokens issued by N, oldest first
        self.foreign = {}    # requester index -> token issued by M
        self.ident = 0
        self.trace = []      # concrete operations with observations

    def _wrap(self, h):
        def w(addr, data):
            try:
                return h(addr, data)
            except Exception as e:   # noqa - recorded, then handled by Community.on_packet as in production
                self.exc.append(type(e).__name__)
                raise
        return w

    # -- clock
    def now(self):
        return as_int(self.loop._vnow, "clock")

    async def advance(self, dt):
        if self.case.get("timers"):
            await self.loop.advance(dt)
        else:
            self.loop._vnow += float(dt)

    # -- observation of the real objects
    def storage(self, ov=None):
        ov = ov or self.N
        st = ov.storages.get(self.UDPv4Address)
        if st is None:
            return []
        return [(bytes(k), [(bytes(v.id), bytes(v.data), as_int(v.version, "version"),
                             as_int(v.last_update - BASE, "last_update"), as_int(v.max_age, "max_age")) for v in vs])
                for k, vs in st.items.items()]

    def peers(self):
        return [(bytes(t), [n.public_key.key_to_bin() for n in nodes]) for t, nodes in self.N.store.items()]

    def secrets(self):
        return [bytes(s) for s in self.N.token_secrets]

    def drain(self):
        """maintenance runs since the last look become operations of the trace"""
        for ev in self.N.vlog:
            if ev[0] == "rotate":
                self.trace.append({"op": ("rotate", ev[1]), "t": self.now(), "after": self.storage()})
            else:
                self.trace.append({"op": ("clean", as_int(ev[1] - BASE, "maintenance time")), "t": self.now(),
                                   "after": ev[2]})
        self.N.vlog.clear()

    def admission(self, r, src=None):
        """what get_requesting_node will find: the sender's node id and whether the routing table holds it"""
        (addr, k) = self.rqs[r]
        nid = node_id((src or addr)[0], sha1(self.w.pk[k]))
        rt = self.N.routing_tables.get(self.UDPv4Address)
        return nid, bool(rt is not None and rt.has(nid))

    def held(self, nid):
        rt = self.N.routing_tables.get(self.UDPv4Address)
        return bool(rt is not None and rt.has(nid))

    def queries(self):
        """Node.last_queries of the routing table's objects for the senders seen so far, in order of first admission"""
        rt = self.N.routing_tables.get(self.UDPv4Address)
        out = []
        for nid in self.seen:
            n = rt.get(nid) if rt is not None else None
            out.append((nid, [as_int(t - BASE, "query time") for t in n.last_queries] if n is not None else []))
        return out

    def send(self, ov, r, msg_id, body, src=None):
        (addr, k) = self.rqs[r]
        pkt = pack_request(self.w, k, self.prefix, msg_id, body)
        n0 = len(self.net.log)
        del self.exc[:]
        ov.endpoint.inject(src or addr, pkt)
        out = [parse_response(self.prefix, d) for (s, dst, d) in self.net.log[n0:] if tuple(dst[:2]) == tuple((src or addr)[:2])]
        self.net.queue.clear()
        return [o for o in out if o is not None]

    def token_of(self, r, spec):
        kind = spec[0]
        if kind == "own":            # the spec[1]-th most recent token N issued to this requester
            l = self.issued.get(r, [])
            return l[-1 - spec[1]] if len(l) > spec[1] else None
        if kind == "of":             # a token N issued to another requester
            l = self.issued.get(spec[1], [])
            return l[-1] if l else None
        if kind == "foreign":
            return self.foreign.get(r)
        if kind == "raw":
            return bytes.fromhex(spec[1])
        raise HarnessError("token spec %r" % (spec,))

    def num_closer(self, target):
        """what on_store_request counts: the nodes the routing table answered with (C14's business; recorded by a
        wrapper around RoutingTable.closest_nodes) that are closer to the target than this node - own arithmetic"""
        if not _CLOSEST:
            return 0
        mine = node_id(N_ADDR[0], sha1(self.N.my_peer.public_key.key_to_bin()))
        ids = [node_id(n.address[0], sha1(n.public_key.key_to_bin())) for n in _CLOSEST[-1]]
        return sum(1 for i in ids if xor_distance(i, target) < xor_distance(mine, target))

    async def do(self, o):
        kind = o[0]
        if kind == "advance":
            await self.advance(o[1])
            self.drain()
            return
        if kind == "at":
            if o[1] < self.now():
                raise HarnessError("clock cannot go back")
            await self.advance(o[1] - self.now())
            self.drain()
            return
        self.drain()
        before = self.storage()
        pbefore = self.peers()
        e = {"t": self.now(), "before": before, "rot": None}
        if kind == "find" or kind == "find-foreign":
            _, r, ti, offset, force = o
            ov = self.N if kind == "find" else self.M
            self.ident += 1
            nid, known = self.admission(r)
            qbefore = self.queries() if kind == "find" else None
            out = self.send(ov, r, 5, body_find(self.ident, self.rqs[r][0], self.targets[ti], offset, force))
            resp = [x for x in out if x[0] == 6 and x[1] == self.ident]
            obs = parse_find_response(resp[0][2]) if resp else None
            if kind == "find-foreign":
                if obs:
                    self.foreign[r] = obs[0]
                return
            if obs:
                self.issued.setdefault(r, []).append(obs[0])
            e.update(op=("find", r, self.targets[ti], offset, force), obs=obs, exc=list(self.exc),
                     adm=(nid, self.now(), known, self.held(nid)), qbefore=qbefore)
            if obs is not None and nid not in self.seen:
                self.seen.append(nid)
        elif kind == "store":
            _, r, tspec, ti, vidx = o[:5]
            src = tuple(o[5]) if len(o) > 5 and o[5] else None
            tok = self.token_of(r, tspec) or bytes(20)
            self.ident += 1
            vals = [self.pool[i] for i in vidx]
            del _CLOSEST[:]
            nid, known = self.admission(r, src)
            qbefore = self.queries()
            rt0 = self.N.routing_tables.get(self.UDPv4Address)
            n0 = rt0.get(nid) if rt0 is not None else None
            lq_before = [as_int(t - BASE, "q") for t in n0.last_queries] if n0 is not None else []
            out = self.send(self.N, r, 3, body_store(self.ident, tok, self.targets[ti], vals), src=src)
            resp = any(x[0] == 4 and x[1] == self.ident for x in out)
            e.update(op=("store", r, self.now(), tok, self.targets[ti], list(vidx), self.num_closer(self.targets[ti])),
                     obs=(resp, self.exc[0] if self.exc else None), src=src,
                     adm=(nid, self.now(), known, self.held(nid)), qbefore=qbefore)
            # admitted (not rate limited): a sender the table did not hold is never limited; one it held got its
            # query history stamped (a full deque of stamps equal to now would mean blocked, so the content changes)
            rt = self.N.routing_tables.get(self.UDPv4Address)
            n_ = rt.get(nid) if rt is not None else None
            lq_after = [as_int(t - BASE, "q") for t in n_.last_queries] if n_ is not None else []
            e["admitted"] = bool((not known) or lq_after != (lq_before or []))
            if e["admitted"] and nid not in self.seen:
                self.seen.append(nid)
        elif kind == "storepeer":
            _, r, tspec, tkind = o
            tok = self.token_of(r, tspec) or bytes(20)
            mid = sha1(self.w.pk[self.rqs[r][1]])
            target = mid if tkind == "mid" else sha1(self.w.pk[self.rqs[int(tkind[1:])][1]]) if tkind[0] == "r" else bytes.fromhex(tkind)
            self.ident += 1
            out = self.send(self.N, r, 7, body_store_peer(self.ident, tok, target))
            resp = any(x[0] == 8 and x[1] == self.ident for x in out)
            e.update(op=("storepeer", r, tok, target), obs=resp, exc=list(self.exc))
        elif kind == "rotate":
            self.N.token_maintenance()
            self.drain()
            return
        elif kind == "clean":
            self.N.value_maintenance()
            self.drain()
            return
        elif kind == "post":
            vals = [self.pool[i] for i in o[1]]
            try:
                res = [(bytes(d), None if pk is None else bytes(pk)) for d, pk in self.N.post_process_values(vals)]
                obs = ("ok", res)
            except Exception as ex:   # noqa
                obs = ("raise", type(ex).__name__)
            e.update(op=("post", list(o[1])), obs=obs)
        elif kind == "unser":
            try:
                u = self.N.unserialize_value(self.pool[o[1]])
                obs = ("ok", None if u is None else (bytes(u[0]), None if u[1] is None else bytes(u[1]), int(u[2])))
            except Exception as ex:   # noqa
                obs = ("raise", type(ex).__name__)
            e.update(op=("unser", o[1]), obs=obs)
        elif kind == "snap":
            e.update(op=("snap",), obs=(self.secrets(), self.storage(), self.peers()))
        else:
            raise HarnessError("op %r" % (o,))
        e["after"] = self.storage()
        e["qafter"] = self.queries()
        e["pbefore"], e["pafter"] = pbefore, self.peers()
        self.trace.append(e)
        self.drain()

    async def close(self):
        await self.N.unload()
        await self.M.unload()


class StorageRun:
    """a bare ipv8.dht.storage.Storage under the same virtual clock"""

    def __init__(self, case, loop):
        from ipv8.dht.storage import Storage
        self.case, self.loop = case, loop
        self.pool = [bytes.fromhex(h) for h in case["pool"]]
        self.targets = [bytes.fromhex(h) for h in case["targets"]]
        self.s = Storage()
        self.trace = []
        self.secret0 = b""

    def now(self):
        return as_int(self.loop._vnow, "clock")

    def storage(self):
        return [(bytes(k), [(bytes(v.id), bytes(v.data), as_int(v.version, "version"),
                             as_int(v.last_update - BASE, "last_update"), as_int(v.max_age, "max_age")) for v in vs])
                for k, vs in self.s.items.items()]

    async def do(self, o):
        kind = o[0]
        if kind == "advance":
            self.loop._vnow += float(o[1])
            return
        e = {"t": self.now(), "before": self.storage()}
        if kind == "put":
            _, ti, di, idspec, max_age, version = o
            id_ = None if idspec is None else self.targets[ti] if idspec == "key" else bytes.fromhex(idspec)
            self.s.put(self.targets[ti], self.pool[di], id_=id_, max_age=max_age, version=version)
            e.update(op=("put", self.now(), self.targets[ti], di, id_, max_age, version), obs=None)
        elif kind == "get":
            _, ti, start, limit = o
            e.update(op=("get", self.targets[ti], start, limit), obs=[bytes(x) for x in self.s.get(self.targets[ti], start, limit)])
        elif kind == "clean":
            self.s.clean()
            e.update(op=("clean", self.now()), obs=None)
        elif kind == "snap":
            e.update(op=("snap",), obs=([b""], self.storage(), []))
        else:
            raise HarnessError("op %r" % (o,))
        e["after"] = self.storage()
        self.trace.append(e)

    async def close(self):
        pass


def run_impl(case):
    """run the abstract script of a case on the real code; returns {"trace", "secret0", "world"}"""
    from tools.vlib import vtime
    loop = vtime.VLoop()
    asyncio.set_event_loop(loop)
    out = {}

    async def main():
        run = StorageRun(case, loop) if case["mode"] == "storage" else NodeRun(case, loop)
        try:
            for o in case["ops"]:
                await run.do(o)
            if case["mode"] != "storage":
                run.drain()
        finally:
            await run.close()
        out["trace"], out["secret0"] = run.trace, run.secret0
    try:
        with vtime.patched_time(loop, BASE):
            loop.run_until_complete(main())
    finally:
        asyncio.set_event_loop(None)
        loop.close()
    return out


# ---------------------------------------------------------------------------- the property, on observations
def oracle(case, run):
    """Independent statement of C15 on what the implementation did.  Returns [(key, what)]."""
    bad = []

    def report(key, what):
        if all(k != key for k, _ in bad):
            bad.append((key, what))
    pool = [bytes.fromhex(h) for h in case["pool"]]
    rqs = [((ip, port), k) for ip, port, k in case["rqs"]]
    w = World(case["keys"]) if case["keys"] else None
    timers = bool(case.get("timers"))
    rot = 0                       # rotations so far
    issued = []                   # (token, address, key bin, rotation count at issue, time)
    hist = {}                     # node id -> times of the requests of that node that were let through (rate limit)
    for step, e in enumerate(run["trace"]):
        op = e["op"]
        before, after = e.get("before"), e["after"]
        where = "operation %d (%s)" % (step, op[0])
        limited = False
        if op[0] in ("find", "store") and e.get("adm"):
            nid, t_req, known_, kept_ = e["adm"]
            lq = hist.get(nid, []) if known_ else []
            limited = bool(known_ and len(lq) >= SPEC_RATE_QUERIES and t_req - lq[-SPEC_RATE_QUERIES] < SPEC_RATE_INTERVAL)
            served = (e["obs"] is not None) if op[0] == "find" else bool(e["obs"][0] or after != before or e["obs"][1])
            if limited:
                if served:
                    report("ratelimit/blocked-request-served", "%s: served although %d requests of this node were let through in the last %d s" % (
                        where, SPEC_RATE_QUERIES, SPEC_RATE_INTERVAL))
                if after != before or e.get("pafter") != e.get("pbefore"):
                    report("ratelimit/blocked-request-changes-state", "%s: a request over the rate limit changed the node's state" % where)
                if e.get("qbefore") is not None and e.get("qafter") != e.get("qbefore"):
                    report("ratelimit/blocked-request-stamped", "%s: a dropped request extended the query history" % where)
            else:
                hist[nid] = (lq + [t_req]) if kept_ else []
        if op[0] == "rotate":
            rot += 1
            continue
        bmap = {(k, v[0]): v for k, vs in (before or []) for v in vs}
        amap = {(k, v[0]): v for k, vs in after for v in vs}
        if op[0] == "clean":
            t = op[1]
            for (k, i), v in amap.items():
                if t - v[3] > v[4]:
                    report("clean/expired-value-survives-maintenance",
                           "%s at t=%d: a value aged %d s with a lifetime of %d s is still stored (key holds %d values)" % (
                               where, t, t - v[3], v[4], len([1 for kk, _ in amap if kk == k])))
            # (maintenance entries of the trace carry no `before`; unexpired values are checked through the next snapshot)
            continue
        if op[0] == "find":
            if e["obs"] is None:
                if not limited and not e.get("exc"):
                    report("ratelimit/request-wrongly-dropped", "%s: no find-response although the node is within its rate limit" % where)
                continue
            tok, vals = e["obs"]
            addr, k = rqs[op[1]]
            issued.append((tok, addr, w.pk[k], rot, e["t"]))
            stored = [v[1] for kk, vs in before for v in vs if kk == op[2]]
            if op[4]:
                if vals:
                    report("find/values-on-force-nodes", "%s: values returned although nodes were requested" % where)
            elif vals != stored[op[3]:op[3] + 8]:
                report("find/served-values-differ-from-stored", "%s: served %d values, stored %d (offset %d)" % (
                    where, len(vals), len(stored), op[3]))
            if after != before:
                report("find/changes-storage", "%s: a lookup changed the storage" % where)
            continue
        if op[0] == "store":
            _, r, now, tok, target, vidx, _nc = op
            resp, exc = e["obs"]
            vals = [pool[i] for i in vidx]
            src = e.get("src") or rqs[r][0]
            pkbin = w.pk[rqs[r][1]]
            accepted = resp or after != before
            if accepted:
                # authorised: a token this node issued to the same address and key, at most one rotation ago
                own = [(t, a, p, ro, ti) for (t, a, p, ro, ti) in issued if t == tok]
                if not own:
                    report("store/accepted-without-issued-token", "%s: values accepted for a token this node never issued" % where)
                elif not any(tuple(a) == tuple(src) and p == pkbin for (_, a, p, _, _) in own):
                    which = "address" if any(p == pkbin for (_, _, p, _, _) in own) else "key"
                    report("store/accepted-token-of-other-%s" % which,
                           "%s: values accepted from %s:%d with a token issued to another %s" % (where, src[0], src[1], which))
                else:
                    mine = [(ro, ti) for (_, a, p, ro, ti) in own if tuple(a) == tuple(src) and p == pkbin]
                    if min(rot - ro for ro, _ in mine) >= SPEC_TOKEN_GENERATIONS:
                        report("store/accepted-expired-token", "%s: token accepted %d rotations after it was issued" % (
                            where, min(rot - ro for ro, _ in mine)))
                    if timers and min(now - ti for _, ti in mine) > SPEC_TOKEN_WINDOW:
                        report("store/accepted-token-older-than-window", "%s: token accepted %d s after it was issued (window %d s)" % (
                            where, min(now - ti for _, ti in mine), SPEC_TOKEN_WINDOW))
                if any(len(v) > SPEC_MAX_ENTRY_SIZE for v in vals):
                    report("store/accepted-oversized-value", "%s: request with a value of %d bytes accepted" % (
                        where, max(len(v) for v in vals)))
                if len(vals) > SPEC_MAX_VALUES:
                    report("store/accepted-too-many-values", "%s: request with %d values accepted" % (where, len(vals)))
            # whatever happened: the storage changes only by this request's own authentic values
            for (k, i), v in amap.items():
                old = bmap.get((k, i))
                if old == v:
                    continue
                if k != target or v[1] not in vals:
                    report("store/foreign-change", "%s: a value not sent in this request appeared" % where)
                    continue
                c = classify(v[1])
                if c[0] == "plain":
                    if v[0] != sha1(v[1]) or v[2] != 0:
                        report("store/plain-value-misfiled", "%s: unsigned value stored with id/version of something else" % where)
                elif c[0] == "signed":
                    if v[0] != sha1(c[2]) or v[2] != c[3]:
                        report("store/signed-value-misfiled", "%s: signed value stored under another signer or version" % where)
                else:
                    report("store/unauthentic-value-stored", "%s: a value that is neither plain nor validly signed was stored (%s)" % (where, c[0]))
                if v[3] != now or not (0 <= v[4] <= SPEC_MAX_ENTRY_AGE):
                    report("store/lifetime", "%s: stored with last_update %d (now %d), lifetime %d" % (where, v[3], now, v[4]))
                if old is not None and v[2] < old[2]:
                    report("store/older-version-replaced-newer", "%s: version %d replaced stored version %d" % (where, v[2], old[2]))
            for (k, i), old in bmap.items():
                if (k, i) not in amap:
                    report("store/value-lost", "%s: a stored value disappeared on a store request" % where)
            # usefulness (so that a node that stores nothing does not pass): a fully valid request is served
            if not accepted and not exc and not limited:
                own_ok = any(t == tok and tuple(a) == tuple(src) and p == pkbin and rot - ro < SPEC_TOKEN_GENERATIONS
                             for (t, a, p, ro, ti) in issued)
                if own_ok and len(vals) <= SPEC_MAX_VALUES and all(len(v) <= SPEC_MAX_ENTRY_SIZE for v in vals):
                    report("store/valid-request-refused", "%s: a request with a valid token within the limits was dropped" % where)
            if accepted and resp:
                for v in vals:
                    c = classify(v)
                    if c[0] == "signed":
                        cur = amap.get((target, sha1(c[2])))
                        if cur is None or cur[2] < c[3]:
                            report("store/newer-version-not-stored", "%s: acknowledged, but the stored version is older than the one sent" % where)
                    elif c[0] == "plain" and (target, sha1(v)) not in amap:
                        report("store/acknowledged-value-missing", "%s: acknowledged, but a plain value is not stored" % where)
            continue
        if op[0] == "storepeer":
            _, r, tok, target = op
            resp = e["obs"]
            addr, k = rqs[r]
            pkbin = w.pk[k]
            changed = e["pafter"] != e["pbefore"]
            if resp or changed:
                ok = any(t == tok and tuple(a) == tuple(addr) and p == pkbin and rot - ro < SPEC_TOKEN_GENERATIONS
                         for (t, a, p, ro, ti) in issued)
                if not ok:
                    report("storepeer/accepted-without-valid-token", "%s: store-peer accepted without a valid token of this requester" % where)
                if target != sha1(pkbin):
                    report("storepeer/accepted-for-foreign-mid", "%s: store-peer accepted under a key that is not the requester's mid" % where)
                for t, keys in e["pafter"]:
                    oldk = dict(e["pbefore"]).get(t, [])
                    if keys != oldk and (t != target or keys != oldk + ([pkbin] if pkbin not in oldk else [])):
                        report("storepeer/foreign-change", "%s: the peer store changed by more than this requester" % where)
            elif not e["exc"]:
                ok = any(t == tok and tuple(a) == tuple(addr) and p == pkbin and rot - ro < SPEC_TOKEN_GENERATIONS
                         for (t, a, p, ro, ti) in issued)
                if ok and target == sha1(pkbin):
                    report("storepeer/valid-request-refused", "%s: valid store-peer dropped" % where)
            if after != before:
                report("storepeer/changes-storage", "%s: store-peer changed the value storage" % where)
            continue
        if op[0] == "post":
            vals = [pool[i] for i in op[1]]
            cl = [classify(v) for v in vals]
            if e["obs"][0] == "ok":
                res = e["obs"][1]
                signers = [pk for _, pk in res if pk is not None]
                if len(signers) != len(set(signers)):
                    report("lookup/signer-reported-twice", "%s: a signer appears twice in the result" % where)
                for d, pk in res:
                    if pk is None:
                        if not any(c[0] == "plain" and c[1] == d for c in cl):
                            report("lookup/unsigned-data-from-nowhere", "%s: unsigned data not among the inputs" % where)
                        continue
                    mine = [c for c in cl if c[0] == "signed" and c[2] == pk]
                    if not mine:
                        report("lookup/reported-signed-without-valid-signature",
                               "%s: data reported as signed by a key none of whose inputs verifies" % where)
                    elif not any(c[1] == d and c[3] == max(x[3] for x in mine) for c in mine):
                        report("lookup/not-highest-version", "%s: reported data is not of the highest version seen for its signer" % where)
                if not any(c[0] == "raises" for c in cl):
                    for pk in set(c[2] for c in cl if c[0] == "signed"):
                        if pk not in signers:
                            report("lookup/valid-signer-dropped", "%s: a validly signed input has no result" % where)
                    if sorted(d for d, pk in res if pk is None) != sorted(c[1] for c in cl if c[0] == "plain"):
                        report("lookup/unsigned-values-differ", "%s: unsigned results differ from unsigned inputs" % where)
            continue
        if op[0] == "unser":
            c = classify(pool[op[1]])
            if e["obs"][0] == "ok" and e["obs"][1] is not None:
                d, pk, ver = e["obs"][1]
                if pk is not None and not (c[0] == "signed" and (c[1], c[2], c[3]) == (d, pk, ver)):
                    report("lookup/reported-signed-without-valid-signature", "%s: unserialize_value reports a signer for a value that does not verify" % where)
                if pk is None and not (c[0] == "plain" and c[1] == d):
                    report("lookup/unsigned-data-from-nowhere", "%s: unserialize_value misreads a plain value" % where)
            elif e["obs"][0] == "ok" and c[0] in ("plain", "signed"):
                report("lookup/authentic-value-rejected", "%s: an authentic value is not read back" % where)
            continue
        if op[0] == "put":
            _, now, key, di, id_, max_age, version = op
            data = pool[di]
            i = id_ or sha1(data)
            old, new = bmap.get((key, i)), amap.get((key, i))
            if new is None:
                report("put/value-not-stored", "%s: nothing stored under the id" % where)
            elif old is not None and new[2] < old[2]:
                report("store/older-version-replaced-newer", "%s: version %d replaced stored version %d" % (where, new[2], old[2]))
            elif old is not None and version < old[2] and new != old:
                report("store/older-version-replaced-newer", "%s: put of version %d altered stored version %d" % (where, version, old[2]))
            elif (old is None or version >= old[2]) and new != (i, data, version, now, max_age):
                report("put/newer-version-not-stored", "%s: put of version %d not reflected" % (where, version))
            for kk, v in bmap.items():
                if kk != (key, i) and amap.get(kk) != v:
                    report("put/foreign-change", "%s: another value changed" % where)
            ids = [v[0] for k, vs in after for v in vs if k == key]
            if len(ids) != len(set(ids)):
                report("put/duplicate-id", "%s: two values with one id under a key" % where)
            continue
        if op[0] == "get":
            _, key, start, limit = op
            stored = [v[1] for kk, vs in before for v in vs if kk == key]
            exp = stored[start:(start + limit) if limit else limit]
            if e["obs"] != exp:
                report("get/slice", "%s: get returned %d values, expected %d" % (where, len(e["obs"]), len(exp)))
            continue
    # maintenance completeness: a clean never removes an unexpired value (uses consecutive trace entries)
    prev = None
    for e in run["trace"]:
        if e["op"][0] == "clean" and prev is not None:
            t = e["op"][1]
            amap = {(k, v[0]): v for k, vs in e["after"] for v in vs}
            for k, vs in prev:
                for v in vs:
                    if t - v[3] <= v[4] and amap.get((k, v[0])) != v:
                        report("clean/unexpired-value-removed", "maintenance at t=%d removed a value aged %d s with a lifetime of %d s" % (
                            t, t - v[3], v[4]))
        prev = e["after"]
    return bad


# ---------------------------------------------------------------------------- rendering for Coq
def flat_state(c_pool, c_keys, secrets, storage, peers):
    def fb(b):
        return [len(b)] + list(b)

    def idx(l, x):
        return l.index(x) if x in l else -1
    out = [len(secrets)]
    for s in secrets:
        out += fb(s)
    out.append(len(storage))
    for k, vs in storage:
        out += fb(k) + [len(vs)]
        for (i, d, ver, last, ma) in vs:
            out += [idx(c_pool, d), ver, last, ma] + fb(i)
    out.append(len(peers))
    for t, ks in peers:
        out += fb(t) + [len(ks)] + [idx(c_keys, k) for k in ks]
    return out


def render(case, run):
    """(coq case term, expected flat observation) for the model evaluation"""
    pool = [bytes.fromhex(h) for h in case["pool"]]
    w = World(case["keys"]) if case["keys"] else None
    rqs = [((ip, port), k) for ip, port, k in case["rqs"]]
    keys = list(w.pk) if w else []
    for v in pool:                       # every byte string an (independent) parse finds in key position
        if v and v[0] == 1:
            p = parse_signed(v)
            if p is not None and p[2] not in keys:
                keys.append(p[2])
    # sha1(identity ++ secret) for the pairs the node can be asked about: the requester of an operation with the
    # (at most TOKEN_SECRETS_MAXLEN, here generously 3) newest secrets at that moment
    cur, need = [run["secret0"]], []
    for e in run["trace"]:
        if e["op"][0] == "rotate":
            cur.append(e["op"][1])
        elif e["op"][0] in ("find", "store", "storepeer"):
            for s in cur[-3:]:
                if (e["op"][1], s) not in need:
                    need.append((e["op"][1], s))
    htok = []
    for (ri, s) in need:
        addr, k = rqs[ri]
        x = ident_text(addr, keys[k]) + s
        htok.append("(%s, %s)" % (zl(x), zl(sha1(x))))
    lens = []
    for k in keys:
        ki = key_info(k)
        lens.append("Ok %s" % nid(ki[1]) if ki[0] == "ok" else "Raise %s" % EXN_COQ[EXN.get(ki[1], 13)])
    valid = ["(%s, %s)" % (nid(ki), nid(vi)) for ki, k in enumerate(keys) for vi, v in enumerate(pool) if verifies(k, v)]

    def fb(b):
        return [len(b)] + list(b)

    def idx(l, x):
        return l.index(x) if x in l else -1

    def opt(x, f):
        return "None" if x is None else "(Some %s)" % f(x)
    iops, exp = [], []
    gops, gexp = [], []           # the same for the generated model, with the admission inputs
    limited = False               # some request was dropped by the rate limit: beyond the hand model
    cb_ = lambda b: "true" if b else "false"
    for e in run["trace"]:
        op = e["op"]
        n_i, n_e = len(iops), len(exp)
        if op[0] == "find":
            iops.append("IFind %s %s %s %s" % (nid(op[1]), zl(op[2]), nid(op[3]), "true" if op[4] else "false"))
            tok, vals = e["obs"] if e["obs"] is not None else (b"", [])
            exp += [1] + fb(tok) + [len(vals)] + [idx(pool, v) for v in vals]
            a = e["adm"]
            gops.append("GIFind %s %s %s %s %s %s %s %s" % (nid(op[1]), zl(a[0]), zid(a[1]), cb_(a[2]), cb_(a[3]), zl(op[2]), zid(op[3]), cb_(op[4])))
            if e["obs"] is None:
                limited = True
                gexp += [8, EXN.get(e["exc"][0], 13) if e.get("exc") else 0]
            else:
                gexp += exp[n_e:]
            continue
        elif op[0] == "store":
            _, r, now, tok, target, vidx, nc = op
            iops.append("IStore %s %s %s %s [%s] %s" % (nid(r), zid(now), zl(tok), zl(target), ";".join(nid(i) for i in vidx), zid(nc)))
            resp, exc = e["obs"]
            exp += [2, int(resp), EXN.get(exc, 13) if exc else 0]
            a = e["adm"]
            gops.append("GIStore %s %s %s %s %s %s %s [%s] %s" % (nid(r), zl(a[0]), zid(a[1]), cb_(a[2]), cb_(a[3]), zl(tok), zl(target),
                                                                  ";".join(nid(i) for i in vidx), zid(nc)))
            gexp += exp[n_e:]
            limited = limited or not e.get("admitted", True)
            continue
        elif op[0] == "storepeer":
            iops.append("IStorePeer %s %s %s" % (nid(op[1]), zl(op[2]), zl(op[3])))
            exp += [3, int(e["obs"])]
        elif op[0] == "rotate":
            iops.append("IRotate %s" % zl(op[1]))
            exp += [0]
        elif op[0] == "clean":
            iops.append("IClean %s" % zid(op[1]))
            exp += [0]
        elif op[0] == "put":
            _, now, key, di, id_, max_age, version = op
            iops.append("IPut %s %s %s %s %s %s" % (zid(now), zl(key), nid(di), opt(id_, zl), zid(max_age), zid(version)))
            exp += [0]
        elif op[0] == "get":
            iops.append("IGet %s %s %s" % (zl(op[1]), nid(op[2]), opt(op[3], zid)))
            exp += [4, len(e["obs"])] + [idx(pool, v) for v in e["obs"]]
        elif op[0] == "post":
            iops.append("IPost [%s]" % ";".join(nid(i) for i in op[1]))
            if e["obs"][0] == "ok":
                exp += [5, 0, len(e["obs"][1])]
                for d, pk in e["obs"][1]:
                    exp += fb(d) + [-1 if pk is None else idx(keys, pk)]
            else:
                exp += [5, EXN.get(e["obs"][1], 13)]
        elif op[0] == "unser":
            iops.append("IUnser %s" % nid(op[1]))
            if e["obs"][0] == "ok":
                u = e["obs"][1]
                exp += [6, 0, 0] if u is None else [6, 0, 1] + fb(u[0]) + [-1 if u[1] is None else idx(keys, u[1]), u[2]]
            else:
                exp += [6, EXN.get(e["obs"][1], 13)]
        elif op[0] == "snap":
            iops.append("ISnap")
            exp += [7] + flat_state(pool, keys, *e["obs"])
        else:
            raise HarnessError("render %r" % (op,))
        gops.append("GIBase (%s)" % iops[-1])
        gexp += exp[n_e:]
    if case["mode"] == "storage":
        gops = []                 # the generated model replays the case's own operations
    qfinal = []
    for e in reversed(run["trace"]):
        if "qafter" in e:
            qfinal = e["qafter"]
            break
    gexp.append(len(qfinal))
    for nid_, lq in qfinal:
        gexp += fb(nid_) + [len(lq)] + lq
    if limited:
        iops, exp = [], []
    term = "(mkCase [%s] [%s] [%s] [%s] [%s] [%s] [%s] [%s] %s [%s])" % (
        ";".join(zl(v) for v in pool), ";".join(zl(k) for k in keys),
        ";".join(zl(sha1(v)) for v in pool), ";".join(zl(sha1(k)) for k in keys),
        ";".join(htok), ";".join(lens), ";".join(valid),
        ";".join("(%s, %s)" % (zl(addr_text(a)), nid(k)) for a, k in rqs),
        zl(run["secret0"]), ";".join(iops))
    return term, zl(exp), "[%s]" % ";".join(gops), zl(gexp)


# ---------------------------------------------------------------------------- generators
TOKEN_KINDS = ("fresh", "previous", "expired", "other-address", "other-key", "foreign", "random", "zero")
VALUE_KINDS = ("plain", "signed", "signed-junk", "max-size", "oversized", "eight", "nine", "forged-sig", "forged-data",
               "forged-version", "wrong-signer", "sig-then-junk", "truncated", "bad-pk", "unknown-type", "empty", "short-signed")


def new_keys(r, n=4):
    from ipv8.keyvault.crypto import default_eccrypto as ec
    specs = [("c25519", r.randbytes(64).hex()) for _ in range(n - 1)]
    specs.append(("bin", ec.generate_key("very-low").key_to_bin().hex()))
    return specs


class CaseBuilder:
    def __init__(self, r, label, timers=False, rt_fill=0, keys=None):
        self.r = r
        self.keys = keys or new_keys(r)
        self.w = World(self.keys)
        # requesters: 0,1 = key 0 at two addresses; 2 = key 1 at the address of requester 0; 3 = key 2; 4 = very-low key
        a0, a1, a2, a3 = [("10.0.%d.%d" % (r.randrange(1, 250), r.randrange(2, 250)), r.randrange(1024, 65000)) for _ in range(4)]
        if r.random() < 0.5:
            a1 = (a0[0], a0[1] + 1)     # same host, other port
        self.rqs = [[a0[0], a0[1], 0], [a1[0], a1[1], 0], [a0[0], a0[1], 1], [a2[0], a2[1], 2], [a3[0], a3[1], 3]]
        self.pool, self.targets, self.ops = [], [], []
        self.label, self.timers, self.rt_fill = label, timers, rt_fill
        self.node_seed = r.randbytes(128).hex()
        self.fill_seed = r.randrange(1 << 30)
        for _ in range(2):
            self.targets.append(r.randbytes(20))
        # a target equal to the id of signed values of key 0 (id == key: sorted to the end of the list)
        self.targets.append(sha1(self.w.pk[0]))

    def val(self, v: bytes) -> int:
        if v not in self.pool:
            self.pool.append(v)
        return self.pool.index(v)

    def value(self, kind, k=None, version=None, data=None):
        r = self.r
        k = r.randrange(4) if k is None else k
        version = r.randrange(6) if version is None else version
        data = r.randbytes(r.randrange(0, 5)) if data is None else data
        if kind == "max-size":
            return [self.val(sized_value(self.w, r, k, r.random() < 0.5, SPEC_MAX_ENTRY_SIZE, version))]
        if kind == "oversized":
            n = SPEC_MAX_ENTRY_SIZE + r.choice([1, 1, 2, 30])
            return [self.val(sized_value(self.w, r, k, r.random() < 0.5, n, version))]
        if kind in ("eight", "nine"):
            n = SPEC_MAX_VALUES + (kind == "nine")
            return [self.val(b"\x00" + bytes([i]) + r.randbytes(2)) for i in range(n)]
        return [self.val(make_value(self.w, r, kind, k=k, data=data, version=version, k2=(k + 1) % 4))]

    def op(self, *o):
        self.ops.append(list(o))

    def tick(self, dt=1):
        self.op("advance", dt)

    def token_setup(self, r_idx, kind):
        """operations that make a token of the given kind available to requester r_idx; returns the token spec"""
        r = self.r
        ti = r.randrange(len(self.targets))
        if kind in ("fresh", "previous", "expired"):
            self.tick()
            self.op("find", r_idx, ti, 0, r.random() < 0.3)
            for _ in range({"fresh": 0, "previous": 1, "expired": 2 + (r.random() < 0.3)}[kind]):
                self.tick(r.choice([1, 10, 300]) if not self.timers else 1)
                if not self.timers:
                    self.op("rotate")
            return ("own", 0)
        if kind in ("other-address", "other-key"):
            other = {0: 1, 1: 0}.get(r_idx, 0) if kind == "other-address" else {0: 2, 2: 0}.get(r_idx, 3 if r_idx != 3 else 4)
            self.tick()
            self.op("find", other, ti, 0, False)
            return ("of", other)
        if kind == "foreign":
            self.tick()
            self.op("find-foreign", r_idx, ti, 0, False)
            return ("foreign",)
        if kind == "random":
            return ("raw", r.randbytes(20).hex())
        return ("raw", bytes(20).hex())

    def case(self):
        return {"label": self.label, "mode": "node", "timers": self.timers, "keys": self.keys, "rqs": self.rqs,
                "pool": [v.hex() for v in self.pool], "targets": [t.hex() for t in self.targets], "rt_fill": self.rt_fill,
                "fill_seed": self.fill_seed, "node_seed": self.node_seed, "ops": self.ops}


def gen_matrix(r, keys, quick):
    """token kinds x value kinds x version relation, a few cells per case; snapshots in between"""
    cells = [(t, v, rel) for t in TOKEN_KINDS for v in VALUE_KINDS for rel in ("older", "equal", "newer")
             if rel == "newer" or v in ("signed", "signed-junk", "forged-version", "max-size", "plain", "wrong-signer")]
    r.shuffle(cells)
    per = 6
    out = []
    for ci in range(0, len(cells), per):
        b = CaseBuilder(r, "matrix %d" % (ci // per), rt_fill=r.choice([0, 0, 12, 40]), keys=keys)
        for (tk, vk, rel) in cells[ci:ci + per]:
            rq = r.choice([0, 0, 1, 2, 3, 4])
            k = b.rqs[rq][2] if r.random() < 0.7 else r.randrange(4)
            ti = r.randrange(len(b.targets))
            base_ver = r.randrange(2, 5)
            # something already stored by the same signer under a fresh token
            spec = b.token_setup(rq, "fresh")
            b.tick()
            b.op("store", rq, spec, ti, b.value("signed", k=k, version=base_ver, data=b"old"))
            ver = {"older": base_ver - 1 - r.randrange(2), "equal": base_ver, "newer": base_ver + 1 + r.randrange(3)}[rel]
            if r.random() < 0.5:
                b.tick(r.choice([5, 100, 1700, 1801, 3500, 3600, 3601, 4000]))
                if r.random() < 0.5:
                    b.op("clean")
            spec = b.token_setup(rq, tk)
            b.tick()
            vals = b.value(vk, k=k, version=ver, data=b"new" if vk != "plain" else b"old")
            if r.random() < 0.3 and vk not in ("eight", "nine"):
                vals = b.value("plain") + vals + (b.value("signed") if r.random() < 0.5 else [])
            b.op("store", rq, spec, ti, vals)
            b.op("find", rq, ti, 0, False)
            b.op("snap")
        out.append(b.case())
    return out


def gen_random_node(r, keys, i, timers=False):
    b = CaseBuilder(r, "%s %d" % ("timers" if timers else "random", i), timers=timers, rt_fill=r.choice([0, 5, 20, 60]), keys=keys)
    pool_kinds = list(VALUE_KINDS)
    n = r.randrange(25, 60)
    for _ in range(n):
        x = r.random()
        rq = r.randrange(5)
        if x < 0.18:
            b.tick()
            b.op("find", rq, r.randrange(3), r.choice([0, 0, 0, 1, 2, 9]), r.random() < 0.2)
        elif x < 0.55:
            tk = r.choice(TOKEN_KINDS[:3] + TOKEN_KINDS[:1] + TOKEN_KINDS) if not timers else r.choice(["fresh", "fresh", "other-address", "random", "foreign"])
            spec = b.token_setup(rq, tk)
            if timers and r.random() < 0.6:
                spec = ("own", r.choice([0, 0, 1, 2, 3]))
            b.tick()
            vals = []
            for _ in range(r.choice([1, 1, 1, 2, 3])):
                vk = r.choice(pool_kinds[:3] * 3 + pool_kinds)
                k = b.rqs[rq][2] if r.random() < 0.6 else r.randrange(4)
                vals += b.value(vk, k=k, version=r.randrange(6))
            b.op("store", rq, spec, r.randrange(3), vals)
        elif x < 0.63:
            if timers:
                b.tick(r.choice([1, 100, 299, 300, 301, 600]))
            else:
                b.op("rotate")
        elif x < 0.75:
            b.tick(r.choice([1, 2, 60, 299, 300, 301, 599, 600, 601, 1799, 1800, 1801, 3599, 3600, 3601, 5000]))
        elif x < 0.83:
            if timers:
                b.tick(r.choice([1, 3600]))
            else:
                b.op("clean")
        elif x < 0.90:
            spec = b.token_setup(rq, r.choice(["fresh", "fresh", "previous", "expired", "other-address", "other-key", "random"]))
            b.tick()
            b.op("storepeer", rq, spec, r.choice(["mid", "mid", "mid", "r%d" % r.randrange(5), r.randbytes(20).hex()]))
        elif x < 0.96:
            if b.pool:
                b.op("post", [r.randrange(len(b.pool)) for _ in range(r.randrange(0, 7))])
        else:
            if b.pool:
                b.op("unser", r.randrange(len(b.pool)))
        if r.random() < 0.12:
            b.op("snap")
    b.op("snap")
    return b.case()


def gen_window(r, keys, i):
    """the node's own timers: tokens presented at ages around the rotation period and the validity window"""
    b = CaseBuilder(r, "window %d" % i, timers=True, rt_fill=0, keys=keys)
    t0 = r.choice([1, 37, 150, 299, 300, 301, 450])
    b.op("at", t0)
    rq = r.choice([0, 3, 4])
    b.op("find", rq, 0, 0, False)
    ages = sorted(set([r.choice([1, 5, 100]), 299 - (t0 % 300) if t0 % 300 < 299 else 1, 300, 301, 599, 600, 601, 900, 1201] +
                      [r.randrange(1, 1300) for _ in range(4)]))
    for a in ages:
        if a <= 0:
            continue
        b.op("at", t0 + a)
        b.op("store", rq, ("own", 0), r.randrange(3), b.value(r.choice(["plain", "signed"]), k=b.rqs[rq][2]))
    b.op("at", t0 + 1300 + 3600)
    b.op("snap")
    return b.case()


def gen_lookup(r, keys, i):
    """post_process_values / unserialize_value on mixed bags: several signers, versions in every order, forgeries"""
    b = CaseBuilder(r, "lookup %d" % i, keys=keys)
    for _ in range(r.randrange(3, 9)):
        idxs = []
        for _ in range(r.randrange(1, 8)):
            vk = r.choice(["signed"] * 5 + ["plain"] * 2 + ["forged-sig", "forged-version", "forged-data", "wrong-signer", "unknown-type",
                                                           "signed-junk", "sig-then-junk", "truncated"] + (["bad-pk", "empty", "short-signed"] if r.random() < 0.2 else []))
            idxs += b.value(vk, k=r.randrange(4), version=r.choice([0, 1, 2, 3, 3, 7, 255, 256, 65536, 4294967295]))
        r.shuffle(idxs)
        b.op("post", idxs)
        for j in idxs[:2]:
            b.op("unser", j)
    return b.case()


def gen_burst(r, keys, i):
    """bursts of requests of one node within the rate-limit interval (10 per 5 s), mixed with a second node, with
    finds and stores of valid and invalid tokens; the routing table full or not (kept / not kept senders)"""
    b = CaseBuilder(r, "burst %d" % i, rt_fill=r.choice([0, 0, 8, 60]), keys=keys)
    rq = r.choice([0, 3, 4])
    other = r.choice([x for x in (0, 2, 3, 4) if x != rq])
    b.tick()
    b.op("find", rq, 0, 0, False)
    b.op("store", rq, ("own", 0), 0, b.value("signed", k=b.rqs[rq][2], version=1))
    n = r.randrange(12, 30)
    for _ in range(n):
        x = r.random()
        who = rq if r.random() < 0.8 else other
        if x < 0.45:
            b.op("find", who, r.randrange(3), 0, r.random() < 0.2)
        elif x < 0.8:
            spec = ("own", 0) if r.random() < 0.7 else ("raw", r.randbytes(20).hex())
            b.op("store", who, spec, r.randrange(3), b.value(r.choice(["plain", "signed", "oversized", "empty"]),
                                                              k=b.rqs[who][2], version=r.randrange(4)))
        elif x < 0.9:
            b.tick(r.choice([1, 1, 2, 4, 5, 6]))
        elif x < 0.95:
            b.op("rotate")
        else:
            b.op("snap")
    b.tick(r.choice([4, 5, 6]))
    b.op("find", rq, 0, 0, False)
    b.op("store", rq, ("own", 0), 1, b.value("plain"))
    b.op("snap")
    return b.case()


def gen_storage(r, i, n_ops):
    """a bare Storage: puts with differing lifetimes / versions / ids (incl. id == key), cleans, reads"""
    targets = [r.randbytes(r.choice([1, 2, 20])) for _ in range(r.choice([1, 2, 3]))]
    datas = [r.randbytes(r.randrange(0, 4)) for _ in range(r.choice([3, 5, 8]))]
    pool = []
    for d in datas:
        if d not in pool:
            pool.append(d)
    ids = [r.randbytes(r.choice([1, 3])).hex() for _ in range(3)]
    ages = r.choice([[3600], [3600, 1800], [0, 1, 5, 60, 3600, 86400], [10, 20, 30]])
    ops = []
    for _ in range(n_ops):
        x = r.random()
        if x < 0.5:
            ops.append(["put", r.randrange(len(targets)), r.randrange(len(pool)),
                        r.choice([None, "key", "key"] + ids + ids), r.choice(ages), r.choice([0, 0, 1, 2, 3, 5])])
        elif x < 0.72:
            ops.append(["advance", r.choice([1, 1, 4, 5, 6, 10, 11, 29, 30, 31, 60, 1799, 1800, 1801, 3599, 3600, 3601, 90000])])
        elif x < 0.85:
            ops.append(["clean"])
        elif x < 0.97:
            ops.append(["get", r.randrange(len(targets)), r.choice([0, 0, 1, 2, 5]), r.choice([None, 0, 1, 2, 8])])
        else:
            ops.append(["snap"])
    ops.append(["clean"])
    ops.append(["snap"])
    return {"label": "storage %d" % i, "mode": "storage", "keys": [], "rqs": [], "pool": [p.hex() for p in pool],
            "targets": [t.hex() for t in targets], "ops": ops}


# ---------------------------------------------------------------------------- end-to-end (oracle only)
def e2e(seed, n_nodes=3):
    """real nodes talking to each other: store_value / find_values through the crawl; returns [(key, what)]"""
    from tools.vlib import simnet, vtime
    import random
    r = random.Random(seed)
    bad = []
    loop = vtime.VLoop()
    asyncio.set_event_loop(loop)

    async def main():
        from ipv8.dht.routing import Node
        from ipv8.messaging.interfaces.udp.endpoint import UDPv4Address
        net = simnet.SimNet()
        nodes = [simnet.make_overlay(spy_class(), net.endpoint(("10.1.0.%d" % (i + 1), 4000 + i))) for i in range(n_nodes)]
        for ov in nodes:
            for t in ("node_maintenance", "store_peer", "ping_all"):
                ov.cancel_pending_task(t)

        async def settle(coro):
            task = asyncio.ensure_future(coro)
            for _ in range(400):
                await net.pump(settle=1)
                if task.done():
                    break
                await loop.advance(0.25)
            return await task
        for a in nodes:
            for b_ in nodes:
                if a is not b_:
                    a.get_routing_table(Node(b_.my_peer.public_key.key_to_bin(), UDPv4Address(*b_.endpoint.addr))).add(
                        Node(b_.my_peer.public_key.key_to_bin(), UDPv4Address(*b_.endpoint.addr)))
        key = r.randbytes(20)
        writer, reader = nodes[0], nodes[-1]
        await loop.advance(1)
        try:
            await settle(writer.store_value(key, b"first", sign=True))
            await loop.advance(2)
            await settle(writer.store_value(key, b"second", sign=True))
            await settle(nodes[1 % n_nodes].store_value(key, b"anon", sign=False))
            res = await settle(reader.find_values(key))
        except Exception as e:   # noqa
            bad.append(("e2e/failed", "store/find between %d real nodes failed: %s %s" % (n_nodes, type(e).__name__, e)))
            res = ()
        wpk = writer.my_peer.public_key.key_to_bin()
        signed = [(d, pk) for d, pk in res if pk is not None]
        if res and (b"second", wpk) not in signed:
            bad.append(("e2e/latest-signed-value-not-found", "find_values returned %r" % (res,)))
        if any(pk == wpk and d != b"second" for d, pk in signed):
            bad.append(("lookup/not-highest-version", "find_values reports an older version for the writer: %r" % (res,)))
        for ov in nodes:          # what the nodes hold is authentic
            for cls, st in ov.storages.items():
                for k, vs in st.items.items():
                    for v in vs:
                        if classify(bytes(v.data))[0] not in ("plain", "signed"):
                            bad.append(("store/unauthentic-value-stored", "a node holds a value that is neither plain nor validly signed"))
        # after the lifetimes, maintenance leaves nothing behind
        await loop.advance(3600 * 2 + 10)
        for ov in nodes:
            for cls, st in ov.storages.items():
                left = sum(len(vs) for vs in st.items.values())
                if left:
                    bad.append(("clean/expired-value-survives-maintenance", "%d values left two hours after the last store" % left))
        for ov in nodes:
            await ov.unload()
    try:
        with vtime.patched_time(loop, BASE):
            loop.run_until_complete(main())
    finally:
        asyncio.set_event_loop(None)
        loop.close()
    return bad


# ---------------------------------------------------------------------------- the check
def process(case):
    try:
        run = run_impl(case)
        bad = oracle(case, run)
        term, exp, gops, gexp = render(case, run)
        term, exp = (term, gops), (exp, gexp)
        nontrivial = sum(1 for e in run["trace"] if e["op"][0] in ("store", "put") and e["after"] != e.get("before"))
        stats = {"ops": len(run["trace"]), "stores": sum(1 for e in run["trace"] if e["op"][0] == "store"),
                 "accepted": sum(1 for e in run["trace"] if e["op"][0] == "store" and (e["obs"][0] or e["after"] != e["before"])),
                 "rotations": sum(1 for e in run["trace"] if e["op"][0] == "rotate"),
                 "cleans": sum(1 for e in run["trace"] if e["op"][0] == "clean"),
                 "raised": sum(1 for e in run["trace"] if e["op"][0] == "store" and e["obs"][1]),
                 "changing": nontrivial}
        return term, exp, bad, stats, None
    except Exception as ex:   # noqa
        import traceback
        return None, None, [], {}, traceback.format_exc()


def case_size(c):
    return len(c["ops"]) * 1000 + len(c["pool"])


def shrink(case, key):
    """drop operations (and then pool entries are left alone) while the violation with this key persists"""
    def fails(c):
        try:
            return any(k == key for k, _ in oracle(c, run_impl(c)))
        except Exception:   # noqa
            return False
    cur = dict(case)
    n = len(cur["ops"])
    chunk = max(1, n // 2)
    budget = 120
    while chunk >= 1 and budget > 0:
        i = 0
        progressed = False
        while i < len(cur["ops"]) and budget > 0:
            cand = dict(cur)
            cand["ops"] = cur["ops"][:i] + cur["ops"][i + chunk:]
            budget -= 1
            if cand["ops"] and fails(cand):
                cur = cand
                progressed = True
            else:
                i += chunk
        if not progressed:
            chunk //= 2
    return cur


def run(ctx):
    from tools.tr import tr_dht_consts, tr_expr
    r = ctx.rng("main")
    # ---- stage 0: corpus
    for path in sorted(glob.glob(os.path.join(CORPUS, "*.json"))):
        js = json.load(open(path))
        for c in js.get("cases", []):
            for k, wh in oracle(c, run_impl(c)):
                ctx.violation(k, "corpus %s: %s" % (os.path.basename(path), wh), c)
            ctx.count(("corpus", path, c["label"]))
    # ---- stage G
    try:
        text = tr_dht_consts.write()
        consts = tr_dht_consts.read()
        ctx.extra["generated"] = {"gen/G15_consts.v": hashlib.sha256(text.encode()).hexdigest()[:16], "constants": consts}
        spec = {"MAX_ENTRY_SIZE": SPEC_MAX_ENTRY_SIZE, "MAX_VALUES_IN_STORE": SPEC_MAX_VALUES, "MAX_ENTRY_AGE": SPEC_MAX_ENTRY_AGE,
                "TOKEN_EXPIRATION_TIME": SPEC_TOKEN_WINDOW, "TOKEN_SECRETS_MAXLEN": SPEC_TOKEN_GENERATIONS}
        diff = {k: (consts[k], v) for k, v in spec.items() if consts[k] != v}
        if diff:
            ctx.broke("the limits in the source differ from the limits the property was stated for (source, property): %r" % diff,
                      "the oracle keeps using the property's limits; see tools/checks/c15.py SPEC_*")
    except (tr_expr.Unsupported, Exception) as e:   # noqa
        ctx.broke("translator tr_dht_consts aborted", e)
        text = None
    # the store path itself, compiled from the AST
    try:
        from tools.tr import tr_dht_handlers
        htext = tr_dht_handlers.write()
        ctx.extra["generated"]["gen/G15_handlers.v"] = hashlib.sha256(htext.encode()).hexdigest()[:16]
    except (tr_expr.Unsupported, Exception) as e:   # noqa
        ctx.broke("translator tr_dht_handlers aborted", e)
        htext = None
    # ---- stage P
    if text is not None:
        ctx.proofs()
        if htext is not None:
            ctx.proofs(part="C15x")     # the property over the generated definitions + the rate limit
    ctx.coverage["trusted_base"] = [
        "Coq 8.16.1 kernel (coqc, vm_compute); no axioms (Print Assumptions: closed)",
        "hand model coq/model/M15_dht_store.v of storage.py / the store, find and store-peer handlers / the value codec, tied by this run's correspondence",
        "translator tools/tr/tr_dht_consts.py (limits, rotation period, deque bound read from the source)",
        "translator tools/tr/tr_dht_handlers.py (Python ast -> Gallina over the vocabulary coq/model/M15_py.v) and the "
        "interpreter of handler effects coq/model/M15_store_gen.v, both also tied by this run's correspondence",
        "SHA-1 as a collision-free function, base64 as an injective space-free text encoding, unforgeability of the signature primitive (Section hypotheses)",
        "harness: hand-packed datagrams, virtual clock in whole seconds, the routing-table count of closer nodes recomputed by the harness",
    ]
    ctx.assumptions = ["whether the routing table holds / keeps the sender of a request is an input of the rate-limit model (C14's business)",
                       "IPv4 requesters that are not verified multi-interface peers (the handler's peer.address is the datagram's source)",
                       "token secrets are pairwise distinct (os.urandom) for the window statement"]
    keys = new_keys(r)
    cases = []
    cases += gen_matrix(r, keys, ctx.quick)
    n_matrix = len(cases)
    for i in range(18 if ctx.quick else 300):
        cases.append(gen_random_node(r, keys, i))
    for i in range(6 if ctx.quick else 40):
        cases.append(gen_random_node(r, keys, i, timers=True))
    for i in range(6 if ctx.quick else 40):
        cases.append(gen_window(r, keys, i))
    for i in range(10 if ctx.quick else 80):
        cases.append(gen_lookup(r, keys, i))
    for i in range(10 if ctx.quick else 80):
        cases.append(gen_burst(r, keys, i))
    n_node = len(cases)
    for i in range(600 if ctx.quick else 20000):
        cases.append(gen_storage(r, i, r.choice([8, 12, 20, 30]) if i % 10 else 80))
    with multiprocessing.Pool(12) as pool:
        results = pool.map(process, cases, chunksize=8)
    coq_cases, coq_idx = [], []
    viol = {}
    tot = {}
    for idx, (c, (term, exp, bad, stats, err)) in enumerate(zip(cases, results)):
        if err is not None:
            ctx.broke("harness failed on case %r" % c["label"], err)
            continue
        if htext is not None:
            coq_cases.append(("(%s, %s)" % term, "%s ++ zm7777 :: %s" % exp))
        else:
            coq_cases.append((term[0], exp[0]))
        coq_idx.append(idx)
        ctx.count((c["label"], idx), nontrivial=stats["changing"] > 0 or c["label"].startswith("lookup"))
        for k, v in stats.items():
            tot[k] = tot.get(k, 0) + v
        for k, wh in bad:
            if k not in viol or case_size(c) < case_size(viol[k][1]):
                viol[k] = (wh, c)
    for k, (wh, c) in sorted(viol.items()):
        small = shrink(c, k)
        whs = [w_ for kk, w_ in oracle(small, run_impl(small)) if kk == k]
        ctx.violation(k, "%s [case %s, %d operations]" % (whs[0] if whs else wh, c["label"], len(small["ops"])),
                      small)
    # ---- end to end, oracle only
    n_e2e = 2 if ctx.quick else 12
    for i in range(n_e2e):
        for k, wh in e2e(r.randrange(1 << 30), n_nodes=3 if i % 2 == 0 else 5):
            ctx.violation(k, "end-to-end: " + wh, {"mode": "e2e", "label": "e2e", "seed": i, "ops": [], "pool": []})
        ctx.count(("e2e", i))
    ctx.extra["case_mix"] = {"request_matrix_cases": n_matrix, "node_cases": n_node, "storage_histories": len(cases) - n_node,
                             "end_to_end_runs": n_e2e, **tot}
    for c in (cases[0], cases[n_matrix], cases[n_node]):
        ctx.sample({"label": c["label"], "operations": c["ops"][:14], "pool": len(c["pool"])})
    # ---- model inside Coq
    if text is not None:
        if htext is not None:
            mism, errs = coqrun.eval_mismatches(IMPORTS_GEN, "run_both", "bytes_eqb", coq_cases, os.path.join(ctx.scratch, "dht"),
                                                ctype="(case * list giop) * list Z", shard=40 if ctx.quick else 80, jobs=12,
                                                timeout=900, max_bytes=400000, preamble="Definition zm7777 : Z := (-7777)%Z.")
        else:
            mism, errs = coqrun.eval_mismatches(IMPORTS, "run_case", "bytes_eqb", coq_cases, os.path.join(ctx.scratch, "dht"),
                                                ctype="case * list Z", shard=40 if ctx.quick else 80, jobs=12, timeout=900,
                                                max_bytes=400000)
        for e in errs[:5]:
            ctx.broke("model evaluation failed", e)
        for j in mism[:6]:
            c = cases[coq_idx[j]]
            detail = {"label": c["label"], "impl_flat": coq_cases[j][1][:800], "case": c}
            if j == mism[0]:
                detail["model_flat"] = coqrun.eval_terms(IMPORTS_GEN if htext is not None else IMPORTS,
                                                         ["%s %s" % ("run_both" if htext is not None else "run_case", coq_cases[j][0])],
                                                         os.path.join(ctx.scratch, "dbg"))[-2500:]
            ctx.broke("correspondence: model and implementation differ on case %r" % c["label"], json.dumps(detail)[:3900])
        ctx.coverage["traces_validated_against_impl"] += len(coq_cases) - len(mism)
    ctx.coverage["rule"] = (
        "request matrix: %d token kinds x %d value kinds x version older/equal/newer (each cell at least once, random clock "
        "offsets around the lifetimes, routing tables of 0..60 nodes); random histories of finds, stores, store-peers, rotations, "
        "clock advances, maintenance runs, lookups; the same under the node's own timers incl. token ages around 300/600 s; "
        "lookups over mixed bags of signers/versions/forgeries; bare-Storage histories of 8..80 puts/cleans/gets with mixed "
        "lifetimes, ids equal to the key, versions (%d this run); end-to-end store/find between 3 and 5 real nodes (oracle only); "
        "non-trivial = a store/put changed the storage" % (len(TOKEN_KINDS), len(VALUE_KINDS), len(cases) - n_node))
    ctx.coverage["exhaustive"] = False


def replay(path):
    js = json.load(open(path))
    rc = 0
    cases = []
    for v in js.get("violations", []):
        print("recorded: %s :: %s" % (v["key"], v["what"]))
        cases.append(v["case"])
    cases += js.get("cases", [])
    from tools.vlib import repoenv
    repoenv.setup()
    for c in cases:
        if c.get("mode") == "e2e":
            bad = e2e(c.get("seed", 0))
        else:
            run = run_impl(c)
            bad = oracle(c, run)
            print("case %r: %d operations, %d trace entries" % (c["label"], len(c["ops"]), len(run["trace"])))
            for e in run["trace"][:40]:
                op = e["op"]
                print("   t=%-6s %-9s -> %s ; stored: %s" % (
                    e.get("t"), op[0], repr(e.get("obs"))[:80] if op[0] != "snap" else "...",
                    [(k.hex()[:6], [(v[0].hex()[:6], "v%d" % v[2], "t%d" % v[3], "life%d" % v[4]) for v in vs]) for k, vs in e["after"]]))
        for k, wh in bad:
            print("  VIOLATES %s :: %s" % (k, wh))
        if not bad:
            print("  property holds on this case")
        rc |= int(bool(bad))
    for b in js.get("no_longer_checks", []):
        print("no longer checks:", b["what"])
        rc = 1
    return rc
