"""C06 - an exit node never emits traffic its exit policy forbids.

Stage G: translate DataChecker / is_allowed from exit_socket.py -> coq/gen/G06_datachecker.v
Stage P: props/C06.v (classifier_meets_spec, emit_only_permitted, ...)
Stage C: real TunnelExitSocket + TunnelCommunity.on_data/exit_data against model M06_emit
Oracle  : an independent Python statement of the policy evaluated on what reached the fake
          transport / send_data of the implementation.
"""
from __future__ import annotations

import asyncio
import ipaddress
import json
import logging
import multiprocessing
import os
import types

from tools.tr import tr_datachecker, tr_expr
from tools.vlib import coqrun
from tools.vlib.coqrun import zl, cz, cb

IMPORTS = ("From Coq Require Import ZArith List Bool.\n"
           "From IPV8V Require Import lib.PyErr lib.Bytes gen.G06_datachecker model.M06_emit.\n"
           "Import ListNotations.\nOpen Scope Z_scope.\n")

EXIT_BT, EXIT_IPV8 = 2, 4   # documented wire values (spec side; the code's constants are translated)


# ---------------------------------------------------------------------------- oracle (spec in Python)
def utp_shaped(d):
    return len(d) >= 20 and d[0] in (0x01, 0x11, 0x21, 0x31, 0x41) and d[1] in (0, 1, 2, 3)


def action_at(d):
    return len(d) >= 4 and d[0] == 0 and d[1] == 0 and d[2] == 0 and d[3] in (0, 1, 2, 3)


def tracker_shaped(d):
    return (len(d) >= 8 and action_at(d)) or (len(d) >= 12 and action_at(d[8:]))


def dht_shaped(d):
    return len(d) >= 2 and d[0] == ord("d") and d[-1] == ord("e")


def bt_shaped(d):
    return utp_shaped(d) or tracker_shaped(d) or dht_shaped(d)


def ipv8_shaped(d):
    return len(d) >= 23 and d[0] == 0 and d[1] in (1, 2)


def permitted(flags, prefix, d):
    return (bt_shaped(d) and EXIT_BT in flags) or (ipv8_shaped(d) and (EXIT_IPV8 in flags or d[:22] == prefix))


# ---------------------------------------------------------------------------- implementation harness
NULL = ("0.0.0.0", 0)
PREV = ("10.0.0.5", 4000)
# source addresses that resemble the previous hop's textually without being it; op code 2^32 + index (the model sees an
# address different from the hop's, which is what the strings are)
LOOKALIKE = ["110.0.0.5", "210.0.0.5", "10.0.0.50", "10.0.0.51", "10.0.0.5.", " 10.0.0.5", "10.0.0.5 ", "::ffff:10.0.0.5",
             "::ffff:a00:5", "010.0.0.5", "10.0.0.05", "10.0.0", "0.0.0.5", "5", "", "10.0.0.5:4000", "10.0.0.5%eth0"]


def src_str(n):
    return LOOKALIKE[n - 2 ** 32] if n >= 2 ** 32 else str(ipaddress.IPv4Address(n))



def dest_to_py(d):
    from ipv8.messaging.interfaces.udp.endpoint import DomainAddress, UDPv4Address, UDPv6Address
    k = d[0]
    if k == "null":
        return UDPv4Address(*NULL)
    if k == "v4":
        return UDPv4Address(str(ipaddress.IPv4Address(d[1])), d[2])
    if k == "v6":
        return UDPv6Address(str(ipaddress.IPv6Address(d[1])), d[2])
    return DomainAddress("host%d.example" % d[1], d[2])


def dest_to_coq(d):
    k = d[0]
    if k == "null":
        return "DNull"
    return "(%s %d %d)" % ({"v4": "DV4", "v6": "DV6", "dom": "DDomain"}[k], d[1], d[2])


def py_to_dest(a):
    """address object seen at the implementation's boundary -> abstract dest"""
    from ipv8.messaging.interfaces.udp.endpoint import DomainAddress, UDPv6Address
    ip, port = a[0], a[1]
    if isinstance(a, DomainAddress):
        return ("dom", int(ip[4:].split(".")[0]), port)
    try:
        v = ipaddress.ip_address(ip)
    except ValueError:
        return ("dom", int(ip[4:].split(".")[0]), port)
    if (ip, port) == NULL:
        return ("null",)
    return ("v6" if v.version == 6 else "v4", int(v), port)


class FakeTransport:
    def __init__(self, log):
        self.log = log
        self.closed = False

    def sendto(self, data, addr):
        self.log.append(("sendto", bytes(data), py_to_dest(addr)))

    def close(self):
        self.closed = True


class Harness:
    """One exit node: real TunnelExitSocket, real TunnelCommunity.on_data / exit_data on a stand-in self."""

    def __init__(self, flags, prefix):
        from ipv8.messaging.anonymization import exit_socket as es
        from ipv8.messaging.anonymization.community import TunnelCommunity
        from ipv8.messaging.anonymization.payload import DataPayload, Flags
        from ipv8.messaging.anonymization.tunnel import Hop
        from ipv8.messaging.serialization import default_serializer, Serializer
        self.es = es
        self.log = []
        self.gate = asyncio.get_event_loop().create_future()
        self.pending_dns = []   # (future, data)
        h = self
        ser = Serializer()
        ser.add_packer("flags", Flags())

        class FakeTC:
            logger = logging.getLogger("FakeTC")
            settings = types.SimpleNamespace(peer_flags=set(flags))
            _prefix = prefix
            circuits = {}
            exit_sockets = {}
            serializer = ser
            endpoint = None
            on_data = TunnelCommunity.on_data
            exit_data = TunnelCommunity.exit_data

            def get_prefix(self):
                return prefix

            def send_data(self, target, circuit_id, dest, source, data):
                h.log.append(("send_data", bytes(data), py_to_dest(source), target, circuit_id, tuple(dest)))

        self.tc = FakeTC()
        peer = types.SimpleNamespace(address=PREV)
        self.sock = es.TunnelExitSocket(77, Hop(peer), self.tc)
        self.tc.exit_sockets = {77: self.sock}
        self.DataPayload = DataPayload

        async def fake_open(proto):
            await h.gate
            return FakeTransport(h.log)
        self._orig_open = es.TunnelProtocol.open
        es.TunnelProtocol.open = fake_open

        async def fake_resolve(address):
            fut = asyncio.get_event_loop().create_future()
            h.pending_dns.append(fut)
            return await fut
        self.sock.resolve = fake_resolve

    async def settle(self):
        for _ in range(6):
            await asyncio.sleep(0)

    async def apply(self, op):
        k = op[0]
        if k == "exit":
            _, known, src_ip, d, data = op
            cid = 77 if known else 78
            pl = self.DataPayload(cid, dest_to_py(d), NULL, data)
            packet = self.tc._prefix + bytes([pl.msg_id]) + self.tc.serializer.pack_serializable(pl)
            self.tc.on_data((src_str(src_ip), 4000), packet, None)
        elif k == "created":
            # the create_transports task exists only once the socket has been enabled
            if self.sock.enabled and not self.gate.done():
                self.gate.set_result(None)
        elif k == "resolved":
            _, i, ok, d = op
            if i < len(self.pending_dns):
                fut = self.pending_dns.pop(i)
                if ok:
                    fut.set_result(dest_to_py(d))
                else:
                    fut.set_exception(OSError("dns"))
        elif k == "outside":
            _, v6, mapped, src, data = op
            if self.sock.transport_ipv4 is not None:
                if v6:
                    ip = str(ipaddress.IPv6Address(src[1]))
                    if mapped:
                        ip = "::ffff:1.2.3.4"
                    self.sock.datagram_received_ipv6(data, (ip, src[2], 0, 0))
                else:
                    self.sock.datagram_received_ipv4(data, (str(ipaddress.IPv4Address(src[1])), src[2]))
        await self.settle()

    async def finish(self):
        if not self.gate.done():
            self.gate.cancel()
        for f in self.pending_dns:
            if not f.done():
                f.cancel()
        s = self.sock
        obs = (bool(s.enabled), s.transport_ipv4 is not None, len(s.queue), len(self.pending_dns),
               s.bytes_up, s.bytes_down)
        await self.sock.close()
        self.es.TunnelProtocol.open = self._orig_open
        return obs


async def run_impl(flags, prefix, ops):
    h = Harness(flags, prefix)
    per_op = []
    try:
        for op in ops:
            n0 = len(h.log)
            en0 = bool(h.sock.enabled)
            await h.apply(op)
            per_op.append((op, en0, bool(h.sock.enabled), h.log[n0:]))
        # pending count must be read before finish cancels
        obs = await h.finish()
    except Exception:
        h.es.TunnelProtocol.open = h._orig_open
        raise
    return h.log, obs, per_op


def op_to_coq(op):
    k = op[0]
    if k == "exit":
        return "ExitData %s %d %s %s" % (cb(op[1]), op[2], dest_to_coq(op[3]), zl(op[4]))
    if k == "created":
        return "TransportsCreated"
    if k == "resolved":
        return "Resolved %d%%nat %s %s" % (op[1], cb(op[2]), dest_to_coq(op[3]))
    return "Outside %s %s %s %s" % (cb(op[1]), cb(op[2]), dest_to_coq(op[3]), zl(op[4]))


def log_to_coq(log):
    outs = []
    for e in log:
        if e[0] == "sendto":
            outs.append("Sendto %s %s" % (zl(e[1]), dest_to_coq(e[2])))
        else:
            outs.append("SendData %s %s" % (dest_to_coq(e[2]), zl(e[1])))
    return "[" + "; ".join(outs) + "]"


# ---------------------------------------------------------------------------- generators
def gen_payload(r, prefix):
    """mostly shaped payloads, sometimes junk"""
    kind = r.choice(["utp", "utp_bad", "tracker0", "tracker8", "dht", "ipv8_own", "ipv8_other", "junk", "short", "near"])
    n = r.choice([0, 1, 2, 7, 8, 11, 12, 13, 19, 20, 21, 22, 23, 24, 30, 64]) if kind in ("junk", "short") else 0
    if kind == "utp":
        return bytes([r.choice([0x01, 0x11, 0x21, 0x31, 0x41]), r.randrange(4)]) + r.randbytes(r.choice([17, 18, 19, 30]))
    if kind == "utp_bad":
        return bytes([r.choice([0x51, 0x02, 0x10, 0x41, 0xf1]), r.choice([0, 3, 4, 255])]) + r.randbytes(r.choice([17, 18, 25]))
    if kind == "tracker0":
        return (r.choice([0, 1, 2, 3, 4, 256, 2**24])).to_bytes(4, "big") + r.randbytes(r.choice([3, 4, 8, 12]))
    if kind == "tracker8":
        return r.randbytes(8) + (r.choice([0, 1, 3, 4, 65536])).to_bytes(4, "big")[:r.choice([3, 4])] + r.randbytes(r.choice([0, 1, 5]))
    if kind == "dht":
        return r.choice([b"d", b"e", b"D"]) + r.randbytes(r.choice([0, 1, 5, 30])) + r.choice([b"e", b"d", b""])
    if kind == "ipv8_own":
        return prefix[:r.choice([22, 22, 22, 21])] + r.randbytes(r.choice([0, 1, 2, 40]))
    if kind == "ipv8_other":
        return bytes([0, r.choice([1, 2, 2, 3, 0])]) + r.randbytes(r.choice([20, 21, 22, 60]))
    if kind == "near":
        p = bytearray(prefix + b"\x01abc")
        p[r.randrange(len(p))] ^= 1 << r.randrange(8)
        return bytes(p)
    return r.randbytes(n)


def gen_dest(r):
    k = r.choice(["v4", "v4", "v6", "dom", "null"])
    if k == "null":
        return ("null",)
    if k == "v4":
        return ("v4", r.choice([0, 1, 0x0A000005, r.getrandbits(32)]) or 1, r.choice([0, 1, 80, 65535]))
    if k == "v6":
        return ("v6", r.getrandbits(128) | (1 << 100), r.randrange(65536))
    return ("dom", r.randrange(5), r.randrange(65536))


def gen_ops(r, prefix, n):
    ops = []
    prev = int(ipaddress.IPv4Address(PREV[0]))
    for _ in range(n):
        k = r.choices(["exit", "created", "resolved", "outside"], [6, 1, 2, 3])[0]
        if k == "exit":
            ops.append(("exit", r.random() < 0.9, prev if r.random() < 0.6 else r.choice([prev + 1, 1, r.getrandbits(32), 2 ** 32 + r.randrange(len(LOOKALIKE))]),
                        gen_dest(r), gen_payload(r, prefix)))
        elif k == "created":
            ops.append(("created",))
        elif k == "resolved":
            d = gen_dest(r)
            while d[0] in ("null", "dom"):
                d = gen_dest(r)
            ops.append(("resolved", r.randrange(3), r.random() < 0.8, d))
        else:
            src = gen_dest(r)
            while src[0] in ("null", "dom"):
                src = gen_dest(r)
            v6 = src[0] == "v6"
            ops.append(("outside", v6, v6 and r.random() < 0.2, src, gen_payload(r, prefix)))
    return ops


def impl_cls(f, flags, pfx, data, _cache={}):
    from ipv8.messaging.anonymization import exit_socket as es
    DC = es.DataChecker
    try:
        if f < 5:
            return bool([DC.could_be_utp, DC.could_be_udp_tracker, DC.could_be_dht, DC.could_be_bt, DC.could_be_ipv8][f](data))
        key = (tuple(flags), pfx)
        fake = _cache.get(key)
        if fake is None:
            fake = _cache[key] = types.SimpleNamespace(
                overlay=types.SimpleNamespace(settings=types.SimpleNamespace(peer_flags=set(flags)), get_prefix=lambda: pfx),
                logger=logging.getLogger("x"))
        return bool(es.TunnelExitSocket.is_allowed(fake, data))
    except Exception as e:   # noqa
        return type(e).__name__


def spec_cls(f, flags, pfx, d):
    return [utp_shaped, tracker_shaped, dht_shaped, bt_shaped, ipv8_shaped][f](d) if f < 5 else permitted(flags, pfx, d)


def sweep_impl(args):
    """all 65536 values of two adjacent bytes: (rows as base-4 numbers, policy disagreements)"""
    f, fl, pfx, pre, post = args
    rows, bad = [], []
    for b0 in range(256):
        acc = 0
        for b1 in range(256):
            d = pre + bytes([b0, b1]) + post
            v = impl_cls(f, fl, pfx, d)
            acc = acc * 4 + (1 if v is True else 0 if v is False else 2)
            exp = spec_cls(f, fl, pfx, d)
            if v is not exp and len(bad) < 5:
                bad.append((d, v, exp))
        rows.append(acc)
    return rows, bad


ALL_FLAGSETS = [[f for i, f in enumerate([1, 2, 4, 8]) if m >> i & 1] for m in range(16)]


# ---------------------------------------------------------------------------- the check
def run(ctx):
    # stage G
    try:
        text = tr_datachecker.write()
        ctx.extra["generated"] = {"gen/G06_datachecker.v": len(text)}
    except (tr_expr.Unsupported, Exception) as e:
        ctx.broke("translator tr_datachecker aborted", e)
        text = None
    # stage P
    proofs_ok = ctx.proofs() if text is not None else False
    # extension: the decisions of the emission path translated from the AST (gen/G06_exit.v), theorems in props/C06x.v
    from tools.checks import c06_exit
    xtext = c06_exit.translate(ctx)
    if xtext is not None and text is not None:
        ctx.proofs(part="C06x")
    ctx.coverage["trusted_base"] = [
        "Coq 8.16.1 kernel (coqc, vm_compute); no axioms (Print Assumptions: closed)",
        "translator tools/tr/tr_expr.py + tr_datachecker.py (Python ast -> Gallina)",
        "hand model coq/model/M06_emit.v of sendto/exit_data/on_data/datagram_received, tied by this run's correspondence",
        "DNS resolver returns IP addresses (op_ok hypothesis); asyncio task scheduling of create_transports",
    ]
    ctx.assumptions = ["bytes are 0..255", "resolver yields non-null IP addresses",
                       "fake DatagramTransport stands for the OS socket"]
    from ipv8.messaging.anonymization import exit_socket as es
    r = ctx.rng("main")
    prefix = b"\x00\x02" + bytes(range(100, 120))
    loop = asyncio.new_event_loop()
    asyncio.set_event_loop(loop)

    # ---- classifier: direct implementation oracle, exhaustive over the inspected header bytes
    sweeps = []
    lens = [19, 20, 21] if ctx.quick else list(range(17, 26))
    for n in lens:
        sweeps.append((0, [], prefix, b"", bytes(max(0, n - 2))))
    trk = [(7, 0), (8, 0), (8, 2), (11, 8), (12, 8), (12, 10), (13, 8)] if ctx.quick else \
        [(n, p) for n in range(4, 16) for p in (0, 2, 8, 10) if n >= p + 2]
    for n, pre_n in trk:
        sweeps.append((1, [], prefix, bytes(pre_n), bytes(n - pre_n - 2)))
    for n in (22, 23, 24):
        sweeps.append((4, [], prefix, b"", prefix[2:2 + n - 2] + bytes(max(0, n - 22))))
    flagsets = [[], [2], [4, 1], [1, 2, 4, 8]] if ctx.quick else ALL_FLAGSETS
    for fl in flagsets:
        sweeps.append((5, fl, prefix, b"", prefix[2:] + b"\x01"))        # sweeps through own prefix
        sweeps.append((5, fl, prefix, b"", bytes(18)))                    # uTP-length junk
        sweeps.append((5, fl, prefix, bytes(8), bytes(2)))                # tracker action at 8
    sweep_cases = []
    with multiprocessing.Pool(14) as pool:
        results = pool.map(sweep_impl, sweeps)
    for (f, fl, pfx, pre, post), (rows, bad) in zip(sweeps, results):
        ctx.coverage["evaluations"] += 65536
        for (d, v, exp) in bad[:3]:
            ctx.violation("classifier/%d/%s" % (f, "accepts" if v is True else "rejects" if v is False else v),
                          "classifier %d on %s flags=%s gives %s, policy says %s" % (f, d.hex(), fl, v, exp),
                          {"kind": "cls", "f": f, "flags": fl, "prefix": pfx.hex(), "data": d.hex()})
        ctx._distinct.add(("sweep", f, tuple(fl), pre, post))
        sweep_cases.append(("(%d%%nat, %s, %s, %s, %s)" % (f, zl(fl), zl(pfx), zl(pre), zl(post)),
                            "[" + ";".join("0x%x" % x for x in rows) + "]"))
    ctx.sample({"sweep": "classifier %d, all 65536 values of two header bytes after %d bytes, total length %d" % (
        sweeps[0][0], len(sweeps[0][3]), len(sweeps[0][3]) + 2 + len(sweeps[0][4]))})
    ctx.extra["sweeps"] = len(sweeps)
    if text is not None:
        mism, errs = coqrun.eval_mismatches(IMPORTS, "run_sweep", "list_eqb Z.eqb", sweep_cases, os.path.join(ctx.scratch, "sw"),
                                            ctype="sweep_case * list Z", shard=2, jobs=14)
        for e in errs:
            ctx.broke("model evaluation failed (sweep)", e)
        for i in mism:
            ctx.broke("correspondence: classifier sweep %s differs between generated model and implementation" % (sweeps[i][:2],),
                      sweep_cases[i][0][:300])
        ctx.coverage["traces_validated_against_impl"] += len(sweep_cases) - len(mism)

    # ---- classifier: random single payloads, all six functions
    cls_cases = []
    ncls = 1500 if ctx.quick else 20000
    for i in range(ncls):
        d = gen_payload(r, prefix)
        f = r.randrange(6)
        fl = r.choice(ALL_FLAGSETS)
        pfx = prefix if r.random() < 0.8 else d[:22]
        v = impl_cls(f, fl, pfx, d)
        exp = spec_cls(f, fl, pfx, d)
        ctx.count(("cls", f, tuple(fl), d, pfx), nontrivial=len(d) > 1)
        if v is not exp:
            ctx.violation("classifier/%d/%s" % (f, "accepts" if v is True else "rejects" if v is False else v),
                          "classifier %d on %s flags=%s gives %s, policy says %s" % (f, d.hex(), fl, v, exp),
                          {"kind": "cls", "f": f, "flags": fl, "prefix": pfx.hex(), "data": d.hex()})
        coqv = "Ok %s" % cb(v) if isinstance(v, bool) else "Raise %s" % {"error": "StructError"}.get(v, v)
        cls_cases.append(("(%d%%nat, %s, %s, %s)" % (f, zl(fl), zl(pfx), zl(d)), coqv))
        if i < 2:
            ctx.sample({"classifier": f, "flags": fl, "data": d.hex(), "impl": v})
    if text is not None:
        mism, errs = coqrun.eval_mismatches(IMPORTS, "run_cls", "res_eqb Bool.eqb", cls_cases, os.path.join(ctx.scratch, "cls"),
                                            ctype="cls_case * res bool")
        for e in errs:
            ctx.broke("model evaluation failed (cls)", e)
        for i in mism[:10]:
            ctx.broke("correspondence: classifier case differs", cls_cases[i])
        ctx.coverage["traces_validated_against_impl"] += len(cls_cases) - len(mism)

    # ---- emission histories
    nh = 400 if ctx.quick else 6000
    hist_cases, hist_meta = [], []
    prev = int(ipaddress.IPv4Address(PREV[0]))
    kinds = {}
    for i in range(nh):
        fl = r.choice(ALL_FLAGSETS)
        ops = gen_ops(r, prefix, r.choice([3, 6, 12, 25]))
        if i % 10 == 0:   # queue overflow before the transports exist
            ops = [("exit", True, prev, ("v4", 9, 9), bytes([0x01, 0]) + bytes(18))] + \
                  [("exit", True, prev, ("v4", 100 + j, 9), bytes([0x11, j % 4]) + bytes([j]) * 18) for j in range(13)] + \
                  [("created",)] + ops
        elif i % 10 == 1:   # the first exited packet comes from an address resembling the hop's
            j = (i // 10) % len(LOOKALIKE)
            ops = [("exit", True, 2 ** 32 + j, ("v4", 9, 9), bytes([0x01, 0]) + bytes(18)), ("created",)] + ops
        log, obs, per_op = loop.run_until_complete(run_impl(fl, prefix, ops))
        for op in ops:
            kinds[op[0]] = kinds.get(op[0], 0) + 1
        ctx.count(("hist", tuple(fl), tuple(ops)), nontrivial=len(log) > 0)
        # oracle: the property itself, on what the implementation did
        for e in log:
            if not permitted(fl, prefix, e[1]):
                ctx.violation("emit/forbidden/%s" % e[0], "%s of forbidden payload %s with flags %s" % (e[0], e[1].hex(), fl),
                              {"kind": "hist", "flags": fl, "prefix": prefix.hex(), "ops": ops_json(ops)})
            if e[0] == "sendto" and e[2] == ("null",):
                ctx.violation("emit/null-destination", "transport.sendto towards 0.0.0.0:0",
                              {"kind": "hist", "flags": fl, "prefix": prefix.hex(), "ops": ops_json(ops)})
        for (op, en0, en1, lg) in per_op:
            if not en0 and en1 and not (op[0] == "exit" and op[2] == prev and op[1]):
                ctx.violation("enable/not-prev-hop", "socket enabled by %r from source address %r (previous hop %r)" % (op[:4], src_str(op[2]) if op[0] == "exit" else None, PREV[0]),
                              {"kind": "hist", "flags": fl, "prefix": prefix.hex(), "ops": ops_json(ops)})
            if not en1 and lg:
                ctx.violation("emit/while-disabled", "emission while the socket is disabled",
                              {"kind": "hist", "flags": fl, "prefix": prefix.hex(), "ops": ops_json(ops)})
        if obs[2] > 10:
            ctx.violation("queue/unbounded", "exit socket queue length %d" % obs[2],
                          {"kind": "hist", "flags": fl, "prefix": prefix.hex(), "ops": ops_json(ops)})
        case = "(%s, %s, %d, [%s])" % (zl(fl), zl(prefix), prev, "; ".join(op_to_coq(o) for o in ops))
        exp = "(%s, (%s, %s, %d, %d, %d, %d))" % (log_to_coq(log), cb(obs[0]), cb(obs[1]), obs[2], obs[3], obs[4], obs[5])
        hist_cases.append((case, exp))
        hist_meta.append((fl, ops))
        if i < 2:
            ctx.sample({"history": ops_json(ops), "flags": fl, "impl_outputs": [(e[0], e[1].hex(), e[2]) for e in log]})
    ctx.extra["op_mix"] = kinds
    if text is not None:
        mism, errs = coqrun.eval_mismatches(IMPORTS, "run_hist", "obs_eqb", hist_cases, os.path.join(ctx.scratch, "hist"),
                                            ctype="hist_case * obs", shard=60)
        for e in errs:
            ctx.broke("model evaluation failed (hist)", e)
        for i in mism[:10]:
            ctx.broke("correspondence: emission history differs between model and implementation",
                      json.dumps({"flags": hist_meta[i][0], "ops": ops_json(hist_meta[i][1]), "impl": hist_cases[i][1][:500]}))
        ctx.coverage["traces_validated_against_impl"] += len(hist_cases) - len(mism)
    loop.close()
    c06_exit.stage(ctx, text=xtext if text is not None else None)
    ctx.coverage["rule"] = ("classifier: exhaustive 2-byte sweeps at the inspected offsets x lengths x flag sets, plus generated "
                            "shaped/junk payloads; histories: random op sequences (exit data, transports created, DNS resolved, "
                            "outside datagram) incl. queue overflow and textual look-alike source addresses, evaluated against the hand model and "
                            "against the model generated from the source's decisions; non-trivial = payload longer than 1 byte / "
                            "history with >= 1 emission")
    ctx.coverage["exhaustive"] = False


def ops_json(ops):
    out = []
    for op in ops:
        out.append([x.hex() if isinstance(x, bytes) else list(x) if isinstance(x, tuple) else x for x in op])
    return out


def ops_from_json(js):
    ops = []
    for op in js:
        k = op[0]
        if k == "exit":
            ops.append(("exit", op[1], op[2], tuple(op[3]), bytes.fromhex(op[4])))
        elif k == "created":
            ops.append(("created",))
        elif k == "resolved":
            ops.append(("resolved", op[1], op[2], tuple(op[3])))
        else:
            ops.append(("outside", op[1], op[2], tuple(op[3]), bytes.fromhex(op[4])))
    return ops


def replay(path):
    """Re-run the recorded failing cases against the implementation and print what happens."""
    js = json.load(open(path))
    rc = 0
    loop = asyncio.new_event_loop()
    asyncio.set_event_loop(loop)
    for v in js.get("violations", []):
        c = v["case"]
        if c["kind"] == "histx":
            from tools.checks import c06_exit
            rc |= c06_exit.replay_case(c)
        elif c["kind"] == "cls":
            from ipv8.messaging.anonymization import exit_socket as es
            d = bytes.fromhex(c["data"])
            pfx = bytes.fromhex(c["prefix"])
            fake = types.SimpleNamespace(overlay=types.SimpleNamespace(settings=types.SimpleNamespace(peer_flags=set(c["flags"])),
                                                                         get_prefix=lambda: pfx), logger=logging.getLogger("x"))
            got = es.TunnelExitSocket.is_allowed(fake, d)
            print("is_allowed(%s, flags=%s) = %s ; policy = %s" % (d.hex(), c["flags"], got, permitted(c["flags"], pfx, d)))
            rc |= int(bool(got) != permitted(c["flags"], pfx, d))
        else:
            ops = ops_from_json(c["ops"])
            pfx = bytes.fromhex(c["prefix"])
            log, obs, _ = loop.run_until_complete(run_impl(c["flags"], pfx, ops))
            for e in log:
                okp = permitted(c["flags"], pfx, e[1])
                print(e[0], e[1].hex(), e[2], "permitted" if okp else "FORBIDDEN")
                rc |= int(not okp) | int(e[0] == "sendto" and e[2] == ("null",))
    for b in js.get("no_longer_checks", []):
        print("no longer checks:", b["what"])
        rc = 1
    return rc
