"""C03 extension - the receive path as translated from the source.

Stage G: tools/tr/tr_recv.py -> coq/gen/G03_recv.v (Endpoint.notify_listeners / _deliver_later, TunnelEndpoint.
         notify_listeners, Community.on_packet, StatisticsEndpoint.on_packet, PythonCryptoEndpoint.on_packet /
         process_cell / relay_cell / incoming_crypto / decrypt_cell / encrypt_cell, CellPayload.from_bin / to_bin /
         unwrap, TunnelCommunity.on_cell / on_packet_from_circuit; fail closed).
Stage P: coq/props/C03x.v (built by ctx.proofs() of the caller: stand-alone C03x, or part="C03x" from C03).
Stage C: real listeners on the simulated endpoint - (N1) five overlay classes + a StatisticsEndpoint multiplexed on one
         endpoint, message handlers replaced by stubs whose behaviour (return / raise / failing coroutine / coroutine) is
         drawn per case, and also left real; (N2) the three roles of a real 2-hop circuit (originator, relay, exit) plus
         rendezvous relays installed as on_link_e2e does, whole or with one half removed by the real remove_relay;
         (N3) an anonymised and a plain overlay behind a TunnelEndpoint.  Every datagram is delivered through the
         production path; recorded: listeners handed the datagram (in order), handlers entered with which bytes /
         circuit id, cells forwarded, exception escaping, task failures reaching the loop.  The same case (tables
         abstracted by alpha(), recorded session-key outcomes) is run through the generated model inside Coq.
Oracle : stated on the implementation: nothing escapes notify_listeners; every selected listener is delivered to; a
         handler is entered only with bytes that carry its overlay's prefix and are at least 23 long, and it is the one
         registered for byte 22; no task failure reaches the event loop.
"""
from __future__ import annotations

import asyncio
import json
import os

from tools.tr import tr_recv
from tools.vlib import coqrun, simnet
from tools.vlib.coqrun import zl

IMPORTS = ("From Coq Require Import ZArith List Bool.\n"
           "From IPV8V Require Import lib.PyErr lib.Bytes gen.G03_recv model.M03_recv_gen.\n"
           "Import ListNotations.\nOpen Scope Z_scope.\n")
PRE = ("Definition run_obs (c : rcase) : list ev * res unit :=\n"
       "  let r := run_case c in (filter (fun e => match e with EvBadRead => false | _ => true end) (fst r), snd r).\n")
EXN = {"IndexError": "IndexError", "error": "StructError", "KeyError": "KeyError", "ValueError": "ValueError",
       "TypeError": "TypeError", "AttributeError": "TypeError", "RuntimeError": "RuntimeError", "AssertionError": "AssertionError",
       "OSError": "OSError", "PackError": "PackError", "CryptoException": "CryptoError", "PacketDecodingError": "DecodingError",
       "ZeroDivisionError": "ZeroDivisionError", "UnicodeDecodeError": "UnicodeError"}
SRC = ("9.9.9.9", 999)


def translate(ctx):
    """stage G; returns the generated text or None (reported as broken)"""
    try:
        text = tr_recv.write()
        ctx.extra.setdefault("generated", {})["gen/G03_recv.v"] = len(text)
        return text
    except Exception as e:   # tr_expr.Unsupported or anything else: fail closed
        ctx.broke("translator tr_recv aborted", e)
        try:
            os.remove(tr_recv.DEST)     # nothing may be proved or evaluated against a stale translation
        except OSError:
            pass
        return None


# ------------------------------------------------------------------------------------------ observed node
class KeyProxy:
    """stands in for a SessionKeys object: same operations, outcomes recorded for the model's crypto oracle"""

    def __init__(self, keys, kid, log):
        self._k, self.kid, self._log = keys, kid, log

    def decrypt_str(self, m, d):
        try:
            r = self._k.decrypt_str(m, d)
        except Exception:
            self._log.append((self.kid, d, bytes(m), None))
            raise
        self._log.append((self.kid, d, bytes(m), bytes(r)))
        return r

    def encrypt_str(self, m, d):
        try:
            r = self._k.encrypt_str(m, d)
        except Exception:
            self._log.append((self.kid, d + 2, bytes(m), None))
            raise
        self._log.append((self.kid, d + 2, bytes(m), bytes(r)))
        return r

    def __getattr__(self, n):
        return getattr(self._k, n)


class Obs:
    """One endpoint with its listeners, instrumented from outside; `alpha` abstracts it into model terms."""

    def __init__(self, ep, tunnel_ep=None):
        from ipv8.community import Community
        from ipv8.messaging.anonymization.community import TunnelCommunity
        from ipv8.messaging.anonymization.crypto import PythonCryptoEndpoint
        from ipv8.messaging.interfaces.statistics_endpoint import StatisticsEndpoint
        self.ep, self.tunnel_ep = ep, tunnel_ep
        self.events, self.beh, self.crypto_log, self.kids, self.addrs = [], {}, [], {}, {}
        self.objs = []          # index = object id in the model
        for lst in [ep._listeners] + list(ep._prefix_map.values()):
            for l in lst:
                if all(l is not o for o in self.objs):
                    self.objs.append(l)
        self.listeners = list(self.objs)
        for l in self.listeners:
            if isinstance(l, PythonCryptoEndpoint) and l.tunnel_community is not None and \
                    all(l.tunnel_community is not o for o in self.objs):
                self.objs.append(l.tunnel_community)
        self.kind = {}
        for i, o in enumerate(self.objs):
            if isinstance(o, PythonCryptoEndpoint):
                self.kind[i] = "KCrypto"
            elif isinstance(o, StatisticsEndpoint):
                self.kind[i] = "KStatistics"
            elif isinstance(o, Community):
                self.kind[i] = "KCommunity"
            else:
                raise tr_recv.Unsupported("listener of class %s is not covered by the model" % type(o).__name__)
        # "delivered": spy on the on_packet of every object that is registered as a listener
        for i, l in enumerate(self.listeners):
            orig = l.on_packet

            def spy(packet, *a, _orig=orig, _i=i, **kw):
                self.events.append(("delivered", _i))
                return _orig(packet, *a, **kw)
            l.on_packet = spy
        # handlers: every decode_map / decode_map_private entry except the translated on_cell
        self.real = {}
        self.oncell = TunnelCommunity.on_cell
        for i, o in enumerate(self.objs):
            if not isinstance(o, Community):
                continue
            for mid in range(256):
                h = o.decode_map[mid]
                if h is not None and getattr(h, "__func__", None) is not self.oncell:
                    self.real[(i, 300 + mid)] = h
                    o.decode_map[mid] = self._wrap(i, 300 + mid)
            for mid, h in list(getattr(o, "decode_map_private", {}).items()):
                self.real[(i, 600 + mid)] = h
                o.decode_map_private[mid] = self._wrap(i, 600 + mid)
        self.use_real = False

    def _wrap(self, i, hid):
        def handler(src, data, circuit_id=None):
            self.events.append(("entered", i, hid, bytes(data), circuit_id))
            if self.use_real:
                h = self.real[(i, hid)]
                return h(src, data) if hid < 600 else h(src, data, circuit_id)
            b = self.beh.get((i, hid), 0)
            if b == 1:
                raise ValueError("stub handler fails")
            if b == 2:
                async def failing():
                    raise RuntimeError("stub handler task fails")
                return failing()
            if b == 3:
                async def fine():
                    return None
                return fine()
            return None
        return handler

    # ---- abstraction of the real objects into model terms -------------------------------------------
    def index(self, o):
        for i, x in enumerate(self.objs):
            if x is o:
                return i
        raise tr_recv.Unsupported("object %r is not part of the abstracted node" % (o,))

    def kid(self, keys):
        if keys is None:
            return "None"
        if not isinstance(keys, KeyProxy):
            raise tr_recv.Unsupported("session keys without proxy")
        return "(Some %d)" % keys.kid

    def addr(self, a):
        a = tuple(a)
        return self.addrs.setdefault(a, 100 + len(self.addrs))

    def hop(self, h):
        return "(mkHop %d %s)" % (self.addr(h.peer.address), self.kid(h.keys))

    def proxy(self, hop):
        if hop is not None and hop.keys is not None and not isinstance(hop.keys, KeyProxy):
            k = id(hop.keys)
            if k not in self.kids:
                self.kids[k] = KeyProxy(hop.keys, len(self.kids) + 1, self.crypto_log)
            hop.keys = self.kids[k]

    def install_proxies(self):
        from ipv8.messaging.anonymization.crypto import PythonCryptoEndpoint
        for o in self.objs:
            if isinstance(o, PythonCryptoEndpoint):
                for c in o.circuits.values():
                    for h in c._hops:
                        self.proxy(h)
                    self.proxy(c.unverified_hop)
                    if c._hs_session_keys is not None and not isinstance(c._hs_session_keys, KeyProxy):
                        k = id(c._hs_session_keys)
                        if k not in self.kids:
                            self.kids[k] = KeyProxy(c._hs_session_keys, len(self.kids) + 1, self.crypto_log)
                        c._hs_session_keys = self.kids[k]
                for r in o.relays.values():
                    self.proxy(r.hop)
                for x in o.exit_sockets.values():
                    self.proxy(x.hop)

    def cfg_term(self):
        from ipv8.messaging.anonymization.crypto import PythonCryptoEndpoint

        def fun(rows, default):
            return "(fun l => match l with %s| _ => %s end)" % ("".join("%d%%nat => %s " % (i, t) + "| " for i, t in rows)[:-2], default)
        kinds, anon, comms, cryptos = [], [], [], []
        for i, o in enumerate(self.objs):
            kinds.append((i, self.kind[i]))
            anon.append((i, "true" if getattr(o, "anonymize", False) else "false"))
            if self.kind[i] == "KCommunity":
                dm = []
                for mid in range(len(o.decode_map)):
                    h = o.decode_map[mid]
                    dm.append("None" if h is None else "(Some HOnCell)" if getattr(h, "__func__", None) is self.oncell
                              else "(Some (HOracle %d))" % (300 + mid))
                priv = "; ".join("(%d, HOracle %d)" % (mid, 600 + mid) for mid in getattr(o, "decode_map_private", {}))
                comms.append((i, "(mkComm %s [%s] [%s])" % (zl(o.get_prefix()), "; ".join(dm), priv)))
            if isinstance(o, PythonCryptoEndpoint):
                tc = "None" if o.tunnel_community is None else "(Some %d%%nat)" % self.index(o.tunnel_community)
                st = "None" if not o.settings else "(Some %d)" % o.settings.max_relay_early
                cryptos.append((i, "(mkCrypto %s %s %s)" % (zl(o.prefix), tc, st)))
        return "(mkCfg %d %s %s %s %s)" % (self.ep.prefixlen, fun(kinds, "KStatistics"), fun(anon, "false"),
                                          fun(comms, "(mkComm [] [] [])"), fun(cryptos, "(mkCrypto [] None None)"))

    def world_term(self):
        from ipv8.messaging.anonymization.crypto import PythonCryptoEndpoint
        from ipv8.messaging.interfaces.statistics_endpoint import StatisticsEndpoint

        def fun(rows, default):
            if not rows:
                return "(fun _ => %s)" % default
            return "(fun l => match l with %s| _ => %s end)" % ("".join("%d%%nat => %s " % (i, t) + "| " for i, t in rows)[:-2], default)
        circ, rel, ex, stats = [], [], [], []
        for i, o in enumerate(self.objs):
            if isinstance(o, PythonCryptoEndpoint):
                cs = []
                for cid, c in o.circuits.items():
                    hp = c.hop
                    cs.append("(%d, mkCircuit [%s] %s %s CIRCUIT_TYPE_%s)" % (
                        cid, "; ".join(self.hop(h) for h in c.hops), "None" if hp is None else "(Some %s)" % self.hop(hp),
                        self.kid(c.hs_session_keys), c.ctype))
                circ.append((i, "[" + "; ".join(cs) + "]"))
                rel.append((i, "[" + "; ".join("(%d, mkRelay %d %s %d %s %d)" % (
                    cid, r.circuit_id, self.hop(r.hop), r.direction, "true" if r.rendezvous_relay else "false",
                    r.relay_early_count) for cid, r in o.relays.items()) + "]"))
                ex.append((i, "[" + "; ".join("(%d, mkExit %s)" % (cid, self.hop(x.hop)) for cid, x in o.exit_sockets.items()) + "]"))
            if isinstance(o, StatisticsEndpoint):
                stats.append((i, "[" + "; ".join(zl(k) for k in o.statistics) + "]"))
        ids = lambda ls: "[" + "; ".join("%d%%nat" % self.index(l) for l in ls) + "]"   # noqa: E731
        pm = "[" + "; ".join("(%s, %s)" % (zl(k), ids(v)) for k, v in self.ep._prefix_map.items()) + "]"
        return "(mkWorld %s %s %s %s %s %s %s)" % ("true" if self.ep.is_open() else "false", ids(self.ep._listeners), pm,
                                                   fun(circ, "[]"), fun(rel, "[]"), fun(ex, "[]"), fun(stats, "[]"))

    def tables_wf(self):
        """the hypotheses of the theorems, read off the real objects: (what fails) or None"""
        from ipv8.community import Community
        from ipv8.messaging.anonymization.crypto import PythonCryptoEndpoint
        for i, o in enumerate(self.objs):
            if isinstance(o, Community):
                if len(o.decode_map) != 256:
                    return "decode_map of %s has %d entries" % (type(o).__name__, len(o.decode_map))
                pos = [m for m in range(256) if getattr(o.decode_map[m], "__func__", None) is self.oncell]
                if pos not in ([], [0]):
                    return "on_cell registered under %r" % pos
                if pos and any(o is l for l in self.listeners):
                    return "a tunnel community is itself registered as a listener"
            if isinstance(o, PythonCryptoEndpoint):
                if len(o.prefix) != 22 or (o.tunnel_community is not None and o.prefix != o.tunnel_community.get_prefix()):
                    return "crypto endpoint prefix"
                for r in o.relays.values():
                    if not 0 <= r.circuit_id < 2 ** 32:
                        return "relay route to circuit id %r" % r.circuit_id
                for c in o.circuits.values():
                    if c.hs_session_keys is not None and c.hop is None:
                        return "circuit with hidden-service keys and no hop"
        return None

    # ---- one delivery ---------------------------------------------------------------------------------
    async def feed(self, data, from_tunnel=None):
        del self.events[:]
        del self.crypto_log[:]
        net = self.ep.net
        n0 = len(net.log)
        net.queue.clear()
        loop = asyncio.get_event_loop()
        loop_errors = []
        old = loop.get_exception_handler()
        loop.set_exception_handler(lambda lp, c: loop_errors.append(c))
        esc = None
        try:
            from ipv8.messaging.interfaces.udp.endpoint import UDPv4Address
            if self.tunnel_ep is not None and from_tunnel is not None:
                self.tunnel_ep.notify_listeners((UDPv4Address(*SRC), data), from_tunnel)
            else:
                self.ep.inject(SRC, data)
        except Exception as e:   # noqa: this is the observation
            esc = type(e).__name__
        for _ in range(4):
            await asyncio.sleep(0)
        loop.set_exception_handler(old)
        sent = [(dst, d) for (_, dst, d) in net.log[n0:]]
        del net.log[n0:]
        net.queue.clear()
        return esc, list(self.events), sent, loop_errors, list(self.crypto_log)


def obs_term(ob, esc, evs, sent, with_sent):
    out = []
    for e in evs:
        if e[0] == "delivered":
            out.append("EvDelivered %d" % e[1])
        else:
            out.append("EvEntered %d %d %s %s" % (e[1], e[2], zl(e[3]), "None" if e[4] is None else "(Some %d)" % e[4]))
    return out


def crypto_term(log):
    return "[" + "; ".join("((%d, %d, %s), %s)" % (k, d, zl(m), "None" if r is None else "(Some %s)" % zl(r)) for k, d, m, r in log) + "]"


def beh_term(beh):
    return "[" + "; ".join("((%d%%nat, %d), %d)" % (i, h, b) for (i, h), b in sorted(beh.items()) if b) + "]"


# ------------------------------------------------------------------------------------------ the oracle
def oracle(ctx, ob, data, esc, evs, loop_errors, meta, from_tunnel=None):
    from ipv8.community import Community
    n0 = len(ctx.violations)
    if esc is not None:
        ctx.violation("recv-gen/escape/%s/%s" % (esc, meta["family"]),
                      "%s escapes notify_listeners for a %d-byte datagram (%s)" % (esc, len(data), meta["family"]), meta)
    for c in loop_errors:
        ctx.violation("recv-gen/task-escape", "a handler task's exception reached the event loop: %r" % (c.get("exception"),), meta)
    sel = ob.ep._prefix_map.get(data[:ob.ep.prefixlen], ob.ep._listeners)
    want = [ob.index(l) for l in sel if from_tunnel is None or getattr(l, "anonymize", False) == from_tunnel]
    got = [e[1] for e in evs if e[0] == "delivered"]
    if esc is None and got != want:
        ctx.violation("recv-gen/not-delivered", "listeners %s selected, delivered to %s" % (want, got), meta)
    for e in evs:
        if e[0] != "entered":
            continue
        ov = ob.objs[e[1]]
        d = e[3]
        assert isinstance(ov, Community)
        mid = e[2] - (300 if e[4] is None else 600)
        if d[:22] != ov.get_prefix() or len(d) < 23:
            ctx.violation("recv-gen/foreign-bytes-enter-handler/%s" % type(ov).__name__,
                          "handler %d of %s entered with bytes of prefix %s" % (mid, type(ov).__name__, d[:22].hex()), meta)
        elif d[22] != mid:
            ctx.violation("recv-gen/wrong-handler/%s" % type(ov).__name__,
                          "handler registered for %d entered for message id %d" % (mid, d[22]), meta)
        if e[4] is None and d != data and ob.kind[e[1]] == "KCommunity" and any(ov is l for l in ob.listeners):
            ctx.violation("recv-gen/handler-got-other-bytes", "a directly registered overlay's handler got bytes that are not the datagram", meta)
    return len(ctx.violations) - n0


# ------------------------------------------------------------------------------------------ nodes
def overlay_classes():
    from tools.checks import c03
    return c03.overlay_classes()


async def node_multiplexed():
    """five overlay classes and a statistics wrapper on one endpoint"""
    from ipv8.messaging.interfaces.statistics_endpoint import StatisticsEndpoint
    net = simnet.SimNet()
    ep = net.endpoint(("10.0.0.1", 1000))
    stats = StatisticsEndpoint(ep)
    overlays = [simnet.make_overlay(cls, ep, **kw) for cls, kw in overlay_classes()]
    for ov in overlays[:3]:
        stats.enable_community_statistics(ov.get_prefix(), True)
    return net, ep, overlays, stats


async def captured_datagrams():
    """valid datagrams of every overlay class, taken from a short protocol run between two plain nodes"""
    net = simnet.SimNet()
    a = [simnet.make_overlay(cls, net.endpoint(("10.0.1.1", 1000)) if i == 0 else net.endpoints[("10.0.1.1", 1000)], **kw)
         for i, (cls, kw) in enumerate(overlay_classes())]
    b = [simnet.make_overlay(cls, net.endpoint(("10.0.1.2", 1000)) if i == 0 else net.endpoints[("10.0.1.2", 1000)], **kw)
         for i, (cls, kw) in enumerate(overlay_classes())]
    for x, y in zip(a, b):
        try:
            x.walk_to(y.my_peer.address)
        except Exception:   # noqa
            pass
    await net.pump()
    out = [d for (_, _, d) in net.log]
    for ov in a + b:
        try:
            await ov.unload()
        except Exception:   # noqa
            pass
    return out, [ov.get_prefix() for ov in a]


def shaped_inputs(r, prefixes, captured, quick):
    """(family, datagram): all lengths 0..40 shaped around each prefix, every message id at the gate lengths, truncations
    and bit flips of valid datagrams, random strings up to 1500 bytes"""
    out = []
    for n in range(0, 41):
        out.append(("zeros", bytes(n)))
        out.append(("random-short", r.randbytes(n)))
        for p in prefixes:
            out.append(("prefix-shaped", (p + r.randbytes(20))[:n]))
            out.append(("prefix-cell-shaped", (p + b"\x00" + r.randbytes(20))[:n]))
            if n >= 1:
                q = bytearray((p + r.randbytes(20))[:n])
                q[r.randrange(min(n, 22))] ^= 1 << r.randrange(8)
                out.append(("near-prefix", bytes(q)))
    for p in prefixes:
        for mid in range(256):
            for n in ([23, 24, 30] if quick else [23, 24, 25, 29, 30, 31, 40]):
                out.append(("every-id", (p + bytes([mid]) + r.choice([bytes(20), r.randbytes(20)]))[:n]))
    for d in captured:
        cuts = range(len(d) + 1) if len(d) <= 80 or not quick else sorted(set([0, 21, 22, 23, len(d)] + [r.randrange(len(d)) for _ in range(24)]))
        for n in cuts:
            out.append(("truncated-valid", d[:n]))
        for _ in range(4 if quick else 40):
            q = bytearray(d)
            q[r.randrange(len(q))] ^= 1 << r.randrange(8)
            out.append(("bitflip-valid", bytes(q)))
    for _ in range(150 if quick else 3000):
        n = r.choice([0, 1, 21, 22, 23, 30, 100, 600, 1500])
        p = r.choice(prefixes + [r.randbytes(22)])
        out.append(("random-long", (p + r.randbytes(max(0, n - 22)))[:n] if r.random() < 0.8 else r.randbytes(n)))
    seen, res = set(), []
    for f, d in out:
        if d not in seen:
            seen.add(d)
            res.append((f, d))
    return res


# ------------------------------------------------------------------------------------------ stage
def stage(ctx, text="unset"):
    """correspondence + oracle; `text` = result of translate(ctx) (None: model unavailable, the oracle still runs)"""
    if text == "unset":
        text = translate(ctx)
    loop = asyncio.new_event_loop()
    asyncio.set_event_loop(loop)
    try:
        loop.run_until_complete(_stage(ctx, text))
    finally:
        loop.close()
    ctx.coverage["trusted_base"] = ctx.coverage.get("trusted_base", []) + [
        "translator tools/tr/tr_recv.py (Python ast -> gen/G03_recv.v, fail closed) with its fixed prelude (object model, state + "
        "exception monad, Python index/slice/dict semantics) and glue (decode_map dispatch, listener dispatch); validated by this "
        "run's correspondence on real overlays",
        "oracles of the receive-path theorems: handler bodies (arbitrary, may rewrite tables keeping them well-formed), "
        "SessionKeys.decrypt_str fails only with ValueError/RuntimeError and encrypt_str only with ValueError, "
        "Network.get_verified_by_address and Endpoint.send do not raise, bookkeeping (beat_heart, byte counters, statistics) "
        "does not raise, TaskManager swallows task exceptions listed in ignore=",
        "table invariants assumed: relay routes name 32-bit circuit ids; a circuit with hidden-service keys has a hop "
        "(checked on every abstracted real node)"]


async def _stage(ctx, text):
    r = ctx.rng("recv-gen")
    cases, metas = [], []
    stats = {"multiplexed": 0, "stateful": 0, "tunnel_endpoint": 0, "handler_entries": 0, "with_stub_failures": 0, "cells_forwarded": 0}
    fams = {}

    def add(ob, cfg_name, world, beh, log, tun, data, esc, evs, sent, meta, with_sent):
        terms = obs_term(ob, esc, evs, sent, with_sent)
        if with_sent:
            # forwarding happens after everything else in relay_cell; the model emits EvSent where the send happens
            for dst, d in sent:
                terms.append("EvSent %d %s" % (ob.addr(dst), zl(d)))
        if esc is None:
            res = "Ok tt"
        elif esc in EXN:
            res = "Raise %s" % EXN[esc]
        else:
            ctx.broke("harness: exception class %s has no model counterpart" % esc, json.dumps(meta)[:400])
            return
        c = "(mkCase %s %s %s %s %s 4 %s)" % (cfg_name, world, beh_term(beh), crypto_term(log),
                                              "None" if tun is None else "(Some %s)" % ("true" if tun else "false"), zl(data))
        cases.append((c, "([%s], %s)" % ("; ".join(terms), res)))
        metas.append(meta)

    pre = PRE
    captured, cap_prefixes = await captured_datagrams()
    ctx.extra.setdefault("recv_gen", {})["captured_datagrams"] = len(captured)

    # ------------------------------------------------------------------ N1: multiplexed plain node
    net, ep, overlays, st = await node_multiplexed()
    ob = Obs(ep)
    bad = ob.tables_wf()
    if bad:
        ctx.broke("a structural assumption of the theorems does not hold on a real node", bad)
    pre += "Definition cfg1 : config := %s.\nDefinition world1 : world := %s.\n" % (ob.cfg_term(), ob.world_term())
    prefixes = [ov.get_prefix() for ov in overlays]
    # captured datagrams carry the prefixes of another node's overlays of the same classes: same community ids, same prefixes
    inputs = shaped_inputs(r, prefixes, captured, ctx.quick)
    handler_ids = sorted(ob.real)
    for k, (fam, data) in enumerate(inputs):
        fams[fam] = fams.get(fam, 0) + 1
        ob.use_real = fam in ("truncated-valid", "bitflip-valid") and k % 2 == 0
        ob.beh = {}
        if not ob.use_real:
            for hk in handler_ids:
                if len(data) > 22 and hk[1] - 300 == data[22] and data[:22] == ob.objs[hk[0]].get_prefix():
                    ob.beh[hk] = r.choice([0, 1, 2, 3])
        esc, evs, sent, lerr, log = await ob.feed(data)
        meta = {"kind": "recv-gen", "node": "multiplexed", "family": fam, "data": data.hex(), "beh": sorted((list(k2), v) for k2, v in ob.beh.items()),
                "real_handlers": ob.use_real}
        ctx.count(("rg1", data, tuple(sorted(ob.beh.items())), ob.use_real), nontrivial=len(data) >= 22)
        oracle(ctx, ob, data, esc, evs, lerr, meta)
        stats["multiplexed"] += 1
        stats["handler_entries"] += sum(1 for e in evs if e[0] == "entered")
        stats["with_stub_failures"] += int(any(v in (1, 2) for v in ob.beh.values()) and any(e[0] == "entered" for e in evs))
        add(ob, "cfg1", "world1", ob.beh, log, None, data, esc, evs, sent, meta, with_sent=False)
    ctx.sample({"recv_gen_input": inputs[len(inputs) // 2][1].hex(), "family": inputs[len(inputs) // 2][0]})
    for ov in overlays:
        try:
            await ov.unload()
        except Exception:   # noqa
            pass

    # ------------------------------------------------------------------ N3: TunnelEndpoint in front of an anonymised and a plain overlay
    try:
        pre3, n3 = await _tunnel_endpoint_cases(ctx, r, add, fams)
        pre += pre3
        stats["tunnel_endpoint"] = n3
    except tr_recv.Unsupported as e:
        ctx.broke("abstraction of the TunnelEndpoint node failed", e)

    # ------------------------------------------------------------------ N2: nodes that hold circuits, relays, exit sockets
    try:
        pre2 = await _stateful_cases(ctx, r, add, fams, stats)
        pre += pre2
    except tr_recv.Unsupported as e:
        ctx.broke("abstraction of a stateful node failed", e)

    ctx.extra["recv_gen"].update(stats)
    ctx.extra["recv_gen"]["families"] = fams
    await _wrapper_cases(ctx, r, captured, text)
    if text is not None and cases:
        mism, errs = coqrun.eval_mismatches(IMPORTS, "run_obs", "obs_eqb", cases, os.path.join(ctx.scratch, "recvgen"),
                                            ctype="rcase * (list ev * res unit)", shard=120, jobs=14, preamble=pre, max_bytes=250000)
        for e in errs:
            ctx.broke("model evaluation failed (generated receive path)", e)
        for i in mism[:8]:
            ctx.broke("correspondence: the receive path translated from the source and the implementation differ",
                      json.dumps(metas[i])[:900] + " impl=" + cases[i][1][:500])
        ctx.coverage["traces_validated_against_impl"] += len(cases) - len(mism)
    ctx.coverage["rule"] = (ctx.coverage.get("rule", "") + " | recv-gen: (N1) all lengths 0..40 x {zeros, random, each overlay prefix, prefix + cell id, "
                            "one bit off a prefix}, every message id x gate lengths per overlay, every truncation and bit flips of "
                            "captured valid datagrams, random strings <= 1500 bytes, with stub handlers (return / raise / failing "
                            "coroutine / coroutine) or the real ones; (N2) originator, relay, exit of a real 2-hop circuit and rendezvous "
                            "relays (whole / one half removed): validly encrypted, plaintext-flagged, garbage cells of every short "
                            "length, unknown circuits, relay_early budgets; (N3) anonymised + plain overlay behind a TunnelEndpoint, "
                            "both from_tunnel values; distinct by (node, tables, behaviours, datagram)").strip(" |")


async def _tunnel_endpoint_cases(ctx, r, add, fams):
    from ipv8.messaging.anonymization.endpoint import TunnelEndpoint
    from ipv8.peerdiscovery.community import DiscoveryCommunity
    from ipv8.dht.discovery import DHTDiscoveryCommunity
    net = simnet.SimNet()
    ep = net.endpoint(("10.0.3.1", 1000))
    tep = TunnelEndpoint(ep)
    tep.addr = ep.addr
    tep.net = net
    plain = simnet.make_overlay(DiscoveryCommunity, tep)
    anon = simnet.make_overlay(DHTDiscoveryCommunity, tep, anonymize=True)
    ob = Obs(ep, tunnel_ep=tep)
    pre = "Definition cfg3 : config := %s.\nDefinition world3 : world := %s.\n" % (ob.cfg_term(), ob.world_term())
    n = 0
    for ov in (plain, anon):
        p = ov.get_prefix()
        mids = [m for m in range(256) if ov.decode_map[m] is not None][:6] + [0, 7]
        for ft in (False, True):
            for data in [p, p[:21], p + b"\x01"] + [p + bytes([m]) + r.randbytes(r.choice([0, 5, 30])) for m in mids]:
                ob.beh = {(ob.index(ov), 300 + data[22]): r.choice([0, 1, 2])} if len(data) > 22 else {}
                esc, evs, sent, lerr, log = await ob.feed(data, from_tunnel=ft)
                meta = {"kind": "recv-gen", "node": "tunnel-endpoint", "family": "tunnel-endpoint", "data": data.hex(), "from_tunnel": ft,
                        "beh": sorted((list(k2), v) for k2, v in ob.beh.items())}
                fams["tunnel-endpoint"] = fams.get("tunnel-endpoint", 0) + 1
                ctx.count(("rg3", data, ft, tuple(sorted(ob.beh.items()))), nontrivial=True)
                oracle(ctx, ob, data, esc, evs, lerr, meta, from_tunnel=ft)
                add(ob, "cfg3", "world3", ob.beh, log, ft, data, esc, evs, sent, meta, with_sent=False)
                n += 1
    for ov in (plain, anon):
        try:
            await ov.unload()
        except Exception:   # noqa
            pass
    return pre, n


async def _stateful_cases(ctx, r, add, fams, stats):
    from ipv8.messaging.anonymization.payload import CellPayload
    from ipv8.messaging.anonymization.tunnel import BACKWARD, FORWARD, Hop, RelayRoute
    from tools.vlib.tunnelnet import TunnelNet
    tn = TunnelNet(n_relays=2, n_exits=1)
    await tn.start()
    pre = ""
    try:
        c = await tn.build_circuit(2)
        if c is None:
            ctx.broke("could not build a circuit for the stateful part of the generated receive path", "")
            return pre
        o = tn.origin
        prefix = o.get_prefix()
        relay = tn.node_of(c.hops[0].peer.address)
        exitn = next(ov for n, ov in tn.nodes.items() if ov.exit_sockets)
        ecid = next(iter(exitn.exit_sockets))
        # a rendezvous point: what on_link_e2e installs, with keys as the real key exchange produces them
        rp = next(ov for n, ov in tn.nodes.items() if ov not in (o, relay, exitn))
        k1 = rp.crypto.generate_session_keys(b"a" * 32)
        k2 = rp.crypto.generate_session_keys(b"b" * 32)
        X, Y, Z3 = 111, 222, 333
        rp.relay_from_to[X] = RelayRoute(Y, Hop(exitn.my_peer, k1), FORWARD, True)
        rp.relay_from_to[Y] = RelayRoute(X, Hop(o.my_peer, k2), FORWARD, True)
        # a second pair, one half of which is reclaimed by the table operation do_remove uses
        rp.relay_from_to[Z3] = RelayRoute(Z3 + 1, Hop(exitn.my_peer, k1), FORWARD, True)
        rp.relay_from_to[Z3 + 1] = RelayRoute(Z3, Hop(o.my_peer, k2), FORWARD, True)
        rp.settings.remove_tunnel_delay = 0
        await rp.remove_relay(Z3, "no activity", remove_now=True)
        nodes = {"origin": o, "relay": relay, "exit": exitn, "rendezvous": rp}
        obs = {}
        for name, ov in nodes.items():
            ob = Obs(ov.endpoint)
            ob.install_proxies()
            bad = ob.tables_wf()
            if bad:
                ctx.broke("a table invariant assumed by the theorems does not hold on a real node (%s)" % name, bad)
            obs[name] = ob
            pre += "Definition cfg_%s : config := %s.\n" % (name, ob.cfg_term())
        messages = [b"", b"\x00", b"\x01", b"\x04", b"\x02\x00", bytes([1]) + bytes(10)] + \
                   [bytes([m]) + r.randbytes(r.choice([0, 3, 8, 40])) for m in range(0, 22)]

        async def deliver(name, cid, body, plaintext, early, fam):
            ob = obs[name]
            data = CellPayload(cid, body, plaintext, early).to_bin(prefix)
            world = ob.world_term()          # tables before the delivery (counters move)
            tci = ob.index(nodes[name])
            ob.beh = {}
            for hk in ob.real:
                if hk[0] == tci and r.random() < 0.3:
                    ob.beh[hk] = r.choice([1, 2, 3])
            esc, evs, sent, lerr, log = await ob.feed(data)
            meta = {"kind": "recv-gen", "node": name, "family": fam, "data": data.hex(),
                    "beh": sorted((list(k2), v) for k2, v in ob.beh.items())}
            fams[fam] = fams.get(fam, 0) + 1
            ctx.count(("rg2", name, world, data, tuple(sorted(ob.beh.items()))), nontrivial=True)
            oracle(ctx, ob, data, esc, evs, lerr, meta)
            stats["stateful"] += 1
            stats["cells_forwarded"] += len(sent)
            stats["handler_entries"] += sum(1 for e in evs if e[0] == "entered")
            add(ob, "cfg_%s" % name, world, ob.beh, log, None, data, esc, evs, sent, meta, with_sent=True)
        per = messages if not ctx.quick else messages[:6] + messages[6::3]

        def raw(keys):
            return keys._k if isinstance(keys, KeyProxy) else keys
        for msg in per:
            for early in (False, True):
                # at the relay: the originator's onion (forward), the exit's layer (backward)
                body = msg
                for h in reversed(c.hops):
                    body = raw(h.keys).encrypt_str(body, FORWARD)
                await deliver("relay", c.circuit_id, body, False, early, "forward-encrypted")
                xs = exitn.exit_sockets[ecid]
                if ecid in relay.relay_from_to:
                    await deliver("relay", ecid, raw(xs.hop.keys).encrypt_str(msg, BACKWARD), False, early, "backward-encrypted")
                # at the exit: plaintext flag on a known circuit; only the exit's layer left
                await deliver("exit", ecid, msg, True, early, "plaintext-known-circuit")
                await deliver("exit", ecid, raw(c.hops[-1].keys).encrypt_str(msg, FORWARD), False, early, "encrypted-for-exit")
                # at the originator: every layer, backward
                body = msg
                for h in reversed(c.hops):
                    body = raw(h.keys).encrypt_str(body, BACKWARD)
                await deliver("origin", c.circuit_id, body, False, early, "encrypted-for-originator")
                await deliver("origin", c.circuit_id, msg, True, early, "plaintext-known-circuit")
                # rendezvous relays: whole pair, and the pair with one half removed
                await deliver("rendezvous", Y, k2.encrypt_str(msg, FORWARD), False, early, "rendezvous-paired")
                await deliver("rendezvous", X, k1.encrypt_str(msg, FORWARD), False, early, "rendezvous-paired")
                await deliver("rendezvous", Z3 + 1, k2.encrypt_str(msg, FORWARD), False, early, "rendezvous-half-removed")
                await deliver("rendezvous", Z3, k1.encrypt_str(msg, FORWARD), False, early, "rendezvous-half-removed")
                await deliver("rendezvous", Y, msg, True, early, "rendezvous-plaintext")
        for name, cid in (("origin", c.circuit_id), ("exit", ecid), ("relay", c.circuit_id), ("rendezvous", Y), ("rendezvous", Z3 + 1),
                          ("relay", 424242), ("origin", 0)):
            for n in (list(range(0, 60)) if not ctx.quick else list(range(0, 34)) + [47, 48, 59]) + [100, 500]:
                await deliver(name, cid, r.randbytes(n), False, r.random() < 0.5,
                              "garbage-known-circuit" if cid not in (424242, 0) else "garbage-unknown-circuit")
        # short / truncated cell headers at a node with tables
        for n in range(0, 32):
            ob = obs["relay"]
            data = (prefix + b"\x00" + c.circuit_id.to_bytes(4, "big") + b"\x00\x01" + b"zz")[:n]
            world = ob.world_term()
            ob.beh = {}
            esc, evs, sent, lerr, log = await ob.feed(data)
            meta = {"kind": "recv-gen", "node": "relay", "family": "cell-header-truncated", "data": data.hex(), "beh": []}
            fams["cell-header-truncated"] = fams.get("cell-header-truncated", 0) + 1
            ctx.count(("rg2", "relay", world, data), nontrivial=True)
            oracle(ctx, ob, data, esc, evs, lerr, meta)
            stats["stateful"] += 1
            add(ob, "cfg_relay", world, ob.beh, log, None, data, esc, evs, sent, meta, with_sent=True)
    finally:
        await tn.stop()
    return pre


PRE_W = ("Definition wres_eqb (a b : res unit) : bool := match a, b with\n"
         "  | Ok _, Ok _ => true\n"
         "  | Raise e, Raise f => Bool.eqb (exn_eqb e DecodingError) (exn_eqb f DecodingError)\n"
         "  | _, _ => false end.\n"
         "Definition wobs_eqb (a b : list ev * res unit) : bool := evs_eqb (fst a) (fst b) && wres_eqb (snd a) (snd b).\n")


async def _wrapper_cases(ctx, r, captured, text):
    """the decorators around real handlers: rebuilt around a stub with the payload classes of the real handler, called on a
    real overlay with real Serializer / signature check (outcomes recorded), compared with the translated wrappers"""
    import ipv8.lazy_community as lc
    from ipv8.messaging.anonymization.community import TunnelCommunity, unpack_cell
    from ipv8.messaging.anonymization.payload import PingPayload
    from ipv8.peerdiscovery.community import DiscoveryCommunity
    net = simnet.SimNet()
    ov = simnet.make_overlay(DiscoveryCommunity, net.endpoint(("10.0.4.1", 1000)))
    tov = simnet.make_overlay(TunnelCommunity, net.endpoint(("10.0.4.2", 1000)))
    dummy = lambda *a, **k: None   # noqa: E731
    refs = {lc.lazy_wrapper()(dummy).__code__: 0, lc.lazy_wrapper_wd()(dummy).__code__: 1, lc.lazy_wrapper_unsigned()(dummy).__code__: 2}
    makers = {0: lc.lazy_wrapper, 1: lc.lazy_wrapper_wd, 2: lc.lazy_wrapper_unsigned}
    state = {}

    def stub(*a, **k):
        state["entered"] = True
        if state["raise"]:
            raise ValueError("decorated function fails")

    def instrument(o):
        ser = o.serializer
        o1, o2, o3 = ser.unpack_serializable, ser.unpack_serializable_list, o._verify_signature

        def us(cls, data, offset=0, _o=o1):
            # (unpack_serializable_list calls this per class: only the wrapper's own calls are steps)
            key = "header" if cls.__name__ == "BinMemberAuthenticationPayload" else "list" if state.get("cell") else None
            try:
                res = _o(cls, data, offset=offset)
            except Exception:
                if key:
                    state.setdefault(key, "raised")
                raise
            if key:
                state.setdefault(key, "ok")
            return res

        def ul(classes, data, offset=0, _o=o2, **kw):
            try:
                res = _o(classes, data, offset=offset, **kw)
            except Exception:
                state["list"] = "raised"
                raise
            state["list"] = "ok"
            return res

        def vs(auth, data, _o=o3):
            try:
                res = _o(auth, data)
            except Exception:
                state.setdefault("verify", "raised")
                raise
            state.setdefault("verify", (bool(res[0]), bytes(res[1])))
            return res
        ser.unpack_serializable, ser.unpack_serializable_list, o._verify_signature = us, ul, vs
    instrument(ov)
    instrument(tov)
    targets = []     # (which, wrapper, overlay, datagram)
    prefix = ov.get_prefix()
    for d in captured:
        if d[:22] != prefix or len(d) < 23 or ov.decode_map[d[22]] is None:
            continue
        f = getattr(ov.decode_map[d[22]], "__func__", None)
        if f is None or f.__code__ not in refs:
            continue
        which = refs[f.__code__]
        payloads = dict(zip(f.__code__.co_freevars, [c.cell_contents for c in f.__closure__]))["payloads"]
        targets.append((which, makers[which](*payloads)(stub), ov, d))
        if which == 0 and len([t for t in targets if t[0] == 1]) < 3:
            targets.append((1, lc.lazy_wrapper_wd(*payloads)(stub), ov, d))
    from ipv8.messaging.payload_headers import GlobalTimeDistributionPayload
    for gt in (1, 2 ** 40):
        targets.append((2, lc.lazy_wrapper_unsigned(GlobalTimeDistributionPayload)(stub), ov,
                        prefix + b"\x05" + ov.serializer.pack_serializable(GlobalTimeDistributionPayload(gt))))
    ping = tov.get_prefix() + b"\x01" + tov.serializer.pack_serializable(PingPayload(7, 9))[4:]
    targets.append((3, unpack_cell(PingPayload)(stub), tov, tov.get_prefix() + b"\x12" + tov.serializer.pack_serializable(PingPayload(7, 9))))
    cases, metas, kinds = [], [], {}
    for which, w, o, d in targets:
        variants = [d] + [d[:n] for n in sorted(set([0, 22, 23, 24] + [r.randrange(len(d)) for _ in range(10 if ctx.quick else 60)]))]
        for _ in range(10 if ctx.quick else 80):
            q = bytearray(d)
            q[r.randrange(23, len(q))] ^= 1 << r.randrange(8)
            variants.append(bytes(q))
        for data in variants:
            state.clear()
            state["raise"] = r.random() < 0.3
            state["entered"] = False
            state["cell"] = which == 3
            try:
                if which == 3:
                    w(o, SRC, data, 7)
                else:
                    w(o, SRC, data)
                res = "Ok tt"
            except Exception as e:   # noqa: the observation
                res = "Raise DecodingError" if type(e).__name__ == "PacketDecodingError" else "Raise ValueError"
            kinds[which] = kinds.get(which, 0) + 1
            ctx.count(("wrap", which, data, state["raise"]), nontrivial=len(data) > 23)
            meta = {"kind": "recv-gen-wrapper", "which": which, "data": data.hex(), "steps": {k: (v if isinstance(v, str) else [v[0], v[1].hex()])
                                                                                       for k, v in state.items() if k in ("header", "verify", "list")}}
            ver = state.get("verify")
            if state["entered"] and which in (0, 1) and not (isinstance(ver, tuple) and ver[0]):
                ctx.violation("recv-gen/wrapper-entered-unverified", "a signed handler's function was entered without a valid signature", meta)
            if state["entered"] and (state.get("list") != "ok"):
                ctx.violation("recv-gen/wrapper-entered-undecoded", "a decorated function was entered although the payload did not decode", meta)

            def opt(k, ok):
                v = state.get(k)
                return "None" if v is None else "(Some None)" if v == "raised" else "(Some (Some %s))" % ok(v)
            c = "(mkWCase %d %s %s %s %s %s)" % (
                which, opt("header", lambda v: "5"), opt("verify", lambda v: "(%s, %s)" % ("true" if v[0] else "false", zl(v[1]))),
                opt("list", lambda v: "9"), "true" if state["raise"] else "false", zl(data))
            cases.append((c, "([%s], %s)" % ("EvUser 0 9" if state["entered"] else "", res)))
            metas.append(meta)
    ctx.extra["recv_gen"]["wrapper_calls"] = kinds
    if text is not None and cases:
        mism, errs = coqrun.eval_mismatches(IMPORTS, "run_wcase", "wobs_eqb", cases, os.path.join(ctx.scratch, "recvgenw"),
                                            ctype="wcase * (list ev * res unit)", shard=150, jobs=8, preamble=PRE_W)
        for e in errs:
            ctx.broke("model evaluation failed (handler decorators)", e)
        for i in mism[:6]:
            ctx.broke("correspondence: a translated handler decorator and the implementation differ",
                      json.dumps(metas[i])[:700] + " impl=" + cases[i][1])
        ctx.coverage["traces_validated_against_impl"] += len(cases) - len(mism)
    for o in (ov, tov):
        try:
            await o.unload()
        except Exception:   # noqa
            pass


def replay_case(c):
    """re-deliver one recorded datagram to a freshly built node of the recorded kind; 1 if something still escapes"""
    loop = asyncio.new_event_loop()
    asyncio.set_event_loop(loop)

    async def go():
        data = bytes.fromhex(c["data"])
        if c.get("node") == "multiplexed":
            net, ep, overlays, st = await node_multiplexed()
            ob = Obs(ep)
            ob.beh = {tuple(k): v for k, v in c.get("beh", [])}
            ob.use_real = bool(c.get("real_handlers"))
            esc, evs, sent, lerr, log = await ob.feed(data)
            for ov in overlays:
                await ov.unload()
            return esc, evs, lerr
        print("  (stateful / tunnel-endpoint witnesses are re-created by a full run: ./check C03x)")
        return None, [], []
    try:
        esc, evs, lerr = loop.run_until_complete(go())
    finally:
        loop.close()
    print("  escaped:", esc, " events:", [(e[0], e[1]) + ((e[2],) if e[0] == "entered" else ()) for e in evs], " task failures:", len(lerr))
    return int(esc is not None or bool(lerr))
