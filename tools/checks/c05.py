"""C05 - circuits are isolated from each other and from third parties.

Stage 0: corpus/C05/*.json replayed through the oracle
Stage P: props/C05.v
Stage C: lockstep correspondence on real TunnelCommunity nodes (1 originator, relays, exits; up to 6 concurrent
         circuits sharing relays): every event - a delivered cell / destroy datagram, a timer advance - is run on
         the real node and on model M05_isolation (control handlers on_create / on_created / on_extend /
         on_destroy / remove_* / timer; data plane = M04_onion), evaluated inside Coq, comparing the emitted
         cells / destroys and the successor state (three routing tables, CreatedRequestCache, CreateRequestCache,
         scheduled removals).
Stage G/P'/C': (tools/checks/c04_onion_gen.py) the table operations translated from the source on every run (tools/tr/tr_onion.py
         -> gen/G04_onion.v; fail closed), props/C05x.v (g_cstep = cstep: the generated on_create / on_created / on_destroy /
         remove_* compute what M05_isolation computes), and the same histories evaluated on the generated functions
         (quick: every fourth block).
Oracle : (independent of the model) payloads tagged with their circuit leave only through that circuit's exit
         socket and come back only to that circuit of the originator, under every random interleaving and
         reordering of deliveries; forged cells (unknown id, known id with foreign body) change no table entry; well-formed cells of
         every type under an id KNOWN at the receiver (own circuit / relay / exit) x plaintext flag x relay_early x sender
         (previous hop, same IP other port, unrelated), not made with the circuit's keys, are neither delivered nor answered
         and change neither tables nor request caches;
         a create under an id that is live in any table (relay id, exit id - also after the 60 s cache expired -,
         own circuit id) replaces nothing and the old circuit keeps working - at receivers of every role mix (a node holding
         only an exit socket / relay routes and an exit socket / a circuit of its own and an exit socket / all three / only
         circuits), for an id of each table, from an unrelated node and from the maker of the entry; a destroy removes an entry iff it is
         correctly signed by the neighbour stored for that id (matrix id x signer {adjacent, member, outsider, a stranger with a
         key of its own} x signature {valid, broken, key substituted} x table role x source address {the signer's own; for the
         stranger's validly signed destroys also the adjacent hop's exact address (spoofed) and its IP on another port}); a
         plaintext created carrying the identifier of an extend pending at a relay but naming another id known there (an exit
         socket of another originator's circuit, the relay's own circuit) or an unknown id, from the extend target or an
         outsider, leaves that id's entry alone, installs no relay route under it, and its circuit keeps carrying data both
         ways with nothing of it reaching the extending circuit's originator; a
         forged plaintext created at the originator of a half-built circuit with another identifier, or with a well-sized key
         that does not verify, of the wrong size or all zero, from the first hop's address or an unrelated host, changes nothing
         (entry, state, verified / unverified hops, retry cache) and the genuine answer afterwards still completes the hop; when a
         third party's create under the same id is dispatched back-to-back with a genuine create (no event-loop
         turn in between, both orders, first hop and extend hop) the entry made for the first one is not replaced,
         only the first sender gets a created, and the genuine circuit still carries data both ways; after a
         re-extend to another exit, the slow first exit's stale created (cache still pending), a created with an
         unknown identifier and duplicates of the genuine created leave the relay entries of the established circuit
         untouched (object identity, keys, next hop) and its data still leaves through its own exit; with several
         circuits of different originators at ONE exit node and the opening of each exit socket's transports delayed
         and interleaved with the first packets, every datagram leaving a (fake) transport belongs to the circuit
         owning that transport and every outside reply reaches only that circuit's originator, under its id.
"""
from __future__ import annotations

import asyncio
import glob
import json
import os

from tools.checks import c04
from tools.vlib import onionlock, repoenv
from tools.vlib.tunnelnet import FakeTransport as tunnelnet_FakeTransport
from tools.checks import c04_onion_gen
from tools.vlib.coqrun import zl
from tools.vlib.onionlock import NULL, addr_coq, zlist
from tools.vlib.vtime import VLoop, patched_time

IMPORTS = ("From Coq Require Import ZArith List Bool.\n"
           "From IPV8V Require Import lib.PyErr lib.Bytes model.M02_wire model.M03_recv model.M04_onion model.M04_harness "
           "model.M05_isolation model.M05_harness.\n"
           "Import ListNotations.\nOpen Scope Z_scope.\n")
GEN_IMPORTS = IMPORTS.replace("model.M05_harness.", "model.M05_harness model.M04_gen_rt gen.G04_onion model.M04_onion_gen "
                              "model.M05_onion_gen.")


def key_ok(b):
    from ipv8.keyvault.crypto import default_eccrypto
    try:
        default_eccrypto.key_from_public_bin(bytes(b))
        return True
    except Exception:   # noqa
        return False


def parse_destroy(data):
    """prefix(22) 08 varlenH(key) I(cid) H(reason) sig(64): returns (sig_ok, key bytes, cid, reason) or None"""
    from ipv8.keyvault.crypto import default_eccrypto as ec
    if len(data) < 25:
        return None
    klen = int.from_bytes(data[23:25], "big")
    kb = data[25:25 + klen]
    rest = data[25 + klen:]
    if len(kb) != klen or len(rest) < 6:
        return None
    cid, reason = int.from_bytes(rest[0:4], "big"), int.from_bytes(rest[4:6], "big")
    ok = False
    try:
        key = ec.key_from_public_bin(kb)
        n = ec.get_signature_length(key)
        ok = len(rest) == 6 + n and bool(ec.is_valid_signature(key, data[:-n], data[-n:]))
    except Exception:   # noqa
        ok = False
    return ok, kb, cid, reason


class CNet(onionlock.LockNet):
    """LockNet observing the control plane as well"""

    def __init__(self, *a, **kw):
        kw.setdefault("settings", {"max_time_inactive": 10 ** 7})
        super().__init__(*a, **kw)
        self.pend = {}      # node name -> list of (kind, cid) scheduled removals

    def _make(self, name, addr, flags):
        ov = super()._make(name, addr, flags)
        self.pend[name] = []
        pend, tr = self.pend[name], self.trace
        for kind, attr, table in (("PRelay", "remove_relay", None), ("PExit", "remove_exit_socket", None),
                                  ("PCircuit", "remove_circuit", "circuits")):
            orig = getattr(ov, attr)

            def w(circuit_id, *a, _o=orig, _k=kind, _t=table, **kw):
                if _t is None or circuit_id in getattr(ov, _t):
                    pend.append((_k, circuit_id))
                return _o(circuit_id, *a, **kw)
            setattr(ov, attr, w)
        ov.cancel_pending_task("do_ping")
        return ov

    async def start(self):
        await super().start()
        # exit sockets are the real TunnelExitSocket objects; only the OS transport is faked - and its opening can be
        # held back per socket by a scenario (hold_transports), as a slow bind / loaded event loop would
        self.hold_transports = False
        self.pending_opens = []        # (exit socket, future) of transports waiting to be opened
        tnet = self

        async def gated_open(proto):
            owner = getattr(proto.received_cb, "__self__", None)
            if tnet.hold_transports:
                fut = asyncio.get_event_loop().create_future()
                tnet.pending_opens.append((owner, fut))
                await fut
            return tunnelnet_FakeTransport(tnet, owner)
        self._es.TunnelProtocol.open = gated_open

    async def release_transports(self, owner=None):
        """let the transports of one exit socket (or of all) open now; returns how many were opened"""
        n = 0
        for _ in range(4):             # ipv4, then ipv6, each behind its own open()
            todo = [(o, f) for (o, f) in self.pending_opens if (owner is None or o is owner) and not f.done()]
            if not todo:
                break
            for o, f in todo:
                f.set_result(None)
                n += 1
            self.pending_opens = [(o, f) for (o, f) in self.pending_opens if not f.done()]
            await self.settle_tasks()
        return n

    def peer_coq(self, p):
        return "(mkPeer %d %s)" % (self.reg.pk(p.public_key.key_to_bin()), addr_coq(p.address))

    def alpha_c(self, ov):
        tab = self.alpha(ov)
        created, create = [], []
        for ident, cache in ov.request_cache._identifiers.items():
            if ident.startswith("created:"):
                cands = "; ".join("(%d, %s)" % (self.reg.pk(k), self.peer_coq(p)) for k, p in cache.candidates.items())
                created.append("(%d, mkCreated %s [%s])" % (cache.number, self.peer_coq(cache.candidate), cands))
            elif ident.startswith("create:"):
                create.append("(%d, mkCreate %d %d %d %s %s)" % (cache.number, cache.extend_identifier, cache.to_circuit_id,
                                                               cache.from_circuit_id, self.peer_coq(cache.peer), self.peer_coq(cache.to_peer)))
        pend = "; ".join("%s %d" % p for p in self.pend[ov._verif_name])
        return self.intern("(mkCN %s [%s] [%s] [%s] %d)" % (tab, "; ".join(created), "; ".join(create), pend,
                                                            ov.settings.max_joined_circuits), "cs")

    # ---- rendering of what a node emitted
    def cacts(self, ov, recs, data_plane, emark, umark, mark=None):
        me = tuple(ov.my_peer.address)
        if data_plane:
            saved = self.trace[mark + len(recs):]
            del self.trace[mark + len(recs):]
            acts, _, nonces, rnd = self._collect(ov, mark, emark, umark)
            self.trace.extend(saved)
            return ["CData (%s)" % a for a in acts], nonces, rnd
        out = []
        for r in recs:
            if r[0] != "send" or r[1] != me:
                continue
            d = r[3]
            if self.is_cell(d):
                plain = d[27] != 0
                inner = d[29:] if plain else self.reg.layers(d[29:])[1]
                out.append("CCell %s %d %d %s" % (addr_coq(r[2]), int.from_bytes(d[23:27], "big"), inner[0] if inner else 0,
                                                  "true" if plain else "false"))
            elif d[:22] == self.prefix() and len(d) > 22 and d[22] == 8:
                pd = parse_destroy(d)
                out.append("CDestroy %s %d %d" % (addr_coq(r[2]), pd[2], pd[3]))
            else:
                out.append("CData (Send %s %s)" % (addr_coq(r[2]), zl(d)))
        return out, [], b""

    async def settle_tasks(self):
        for _ in range(6):
            await asyncio.sleep(0)

    async def event(self, src, dst, data):
        """deliver one datagram to a real node, let the tasks it started run up to their first sleep, and derive
        the model operation it amounts to; returns the lockstep case (or None when not modelled)"""
        from ipv8.messaging.anonymization.caches import CreateRequestCache
        ov = self.by_addr.get(tuple(dst))
        if ov is None:
            return None
        name = ov._verif_name
        pre = self.alpha_c(ov)
        pre_create = {k for k in ov.request_cache._identifiers if k.startswith("create:")}
        pre_created = {k for k in ov.request_cache._identifiers if k.startswith("created:")}
        pre_exits = set(ov.exit_sockets)
        mark, emark, umark = len(self.trace), len(self.reg.enc_log), len(self.urandom_log)
        pkt_term = self.pkt_term(data)
        esc = None
        try:
            self.net.endpoints[tuple(dst)].inject(src, data)
        except Exception as e:   # noqa
            esc = type(e).__name__
        mark2 = len(self.trace)
        await self.settle_tasks()
        recs = self.trace[mark:]
        handlers = [r for r in recs if r[0] == "handler"]
        ctl = [h for h in handlers if h[1] in (2, 3, 4, 5)]
        pd = parse_destroy(data) if (data[:22] == self.prefix() and len(data) > 22 and data[22] == 8) else None
        modelled, data_plane = True, False
        if ctl:
            h = ctl[0]
            mid, hsrc, d, cid = h[1], h[2], h[3], h[4]
            ident = int.from_bytes(d[27:29], "big")
            if mid == 2:
                kl = int.from_bytes(d[29:31], "big")
                kb = d[31:31 + kl]
                npk = "(Some %d)" % self.reg.pk(kb) if key_ok(kb) else "None"
                new = set(ov.exit_sockets) - pre_exits
                k = "(Some %d)" % (ov.exit_sockets[cid].hop.keys.kid if cid in new else 0)
                cands = ""
                nc = {x for x in ov.request_cache._identifiers if x.startswith("created:")} - pre_created
                if nc:
                    cache = ov.request_cache._identifiers[next(iter(nc))]
                    cands = "; ".join("(%d, %s)" % (self.reg.pk(kk), self.peer_coq(p)) for kk, p in cache.candidates.items())
                op = "OCreate %s %d %d %s %s [%s]" % (addr_coq(hsrc), cid, ident, npk, k, cands)
            elif mid == 3:
                if any(x.startswith("retry:") for x in ov.request_cache._identifiers) or ov.circuits:
                    modelled = False          # the originator's own created: its circuits are not lock-stepped
                op = "OCreated %s %d %d" % (addr_coq(hsrc), cid, ident)
            elif mid == 4:
                kl = int.from_bytes(d[29:31], "big")
                kb = d[31:31 + kl]
                off = 31 + kl
                dl = int.from_bytes(d[off:off + 2], "big")
                off += 2 + dl
                import socket as _s
                naddr = (_s.inet_ntoa(d[off:off + 4]), int.from_bytes(d[off + 4:off + 6], "big"))
                known = ov.network.get_verified_by_public_key_bin(kb)
                nc = {x for x in ov.request_cache._identifiers if x.startswith("create:")} - pre_create
                number, tocid = 0, 0
                if nc:
                    cache = ov.request_cache._identifiers[next(iter(nc))]
                    number, tocid = cache.number, cache.to_circuit_id
                op = "OExtend %s %d %d %d %s %s %d %d" % (addr_coq(hsrc), cid, ident, self.reg.pk(kb), addr_coq(naddr),
                                                        "None" if known is None else "(Some %s)" % self.peer_coq(known), number, tocid)
            else:
                modelled = False
                op = "OCreated %s %d %d" % (addr_coq(hsrc), cid, ident)
        elif pd is not None:
            op = "ODestroy %s %d %s %d %d" % ("true" if pd[0] else "false", self.reg.pk(pd[1]), addr_coq(src), pd[2], pd[3])
        else:
            data_plane = True
            op = None
            recs = self.trace[mark:mark2]      # what the exit socket's own tasks do afterwards is C06's
        acts, nonces, rnd = self.cacts(ov, recs, data_plane, emark, umark, mark)
        if data_plane:
            op = "OCell %s %s %s (stream %s)" % (addr_coq(src), pkt_term, zl(rnd), zlist(nonces))
        post = self.alpha_c(ov)
        r = {"node": name, "escaped": esc, "records": recs, "datagram": (src, dst, data), "op": op[:200]}
        if modelled:
            r["case"] = "(%s, [%s])" % (pre, op)
            r["expected"] = "Ok (%s, [%s])" % (post, "; ".join(acts)) if esc is None else "Raise %s" % onionlock.EXN.get(esc, "RuntimeError")
        return r

    async def local(self, ov, op, fn):
        """a local decision of the node (remove_X, send_data, ...) as one observed event"""
        pre = self.alpha_c(ov)
        mark, emark, umark = len(self.trace), len(self.reg.enc_log), len(self.urandom_log)
        fn()
        await self.settle_tasks()
        recs = self.trace[mark:]
        acts, _, _ = self.cacts(ov, recs, False, emark, umark)
        post = self.alpha_c(ov)
        return {"node": ov._verif_name, "escaped": None, "records": recs, "op": op,
                "case": "(%s, [%s])" % (pre, op), "expected": "Ok (%s, [%s])" % (post, "; ".join(acts))}

    async def tick(self, loop, dt, sink):
        """virtual time passes on every node: scheduled removals pop, CreatedRequestCaches may expire"""
        pres = {n: (self.alpha_c(ov), {k: c.number for k, c in ov.request_cache._identifiers.items() if k.startswith("created:")},
                    {k for k in ov.request_cache._identifiers if k.startswith("create:")})
                for n, ov in self.nodes.items()}
        mark = len(self.trace)
        await loop.advance(dt)
        await self.settle_tasks()
        sent = [r for r in self.trace[mark:] if r[0] == "send"]
        for n, ov in self.nodes.items():
            pre, created, creating = pres[n]
            if dt >= ov.settings.remove_tunnel_delay:
                del self.pend[n][:]
            gone = [num for k, num in created.items() if k not in ov.request_cache._identifiers]
            ops = (["OTimer"] if dt >= ov.settings.remove_tunnel_delay else []) + ["OCreatedExpired %d" % g for g in gone]
            if any(s[1] == tuple(ov.my_peer.address) for s in sent) or \
                    creating != {k for k in ov.request_cache._identifiers if k.startswith("create:")}:
                continue    # the node did something of its own during the interval / an unanswered extend timed out
                            # (not events of this model)
            post = self.alpha_c(ov)
            sink.append({"node": n, "escaped": None, "records": [], "op": "; ".join(ops),
                         "case": "(%s, [%s])" % (pre, "; ".join(ops)), "expected": "Ok (%s, [])" % post})

    async def drain_c(self, sink, limit=400, pick=None):
        n = 0
        while self.net.queue and n < limit:
            if pick is not None and len(self.net.queue) > 1:
                i = pick(len(self.net.queue))
                self.net.queue.rotate(-i)
                item = self.net.queue.popleft()
                self.net.queue.rotate(i)
            else:
                item = self.net.queue.popleft()
            r = await self.event(*item)
            if r is not None:
                sink.append(r)
            n += 1
        return n


class Book:
    def __init__(self, ctx):
        self.ctx = ctx
        self.cases = []

    def add(self, r, meta):
        if r is None:
            return
        if r.get("escaped"):
            self.ctx.violation("exception-escapes/%s" % r["escaped"], "%s escapes from node %s during %s" % (r["escaped"], r["node"], meta.get("what", meta.get("kind"))), meta)
        if "case" in r:
            self.cases.append((r["case"], r["expected"], dict(meta, node=r["node"], op=r.get("op"))))

    def add_all(self, rs, meta):
        for r in rs:
            self.add(r, meta)


def entry_ids(tn):
    """identity of every table entry of every node (object identities: an entry that is replaced shows)"""
    out = {}
    for n, ov in tn.nodes.items():
        out[n] = ({c: id(x) for c, x in ov.circuits.items()}, {c: (id(x), x.circuit_id, id(x.hop.keys), tuple(x.hop.address), x.direction)
                                                               for c, x in ov.relay_from_to.items()},
                  {c: (id(x), id(x.hop.keys), tuple(x.hop.address)) for c, x in ov.exit_sockets.items()})
    return out


async def build(tn, hops_list):
    cs = []
    for h in hops_list:
        c = await tn.build_circuit(h)
        if c is not None:
            cs.append(c)
    return cs


def tagged(r, c, i, n=24):
    return b"d" + b"C%010d#%04d:" % (c.circuit_id, i) + r.randbytes(n) + b"e"


async def transfer_check(ctx, tn, book, r, circuits, meta, rounds=1, pick=None):
    """data both ways on every circuit at once; deliveries in random order; per-circuit delivery logs"""
    sent_f, sent_b = {}, {}
    evs = []
    for i in range(rounds):
        for c in circuits:
            path = c04.path_of(tn, c)
            if not path or path[-1][2] != "exit":
                continue
            df = tagged(r, c, i)
            dest = ("198.51.100.%d" % (1 + i % 200), 1000 + len(sent_f) % 5000)
            sent_f[(c.circuit_id, df)] = (path[-1][0]._verif_name, path[-1][1], dest)
            tn.origin.send_data(c.hop.address, c.circuit_id, dest, NULL, df)
            db = tagged(r, c, 5000 + i)
            srcaddr = ("203.0.113.%d" % (1 + i % 200), 2000 + len(sent_b) % 5000)
            sent_b[(c.circuit_id, db)] = srcaddr
            ex, xcid, _ = path[-1]
            ex.exit_sockets[xcid].tunnel_data(srcaddr, db)
    await tn.drain_c(evs, pick=pick)
    book.add_all(evs, meta)
    got_f, got_b = [], []
    for e in evs:
        for rec in e["records"]:
            if rec[0] == "exit":
                got_f.append((e["node"], rec[1], rec[2], tuple(rec[3])))
            elif rec[0] == "raw":
                got_b.append((rec[1], tuple(rec[2]), rec[3]))
    ok = True
    want_f = sorted((v[0], v[1], k[1], v[2]) for k, v in sent_f.items())
    if sorted(got_f) != want_f:
        ok = False
        stray = [g for g in got_f if g not in want_f]
        ctx.violation("isolation/forward-delivery", "%d sent, %d delivered; not matching their own circuit's exit socket: %s" % (
            len(want_f), len(got_f), [(g[0], g[1], g[2][:16]) for g in stray][:3]), meta)
    want_b = sorted((k[0], v, k[1]) for k, v in sent_b.items())
    if sorted(got_b) != want_b:
        ok = False
        stray = [g for g in got_b if g not in want_b]
        ctx.violation("isolation/backward-delivery", "%d returned, %d delivered; not matching their own circuit: %s" % (
            len(want_b), len(got_b), [(g[0], g[2][:16]) for g in stray][:3]), meta)
    return ok


async def circuit_alive(tn, c, r):
    path = c04.path_of(tn, c)
    if not path or path[-1][2] != "exit" or c.circuit_id not in tn.origin.circuits:
        return False
    data = tagged(r, c, 9999)
    mark = len(tn.trace)
    tn.origin.send_data(c.hop.address, c.circuit_id, ("192.0.2.1", 9), NULL, data)
    await tn.settle()
    return any(rec[0] == "exit" and rec[2] == data for rec in tn.trace[mark:])


class Stranger:
    """a third party with a key of its own that no node has ever seen (not a member of the overlay's peer tables): it can
    sign anything validly under ITS key, and put any source address on its datagrams"""

    def __init__(self, tn, address=("198.51.100.23", 7777)):
        from ipv8.keyvault.crypto import default_eccrypto
        from ipv8.peer import Peer
        self._ov = tn.origin
        self.my_peer = Peer(default_eccrypto.generate_key("curve25519"), address)
        self._verif_name = "stranger"

    def ezr_pack(self, msg_num, *payloads):
        from ipv8.keyvault.crypto import default_eccrypto
        from ipv8.messaging.payload_headers import BinMemberAuthenticationPayload
        pkt = self._ov._ez_pack(self._ov._prefix, msg_num,
                                [BinMemberAuthenticationPayload(self.my_peer.public_key.key_to_bin()), *payloads], sig=False)
        return pkt + default_eccrypto.create_signature(self.my_peer.key, pkt)


def forged_destroy(tn, signer, cid, reason=1, sig="ok", claim=None):
    from ipv8.messaging.anonymization.payload import DestroyPayload
    pkt = signer.ezr_pack(DestroyPayload.msg_id, DestroyPayload(cid, reason))
    if sig == "bad":
        pkt = pkt[:-1] + bytes([pkt[-1] ^ 1])
    elif sig == "substituted" and claim is not None:
        kb = claim.my_peer.public_key.key_to_bin()
        klen = int.from_bytes(pkt[23:25], "big")
        pkt = pkt[:23] + len(kb).to_bytes(2, "big") + kb + pkt[25 + klen:]
    return pkt


async def destroy_matrix(ctx, tn, loop, book, r):
    """id x signer x signature x source address against every table role, on a 3-hop circuit sharing relays with another
    circuit.  Signers: the adjacent node, another member of the circuit, a node outside it, a stranger (a key no node has
    seen).  Source address: the signer's own; for destroys validly signed by the stranger's OWN key also the adjacent
    hop's exact address (spoofed) and its IP with another port - an entry may disappear only through a destroy signed by
    the key of the node stored for that id (destroy_only_adjacent), never because of where a datagram claims to come from."""
    n_cases = 0
    removing = []
    c, c2 = (await build(tn, [3, 2]) + [None, None])[:2]
    if c is None or c2 is None:
        ctx.broke("destroy matrix: circuits not built")
        return 0
    path = c04.path_of(tn, c)
    p2 = c04.path_of(tn, c2)
    evs = []
    await tn.tick(loop, 6, evs)
    book.add_all(evs, {"kind": "tick"})
    o = tn.origin
    r1, r2, ex = path[0][0], path[1][0], path[2][0]
    ida, idb, idc = path[0][1], path[1][1], path[2][1]     # id on link O-R1, R1-R2, R2-E
    outsider = next(ov for ov in tn.nodes.values() if ov not in (o, r1, r2, ex))
    stranger = Stranger(tn)
    # (target node, table role, id, adjacent sender, other members of the circuit)
    targets = [(r1, "relay-in", ida, o, [r2, ex]), (r1, "relay-out", idb, r2, [o, ex]),
               (r2, "relay-in", idb, r1, [o, ex]), (r2, "relay-out", idc, ex, [o, r1]),
               (ex, "exit", idc, r2, [o, r1]), (o, "circuit", ida, r1, [r2, ex])]
    other_id = {r1: [x[1] for x in p2 if x[0] is r1], r2: [x[1] for x in p2 if x[0] is r2], ex: [x[1] for x in p2 if x[0] is ex],
                o: [c2.circuit_id]}

    # who is the neighbour of `node` on the link with id `cid` (from the topology of the two circuits)
    neigh = {}
    for pth, circ in ((path, c), (p2, c2)):
        prev = o
        neigh[(o, circ.circuit_id)] = pth[0][0]
        for i, (nd, cid_i, _) in enumerate(pth):
            neigh[(nd, cid_i)] = prev
            if i + 1 < len(pth):
                neigh[(nd, pth[i + 1][1])] = pth[i + 1][0]
            prev = nd

    def present(node, role, cid):
        return cid in {"relay-in": node.relay_from_to, "relay-out": node.relay_from_to, "exit": node.exit_sockets, "circuit": node.circuits}[role]

    plan = []
    for node, role, cid, adj, members in targets:
        for sender_kind, signer in [("adjacent", adj)] + [("member", m) for m in members[:1]] + [("outsider", outsider),
                                                                                                  ("stranger", stranger)]:
            for sig in ("ok", "bad", "substituted"):
                for idk in ("own", "other", "unknown"):
                    if idk == "other" and not other_id.get(node):
                        continue
                    plan.append((node, role, cid, adj, sender_kind, signer, sig, idk, "own-address"))
                    if sender_kind == "stranger" and sig == "ok" and idk != "unknown":
                        # a third party signs with its OWN key (valid signature) and spoofs where the datagram comes from
                        plan.append((node, role, cid, adj, sender_kind, signer, sig, idk, "adjacent-address"))
                        plan.append((node, role, cid, adj, sender_kind, signer, sig, idk, "adjacent-ip-other-port"))
    # non-removing combinations first, the legitimate ones last (each breaks the circuit)
    legit = [p[:8] for p in plan if p[4] == "adjacent" and p[6] == "ok" and p[7] == "own"]
    rest = [p for p in plan if p[:8] not in legit]
    for node, role, cid, adj, sender_kind, signer, sig, idk, srck in rest:
        use = cid if idk == "own" else (other_id[node][0] if idk == "other" else r.getrandbits(32))
        if sig == "ok" and neigh.get((node, use)) is signer:
            continue      # on shared relays a member of one circuit can be the stored neighbour of another: legitimate
        stored = neigh.get((node, use), adj)          # the node whose key is stored for the id named in the destroy
        sa = tuple(stored.my_peer.address)
        src = {"own-address": tuple(signer.my_peer.address), "adjacent-address": sa,
               "adjacent-ip-other-port": (sa[0], 1024 + (sa[1] + 11) % 60000)}[srck]
        pkt = forged_destroy(tn, signer, use, 1, sig, claim=adj if signer is not adj else outsider)
        before = entry_ids(tn)
        meta = {"kind": "destroy", "role": role, "sender": sender_kind, "sig": sig, "id": idk, "source": srck,
                "what": "destroy for %s id (%s) at a %s entry, signed by %s (signature %s), source address: %s" % (
                    idk, use, role, sender_kind, sig, srck)}
        ev = await tn.event(src, tuple(node.my_peer.address), pkt)
        evs = [ev]
        await tn.drain_c(evs)
        await tn.tick(loop, 6, evs)
        await tn.drain_c(evs)
        book.add_all(evs, meta)
        after = entry_ids(tn)
        n_cases += 1
        ctx.count(("destroy", role, sender_kind, sig, idk, srck), nontrivial=True)
        if after != before:
            lost = [(n, t) for n in before for t in range(3) if set(before[n][t]) - set(after[n][t])]
            key = "destroy/unauthorised-removal" if srck == "own-address" else "destroy/unauthorised-removal-source-%s" % srck
            ctx.violation(key, "%s: entries disappeared at %s" % (meta["what"], lost), meta)
            return n_cases
    for node, role, cid, adj, sender_kind, signer, sig, idk in legit:
        if not present(node, role, cid):
            # the circuit was taken down by an earlier legitimate destroy: rebuild one of the same shape
            c = await tn.build_circuit(3)
            if c is None:
                break
            path = c04.path_of(tn, c)
            r1n, r2n, exn = path[0][0], path[1][0], path[2][0]
            newt = {"relay-in": (r1n, path[0][1], o), "relay-out": (r1n, path[1][1], r2n), "exit": (exn, path[2][1], r2n), "circuit": (o, path[0][1], r1n)}
            if (node, role) == (r2, "relay-in"):
                node, cid, adj = r2n, path[1][1], r1n
            else:
                node, cid, adj = newt[role]
            signer = adj
        pkt = forged_destroy(tn, signer, cid, 1, "ok")
        meta = {"kind": "destroy", "role": role, "sender": "adjacent", "sig": "ok", "id": "own",
                "what": "destroy for the entry's own id at a %s entry, correctly signed by the adjacent node" % role}
        ev = await tn.event(tuple(signer.my_peer.address), tuple(node.my_peer.address), pkt)
        evs = [ev]
        await tn.drain_c(evs)
        await tn.tick(loop, 6, evs)
        await tn.drain_c(evs)
        book.add_all(evs, meta)
        n_cases += 1
        ctx.count(("destroy", role, "adjacent", "ok", "own"), nontrivial=True)
        if present(node, role, cid):
            ctx.violation("destroy/legitimate-not-honoured", "%s: the entry is still there after remove_tunnel_delay" % meta["what"], meta)
    return n_cases


def _is_plain_create(tn, d):
    return tn.is_cell(d) and d[27] != 0 and len(d) > 34 and d[29] == 2


async def create_race(ctx, tn, loop, book, r):
    """a third party's create under the SAME id dispatched back-to-back with a genuine create: both datagrams are
    handed to the node before the event loop runs any task, in both orders, at the first hop and at a later hop
    (the create a relay sends for an extend)"""
    from ipv8.messaging.anonymization.payload import CreatePayload
    n = 0
    for hop_kind in ("first-hop", "extend-hop"):
        for order in ("genuine-first", "forged-first"):
            c = tn.origin.create_circuit(1 if hop_kind == "first-hop" else 2, exit_flags=[2])
            if c is None:
                ctx.broke("create-race: circuit not started")
                return n
            evs = []
            # run the construction up to the create that is to be raced
            for _ in range(40):
                head = tn.net.queue[0] if tn.net.queue else None
                if head is not None and _is_plain_create(tn, head[2]) and \
                        ((hop_kind == "first-hop") == (tuple(head[0]) == tuple(tn.origin.my_peer.address))):
                    break
                if not tn.net.queue:
                    await tn.settle_tasks()
                    if not tn.net.queue:
                        break
                    continue
                await tn.drain_c(evs, limit=1)
            book.add_all(evs, {"kind": "build"})
            if not tn.net.queue or not _is_plain_create(tn, tn.net.queue[0][2]):
                ctx.broke("create-race: no create to race with (%s)" % hop_kind)
                return n
            g = tn.net.queue.popleft()
            gsrc, gdst, gd = g
            node = tn.by_addr[tuple(gdst)]
            cid = int.from_bytes(gd[23:27], "big")
            attacker = next(ov for ov in tn.nodes.values()
                            if ov is not node and ov is not tn.origin and tuple(ov.my_peer.address) != tuple(gsrc))
            _, pub = attacker.crypto.generate_diffie_secret()
            attacker.send_cell(node.my_peer.address, CreatePayload(cid, r.randrange(65536), attacker.my_peer.public_key.key_to_bin(), pub))
            f = tn.net.queue.pop()
            pair = [g, f] if order == "genuine-first" else [f, g]
            meta = {"kind": "create-race", "hop": hop_kind, "order": order,
                    "what": "a third party's create under the same id %d dispatched back-to-back with the genuine create (%s, %s)" % (cid, hop_kind, order)}
            pre = tn.alpha_c(node)
            mark = len(tn.trace)
            ep = tn.net.endpoints[tuple(gdst)]
            esc = None
            try:
                for (s_, _, d_) in pair:          # no yield to the event loop in between
                    ep.inject(s_, d_)
            except Exception as e:   # noqa
                esc = type(e).__name__
            await tn.settle_tasks()
            recs = tn.trace[mark:]
            es = node.exit_sockets.get(cid)
            cache = node.request_cache._identifiers.get("created:%d" % cid)
            cands = "" if cache is None else "; ".join("(%d, %s)" % (tn.reg.pk(kk), tn.peer_coq(p)) for kk, p in cache.candidates.items())
            ops = []
            for j, (s_, _, d_) in enumerate(pair):
                kl = int.from_bytes(d_[32:34], "big")
                kb = d_[34:34 + kl]
                ops.append("OCreate %s %d %d %s %s [%s]" % (
                    addr_coq(s_), cid, int.from_bytes(d_[30:32], "big"), "(Some %d)" % tn.reg.pk(kb) if key_ok(kb) else "None",
                    "(Some %d)" % (es.hop.keys.kid if (es is not None and j == 0) else 0), cands if j == 0 else ""))
            acts, _, _ = tn.cacts(node, recs, False, 0, 0)
            post = tn.alpha_c(node)
            book.add({"node": node._verif_name, "escaped": esc, "records": recs, "op": "; ".join(ops)[:200],
                      "case": "(%s, [%s])" % (pre, "; ".join(ops)), "expected": "Ok (%s, [%s])" % (post, "; ".join(acts))}, meta)
            n += 1
            ctx.count(("create-race", hop_kind, order), nontrivial=True)
            # oracle: the entry belongs to whoever came first and was not replaced by the second create
            first_src, first_d = pair[0][0], pair[0][2]
            fk = first_d[34:34 + int.from_bytes(first_d[32:34], "big")]
            if es is None:
                ctx.violation("create-race/no-entry", "%s: no exit socket after the two creates" % meta["what"], meta)
            elif tuple(es.hop.address) != tuple(first_src) or es.hop.peer.public_key.key_to_bin() != fk:
                ctx.violation("create-race/entry-replaced", "%s: the exit socket made for the first create (from %s) now belongs to %s" % (
                    meta["what"], tuple(first_src), tuple(es.hop.address)), meta)
            replies = [x for x in recs if x[0] == "send" and _is_plain_create(tn, x[3]) is False and tn.is_cell(x[3]) and x[3][27] != 0 and x[3][29] == 3]
            if len(replies) != 1 or tuple(replies[0][2]) != tuple(first_src):
                ctx.violation("create-race/created-sent-to-wrong-party", "%s: created replies went to %s" % (
                    meta["what"], [tuple(x[2]) for x in replies]), meta)
            evs = []
            for _ in range(60):
                await tn.drain_c(evs)
                await tn.settle_tasks()
                if c.state == "READY" or not tn.net.queue:
                    break
            book.add_all(evs, dict(meta, what="construction continues after the race"))
            if order == "genuine-first":
                if c.state != "READY":
                    ctx.violation("create-race/genuine-circuit-not-built", "%s: the genuine circuit did not become ready" % meta["what"], meta)
                elif not await transfer_check(ctx, tn, book, r, [c], dict(meta, what="data both ways on the genuine circuit after the race"), rounds=2):
                    ctx.violation("create-race/genuine-circuit-cut-off", "%s: the genuine circuit is READY but does not carry data both ways" % meta["what"], meta)
            if c.state != "READY" and c.circuit_id in tn.origin.circuits:
                # the originator gives up the circuit whose create lost the race (before its retry timer does anything)
                cid0 = c.circuit_id
                book.add(await tn.local(tn.origin, "ORemoveCircuit %d 0" % cid0,
                                        lambda: tn.origin.remove_circuit(cid0, "lost the race", remove_now=True)), meta)
            evs = []
            await tn.tick(loop, 6, evs)
            book.add_all(evs, {"kind": "tick"})
    return n


async def stale_created(ctx, tn, loop, book, r):
    """a slow first exit: the originator re-extends the same partial circuit to another exit, the circuit X becomes
    ready, and then answers arrive that must not touch X's relay entries: the first exit's stale created (its
    CreateRequestCache still pending), a created with an unknown identifier / other id, duplicates of the genuine one"""
    n = 0
    o = tn.origin
    exits = [ov for nm, ov in tn.nodes.items() if nm.startswith("exit")]
    for variant in ("stale-after-handover", "stale-in-handover-window", "unknown-identifier", "duplicate-genuine", "duplicate-genuine-late"):
        c = o.create_circuit(2, exit_flags=[2])
        if c is None:
            ctx.broke("stale-created: circuit not started")
            return n
        evs, stale = [], None
        for _ in range(60):
            if tn.net.queue:
                s_, d_, x_ = tn.net.queue[0]
                if tn.is_cell(x_) and x_[27] != 0 and x_[29] == 3 and tuple(d_) != tuple(o.my_peer.address):
                    stale = tn.net.queue.popleft()       # the first exit's created is slow
                    break
                await tn.drain_c(evs, limit=1)
            else:
                await tn.settle_tasks()
                if not tn.net.queue:
                    break
        book.add_all(evs, {"kind": "build"})
        if stale is None:
            ctx.broke("stale-created: no created to hold back")
            return n
        e1, rnode = tn.by_addr[tuple(stale[0])], tn.by_addr[tuple(stale[1])]
        e2 = next(x for x in exits if x is not e1)
        kb2 = e2.my_peer.public_key.key_to_bin()
        cache = rnode.request_cache.get("created", c.circuit_id)
        if cache is not None and kb2 not in cache.candidates:
            from ipv8.peer import Peer
            cache.candidates[kb2] = Peer(kb2, e2.my_peer.address)
        c.required_exit = None
        o.send_extend(c, [kb2], 1)                      # the originator gives up on the first exit (cf. test_reuse_partial_circuit)
        evs, genuine = [], None
        for _ in range(80):
            if tn.net.queue:
                s_, d_, x_ = tn.net.queue[0]
                if tn.is_cell(x_) and x_[27] != 0 and x_[29] == 3 and tuple(s_) == tuple(e2.my_peer.address):
                    genuine = tn.net.queue[0]
                await tn.drain_c(evs, limit=1)
            else:
                await tn.settle_tasks()
                if c.state == "READY" or not tn.net.queue:
                    break
        book.add_all(evs, {"kind": "re-extend"})
        path = c04.path_of(tn, c)
        if c.state != "READY" or len(path) != 2 or path[-1][0] is not e2:
            ctx.broke("stale-created: the re-extended circuit did not become ready over the second exit")
            return n
        late = variant in ("stale-after-handover", "duplicate-genuine-late", "unknown-identifier")
        if late:
            evs = []
            await tn.tick(loop, 6, evs)                  # hand-over window over, the first extend's cache (10 s) still pending
            book.add_all(evs, {"kind": "tick"})
        before = entry_ids(tn)[rnode._verif_name]
        if variant.startswith("stale"):
            item = stale
        elif variant == "unknown-identifier":
            x_ = stale[2]
            item = (stale[0], stale[1], x_[:23] + r.randbytes(4) + x_[27:30] + r.randbytes(2) + x_[32:])
        else:
            item = genuine
        if item is None:
            ctx.broke("stale-created: nothing to deliver for %s" % variant)
            return n
        meta = {"kind": "stale-created", "variant": variant,
                "what": "%s created delivered to the relay of an established, re-extended circuit" % variant}
        evs = [await tn.event(*item)]
        await tn.drain_c(evs)
        book.add_all(evs, meta)
        n += 1
        ctx.count(("stale-created", variant), nontrivial=True)
        after = entry_ids(tn)[rnode._verif_name]
        changed = before[1] != after[1] or c04.path_of(tn, c)[-1][0] is not e2
        if changed:
            ctx.violation("stale-created/relay-entry-replaced", "%s: the relay entries of the established circuit changed "
                          "(forward route now towards %s)" % (meta["what"], c04.path_of(tn, c)[-1][0]._verif_name), meta)
        elif not await transfer_check(ctx, tn, book, r, [c], dict(meta, what="data both ways on the re-extended circuit afterwards"), rounds=2):
            ctx.violation("stale-created/circuit-cut-off", "%s: the circuit no longer carries data through its own exit" % meta["what"], meta)
        evs = []
        book.add(await tn.local(o, "ORemoveCircuit %d 1" % c.circuit_id, lambda: o.remove_circuit(c.circuit_id, "done", remove_now=True, destroy=1)), meta)
        await tn.drain_c(evs)
        for _ in range(3):
            await tn.tick(loop, 5, evs)
            await tn.drain_c(evs)
        book.add_all(evs, {"kind": "teardown"})
    return n


async def shared_exit(ctx, tn, loop, book, r):
    """several circuits of different originators ending at the SAME exit node; their first outbound packets interleaved
    with the (delayed) opening of each exit socket's transports; then a reply from outside to every datagram that left"""
    n_rounds = 0
    exit_node = next(ov for nm, ov in tn.nodes.items() if nm.startswith("exit"))
    originators = [tn.origin] + [ov for nm, ov in tn.nodes.items() if nm.startswith("relay")]
    for rnd_i in range(10 if ctx.quick else 60):
        circuits = []        # (originator, circuit, exit socket)
        for k in range(r.choice([2, 3])):
            o = originators[k % len(originators)] if rnd_i % 2 == 0 else r.choice(originators)
            c = await tn.build_circuit(r.choice([1, 2]), origin=o)
            if c is None:
                continue
            # follow the circuit to its exit socket
            addr, cid = tuple(c.hop.address), c.circuit_id
            for _ in range(4):
                nd = tn.by_addr[addr]
                if cid in nd.relay_from_to:
                    rr = nd.relay_from_to[cid]
                    addr, cid = tuple(rr.hop.address), rr.circuit_id
                else:
                    break
            es = nd.exit_sockets.get(cid)
            if nd is exit_node and es is not None:
                circuits.append((o, c, es))
        if len(circuits) < 2:
            continue
        by_cid = {c.circuit_id: (o, c, es) for o, c, es in circuits}
        meta = {"kind": "shared-exit", "round": rnd_i, "circuits": len(circuits)}
        tn.hold_transports = True
        plan = []
        for o, c, es in circuits:
            plan += [("send", c.circuit_id)] * r.choice([1, 2, 3]) + [("open", c.circuit_id)]
        r.shuffle(plan)
        sent, seq = {}, 0
        mark_out, mark_tr = len(tn.exits_out), len(tn.trace)
        evs = []
        for what, cid in plan:
            o, c, es = by_cid[cid]
            if what == "send":
                seq += 1
                data = tagged(r, c, seq)
                dest = ("198.51.100.%d" % (1 + seq % 200), 3000 + seq)
                sent[data] = (cid, dest)
                o.send_data(c.hop.address, c.circuit_id, dest, NULL, data)
                await tn.drain_c(evs)
            else:
                await tn.release_transports(es)
        tn.hold_transports = False
        await tn.release_transports(None)
        await tn.drain_c(evs)
        book.add_all(evs, meta)
        outs = tn.exits_out[mark_out:]
        n_rounds += 1
        ctx.count(("shared-exit", rnd_i, tuple(w for w, _ in plan)), nontrivial=True)
        # every datagram leaving a transport belongs to the circuit owning that transport
        ok = True
        for owner, data, addr in outs:
            cid = sent.get(data, (None, None))[0]
            want = by_cid[cid][2] if cid in by_cid else None
            if want is not owner:
                ok = False
                ctx.violation("exit-queue/packet-left-through-other-circuit",
                              "a packet that entered circuit %s left through the transport of exit socket %s (%d circuits at one exit, schedule %s)" % (
                                  cid, getattr(owner, "circuit_id", None), len(circuits), [w[0] for w in plan]), meta)
                break
        if ok and sorted(d for _, d, _ in outs) != sorted(sent):
            ctx.violation("exit-queue/packets-lost-or-duplicated", "%d packets sent into %d circuits at one exit, %d left the exit" % (
                len(sent), len(circuits), len(outs)), meta)
        # the outside answers every datagram on the transport it came from: the reply reaches only that circuit's originator
        evs = []
        replies = {}
        for owner, data, addr in outs:
            reply = b"d" + b"REPLY" + data[1:]
            replies[reply] = owner
            owner.datagram_received_ipv4(reply, addr)
        await tn.drain_c(evs)
        book.add_all(evs, dict(meta, what="replies"))
        got = [(e["node"], rec[1], rec[3]) for e in evs for rec in e["records"] if rec[0] == "raw"]
        for node, cid, data in got:
            tag_cid = int(data[7:17]) if data[:7] == b"dREPLYC" and data[7:17].isdigit() else None
            if tag_cid not in by_cid or by_cid[tag_cid][0]._verif_name != node or cid != tag_cid:
                ctx.violation("exit-queue/reply-to-other-circuit", "the reply to a packet of circuit %s was delivered to %s under circuit %s" % (
                    tag_cid, node, cid), meta)
                break
        if ok and len(got) != len(outs):
            ctx.violation("exit-queue/reply-lost", "%d replies injected at the exit's transports, %d reached an originator" % (len(outs), len(got)), meta)
    return n_rounds


async def create_in_use(ctx, tn, loop, book, r):
    """a create under an id that is live in some table of the receiver"""
    from ipv8.messaging.anonymization.payload import CreatePayload
    n = 0
    for after_expiry in (False, True):
        c = await tn.build_circuit(2)
        if c is None:
            ctx.broke("create-in-use: circuit not built")
            return n
        path = c04.path_of(tn, c)
        r1, ex = path[0][0], path[1][0]
        ida, idb = path[0][1], path[1][1]
        attacker = next(ov for ov in tn.nodes.values() if ov not in (tn.origin, r1, ex))
        evs = []
        await tn.tick(loop, 6, evs)          # the hand-over window of the relay closes
        book.add_all(evs, {"kind": "tick"})
        if after_expiry:
            evs = []
            for _ in range(13):
                await tn.tick(loop, 5, evs)
                await tn.drain_c(evs)
            book.add_all(evs, {"kind": "tick", "what": "61 s pass (CreatedRequestCache expiry)"})
        for node, role, cid in ((r1, "relay-in", ida), (r1, "relay-out", idb), (ex, "exit", idb), (tn.origin, "circuit", ida)):
            before = entry_ids(tn)
            _, pub = attacker.crypto.generate_diffie_secret()
            meta = {"kind": "create-in-use", "role": role, "after_cache_expiry": after_expiry,
                    "what": "create under the live %s id %d (%s the 60 s CreatedRequestCache)" % (role, cid, "after" if after_expiry else "within")}
            attacker.send_cell(node.my_peer.address, CreatePayload(cid, r.randrange(65536), attacker.my_peer.public_key.key_to_bin(), pub))
            evs = []
            await tn.drain_c(evs)
            await tn.tick(loop, 6, evs)
            await tn.drain_c(evs)
            book.add_all(evs, meta)
            n += 1
            ctx.count(("create-in-use", role, after_expiry), nontrivial=True)
            after = entry_ids(tn)
            if after != before:
                ctx.violation("create-in-use/entry-replaced", "%s: table entries changed at %s" % (
                    meta["what"], [nm for nm in before if before[nm] != after[nm]]), meta)
            elif not await circuit_alive(tn, c, r):
                ctx.violation("create-in-use/circuit-broken", "%s: the original circuit no longer carries data" % meta["what"], meta)
        # a create under a fresh id is still accepted
        _, pub = attacker.crypto.generate_diffie_secret()
        fresh = r.getrandbits(32)
        attacker.send_cell(ex.my_peer.address, CreatePayload(fresh, 7, attacker.my_peer.public_key.key_to_bin(), pub))
        evs = []
        await tn.drain_c(evs)
        book.add_all(evs, {"kind": "create-fresh"})
        if fresh not in ex.exit_sockets:
            ctx.violation("create/fresh-id-refused", "a create under an unused id was not accepted", {"kind": "create-fresh"})
    return n


async def alive_both_ways(tn, o, c, r):
    """circuit c of originator o still carries a datagram to its exit and the reply back to o under c's id"""
    path = c04.path_of(tn, c)
    if not path or path[-1][2] != "exit" or o.circuits.get(c.circuit_id) is not c:
        return False
    if 2 not in path[-1][0].settings.peer_flags:
        return True               # the far end is no BitTorrent exit: it would refuse the probe itself
    data = tagged(r, c, 9998)
    mark = len(tn.trace)
    o.send_data(c.hop.address, c.circuit_id, ("192.0.2.1", 9), NULL, data)
    await tn.settle()
    if not any(rec[0] == "exit" and rec[2] == data for rec in tn.trace[mark:]):
        return False
    ex, xcid, _ = path[-1]
    es = ex.exit_sockets.get(xcid)
    if es is None:
        return False
    reply = b"d" + b"BACK" + data[1:]
    mark = len(tn.trace)
    es.tunnel_data(("192.0.2.1", 9), reply)
    await tn.settle()
    return any(rec[0] == "raw" and rec[1] == c.circuit_id and rec[3] == reply for rec in tn.trace[mark:])


async def build_via(tn, o, nodes):
    """a circuit of originator o through exactly these nodes (1 or 2 hops; the last one is the exit)"""
    def peer_of(ov):
        kb = ov.my_peer.public_key.key_to_bin()
        return next(p for p in saved if p.public_key.key_to_bin() == kb)
    saved = o.candidates
    try:
        if len(nodes) > 1:
            first = peer_of(nodes[0])
            o.candidates = {first: saved[first]}
        c = o.create_circuit(len(nodes), required_exit=peer_of(nodes[-1]))
    finally:
        o.candidates = saved
    if c is None:
        return None
    for _ in range(50):
        await tn.settle()
        if c.state == "READY" or c.circuit_id not in o.circuits:
            break
    return c if c.state == "READY" and [x[0] for x in c04.path_of(tn, c)] == list(nodes) else None


async def create_in_use_mixed(ctx, tn, loop, book, r):
    """create_in_use at receivers of every role mix.  Circuits of several originators are laid through chosen nodes so that
    there is a node holding only an exit socket, one holding relay routes and an exit socket, one holding a circuit of its
    own and an exit socket, one holding all three (and the originator: circuits only).  Then, for every node and every
    table of it, a create naming an id of that table arrives - while the CreatedRequestCache of the entry's own create is
    still live, and after it has expired (61 s) - from an unrelated node and from the node that made the entry.  Nothing
    may change: every table entry of every node is the same object with the same keys and neighbour, and the circuit the
    id belongs to still carries data both ways."""
    from ipv8.messaging.anonymization.caches import CreatedRequestCache
    from ipv8.messaging.anonymization.payload import CreatePayload
    n = 0
    victims = []
    O = tn.origin
    R0, R1 = (tn.nodes["relay0"], tn.nodes["relay1"])
    E0, E1, E2 = (tn.nodes["exit0"], tn.nodes["exit1"], tn.nodes["exit2"])
    # two-hop circuits first, each by an originator that has no circuit yet (create_circuit prefers first hops it uses least)
    layout = [(O, [E1, E2]), (R0, [R1, E2]), (R1, [E2]),       # E1, R1: relay routes; R0, R1: a circuit of their own
              (O, [E0]), (O, [E1]), (O, [R0]), (O, [R1])]      # exit sockets: E0 (nothing else), E1, R0, R1
    for o, nodes in layout:
        c = await build_via(tn, o, nodes)
        if c is None:
            ctx.broke("create-in-use (mixed roles): circuit %s -> %s not built" % (o._verif_name, [x._verif_name for x in nodes]))
            return n
        victims.append((o, c))
    evs = []
    await tn.tick(loop, 6, evs)            # hand-over windows close
    book.add_all(evs, {"kind": "tick"})
    owner = {}
    for o, c in victims:
        owner[(o._verif_name, c.circuit_id)] = (o, c)
        for ov, cid, role in c04.path_of(tn, c):
            owner[(ov._verif_name, cid)] = (o, c)
            if role == "relay":
                owner[(ov._verif_name, ov.relay_from_to[cid].circuit_id)] = (o, c)
    mixes = set()
    for phase in ("early", "late"):
        if phase == "late":
            evs = []
            for _ in range(13):
                await tn.tick(loop, 5, evs)
                await tn.drain_c(evs)
            book.add_all(evs, {"kind": "tick", "what": "61 s pass (CreatedRequestCache expiry)"})
        for nm, node in sorted(tn.nodes.items()):
            mix = "+".join(t for t, tab in (("circuit", node.circuits), ("relay", node.relay_from_to), ("exit", node.exit_sockets)) if tab)
            for table, tab in (("circuit", node.circuits), ("relay", node.relay_from_to), ("exit", node.exit_sockets)):
                if not tab:
                    continue
                cid = sorted(tab)[r.randrange(len(tab))]
                x = tab[cid]
                maker = tn.by_addr.get(tuple(x.hop.address)) if table != "circuit" else None
                senders = [("unrelated", next(ov for ov in tn.nodes.values() if ov is not node and ov is not maker))]
                if maker is not None:
                    senders.append(("maker-of-the-entry", maker))
                for sname, sender in senders:
                    age = "live" if node.request_cache.has(CreatedRequestCache, cid) else "expired-or-none"
                    before = entry_ids(tn)
                    _, pub = sender.crypto.generate_diffie_secret()
                    meta = {"kind": "create-in-use-mixed", "receiver_tables": mix, "id_in": table, "cache": age, "sender": sname,
                            "what": "create naming a live %s id at a node holding {%s} (CreatedRequestCache of that id: %s), sent by %s" % (table, mix, age, sname)}
                    sender.send_cell(node.my_peer.address, CreatePayload(cid, r.randrange(65536), sender.my_peer.public_key.key_to_bin(), pub))
                    evs = []
                    await tn.drain_c(evs)
                    await tn.tick(loop, 1, evs)
                    await tn.drain_c(evs)
                    book.add_all(evs, meta)
                    n += 1
                    mixes.add((mix, table, age))
                    ctx.count(("create-in-use-mixed", mix, table, age, sname), nontrivial=True)
                    after = entry_ids(tn)
                    if after != before:
                        ctx.violation("create-in-use/entry-replaced", "%s: table entries changed at %s" % (
                            meta["what"], [k for k in before if before[k] != after[k]]), meta)
                        return n
                    vo, vc = owner.get((nm, cid), (None, None))
                    if vc is not None and not await alive_both_ways(tn, vo, vc, r):
                        ctx.violation("create-in-use/circuit-broken", "%s: the circuit the id belongs to no longer carries data both ways" % meta["what"], meta)
                        return n
    ctx.extra["create_in_use_mixes"] = sorted("%s|id in %s|%s" % m for m in mixes)
    return n


async def misnamed_created(ctx, loop, book_of, r):
    """a plaintext created that carries the IDENTIFIER of an extend pending at relay R (circuit B) but names, as the cell's
    circuit id, another id Y known at R - an exit socket of R (circuit of another originator), a circuit of R's own - or an
    unknown id; sent by the extend target and by an outsider.  Whatever R makes of B's extend, Y is none of it: Y's entry
    is the same object under the same keys, no relay route appears under Y, Y's circuit still carries data both ways and
    nothing that travels over Y reaches B's originator."""
    import struct
    from ipv8.messaging.anonymization.caches import CreateRequestCache
    from ipv8.messaging.anonymization.payload import CellPayload, CreatedPayload
    n = 0
    for ykind in ("exit-socket", "own-circuit", "unknown"):
        for sname in ("extend-target", "outsider"):
            tn = CNet(n_relays=2, n_exits=2, exit_flags=(2, 4, 8))
            await tn.start()
            book = book_of(tn)
            try:
                O, R, T, P = tn.origin, tn.nodes["exit0"], tn.nodes["exit1"], tn.nodes["relay0"]
                cy_exit = await build_via(tn, P, [R])                 # Y1: exit socket at R, circuit of originator P
                cy_own = await build_via(tn, R, [T])                  # Y2: R's own circuit
                if cy_exit is None or cy_own is None:
                    ctx.broke("misnamed created: the circuits of Y were not built")
                    continue
                ev0 = []
                await tn.tick(loop, 6, ev0)
                book.add_all(ev0, {"kind": "tick"})
                # circuit B: O -> R -> T, stopped while R's create to T is on its way
                kb = {ov: ov.my_peer.public_key.key_to_bin() for ov in (R, T)}
                saved = O.candidates
                first = next(p for p in saved if p.public_key.key_to_bin() == kb[R])
                O.candidates = {first: saved[first]}
                try:
                    cb = O.create_circuit(2, required_exit=next(p for p in saved if p.public_key.key_to_bin() == kb[T]))
                finally:
                    O.candidates = saved
                evs = []
                pending = None
                for _ in range(12):
                    pending = next((cch for k, cch in R.request_cache._identifiers.items() if k.startswith("create:")), None)
                    if pending is not None:
                        break
                    await tn.drain_c(evs, limit=1)
                    await tn.settle_tasks()
                book.add_all(evs, {"kind": "build", "what": "circuit B up to the pending extend"})
                if pending is None:
                    ctx.broke("misnamed created: no extend pending at the relay")
                    continue
                tn.net.queue.clear()                       # R's create to T is lost: only the forged answer arrives
                y = {"exit-socket": path_of_exit(tn, cy_exit), "own-circuit": cy_own.circuit_id, "unknown": r.getrandbits(32)}[ykind]
                yo, yc = {"exit-socket": (P, cy_exit), "own-circuit": (R, cy_own), "unknown": (None, None)}[ykind]
                msg = R.serializer.pack_serializable(CreatedPayload(y, pending.number, bytes(r.randrange(1, 256) for _ in range(32)), bytes(32), b""))[4:]
                cell = CellPayload(y, struct.pack("!B", 3) + msg, plaintext=True)
                src = tuple(T.my_peer.address) if sname == "extend-target" else ("203.0.113.60", 6000)
                before = (id(R.exit_sockets.get(y)), id(getattr(R.exit_sockets.get(y), "hop", None) and R.exit_sockets[y].hop.keys),
                          id(R.circuits.get(y)), y in R.relay_from_to)
                meta = {"kind": "misnamed-created", "names": ykind, "sender": sname,
                        "what": "plaintext created with the identifier of the extend pending for circuit B, naming %s at the relay, sent by %s" % (
                            {"exit-socket": "the id of an exit socket (another originator's circuit)", "own-circuit": "the id of the relay's own circuit",
                             "unknown": "an unknown id"}[ykind], sname)}
                evs = [await tn.event(src, tuple(R.my_peer.address), cell.to_bin(R._prefix))]
                await tn.drain_c(evs)
                await tn.tick(loop, 6, evs)
                await tn.drain_c(evs)
                book.add_all(evs, meta)
                n += 1
                ctx.count(("misnamed-created", ykind, sname), nontrivial=True)
                after = (id(R.exit_sockets.get(y)), id(getattr(R.exit_sockets.get(y), "hop", None) and R.exit_sockets[y].hop.keys),
                         id(R.circuits.get(y)), y in R.relay_from_to)
                if after != before:
                    ctx.violation("misnamed-created/entry-of-named-id-changed", "%s: the relay's tables under that id changed (%s)" % (
                        meta["what"], "a relay route was installed under it" if after[3] and not before[3] else "entry replaced"), meta)
                    continue
                if yc is not None:
                    alive = await alive_both_ways(tn, yo, yc, r)
                    if not alive:
                        ctx.violation("misnamed-created/named-circuit-broken", "%s: the circuit under that id no longer carries data both ways" % meta["what"], meta)
                        continue
                    # traffic of Y observed event by event: nothing of it arrives at B's originator
                    data = tagged(r, yc, 4242)
                    yo.send_data(yc.hop.address, yc.circuit_id, ("192.0.2.7", 9), NULL, data)
                    evs = []
                    await tn.drain_c(evs)
                    if any(e["node"] == O._verif_name for e in evs):
                        ctx.violation("misnamed-created/traffic-of-named-circuit-reaches-other-originator",
                                      "%s: datagrams caused by traffic on that id arrive at circuit B's originator" % meta["what"], meta)
            finally:
                await tn.stop()
    return n


def path_of_exit(tn, c):
    """the id under which circuit c's exit socket is filed at its exit node"""
    p = c04.path_of(tn, c)
    return p[-1][1]


async def forged_cells(ctx, tn, book, r, circuits):
    """cells naming an unknown id, or a known id with a body not made with that circuit's keys"""
    n = 0
    for c in circuits:
        path = c04.path_of(tn, c)
        others = [x for x in circuits if x is not c]
        for (node, cid, role) in path + [(tn.origin, c.circuit_id, "circuit")]:
            for how in ("unknown-id", "garbage-body", "other-circuit-body", "outsider-keys"):
                before = entry_ids(tn)
                hdr = tn.prefix() + b"\x00"
                if how == "unknown-id":
                    pkt = hdr + r.randbytes(4) + b"\x00\x00" + r.randbytes(60)
                elif how == "garbage-body":
                    pkt = hdr + cid.to_bytes(4, "big") + b"\x00\x00" + r.randbytes(r.choice([0, 1, 23, 24, 60]))
                elif how == "other-circuit-body":
                    donor = [x for x in tn.net.log if tn.is_cell(x[2]) and len(x[2]) > 60 and others
                             and int.from_bytes(x[2][23:27], "big") == others[0].circuit_id]
                    if not donor:
                        continue
                    pkt = hdr + cid.to_bytes(4, "big") + b"\x00\x00" + donor[-1][2][29:]
                else:
                    k = tn.new_keys()
                    pkt = hdr + cid.to_bytes(4, "big") + b"\x00\x00" + k.encrypt_str(b"\x01" + r.randbytes(30), r.choice([0, 1]))
                src = r.choice(list(tn.by_addr))
                meta = {"kind": "forged-cell", "how": how, "role": role, "what": "%s cell at a %s entry" % (how, role)}
                evs = [await tn.event(src, tuple(node.my_peer.address), pkt)]
                await tn.drain_c(evs)
                book.add_all(evs, meta)
                n += 1
                ctx.count(("forged-cell", how, role), nontrivial=True)
                if entry_ids(tn) != before:
                    ctx.violation("forged-cell/table-changed", "%s changed a routing table" % meta["what"], meta)
                dl = [d for d in c04.deliveries(evs) if d[0] in ("exit", "raw", "reinject")]
                if dl:
                    ctx.violation("forged-cell/delivered", "%s was delivered: %s" % (meta["what"], [(d[0],) for d in dl]), meta)
    return n


async def forged_known_id_matrix(ctx, tn, book, r, circuits):
    """well-formed cells of every type naming an id KNOWN at the receiver (own circuit / relay / exit), with the plaintext
    flag set or not, relay_early set or not, sent by the previous hop's address, its IP with another port, or an
    unrelated host - never encrypted with the circuit's keys.  Nothing may be delivered, answered or changed."""
    from ipv8.messaging.anonymization.payload import (CreatedPayload, DataPayload, ExtendedPayload, ExtendPayload, PingPayload,
                                                      PongPayload, TestRequestPayload)
    n = 0
    o = tn.origin
    ser = o.serializer
    att = next(ov for nm, ov in tn.nodes.items() if nm.startswith("relay"))
    _, pub = att.crypto.generate_diffie_secret()
    akey = att.my_peer.public_key.key_to_bin()
    for c in circuits:
        path = c04.path_of(tn, c)
        if not path or path[-1][2] != "exit":
            continue
        entries = []
        prev = o
        for nd, cid, role in path:
            entries.append((nd, cid, role, prev))
            prev = nd
        entries.append((o, c.circuit_id, "circuit", path[0][0]))
        for node, cid, role, prev in entries:
            pa = tuple(prev.my_peer.address)
            senders = (("previous-hop", pa), ("same-ip-other-port", (pa[0], 4321)), ("unrelated", ("203.0.113.9", 999)))
            kinds = (("data", DataPayload(cid, ("7.7.7.7", 7), ("6.6.6.6", 6), b"dINJECTEDe")), ("ping", PingPayload(cid, 99)),
                     ("pong", PongPayload(cid, 99)), ("extend", ExtendPayload(cid, 7, akey, pub, att.my_peer.address)),
                     ("extended", ExtendedPayload(cid, 7, pub, bytes(32), b"x" * 30)),
                     ("created", CreatedPayload(cid, 7, pub, bytes(32), b"x" * 30)),
                     ("test-request", TestRequestPayload(cid, 5, 20, b"abc")))
            for kname, pl in kinds:
                body = bytes([pl.msg_id]) + ser.pack_serializable(pl)[4:]
                for plain in (1, 0):
                    for early in (0, 1):
                        sname, src = senders[n % 3] if ctx.quick else (None, None)
                        for sname, src in ([(sname, src)] if ctx.quick else senders):
                            pkt = tn.prefix() + b"\x00" + cid.to_bytes(4, "big") + bytes([plain, early]) + body
                            meta = {"kind": "forged-known-id", "cell": kname, "plaintext": plain, "relay_early": early, "role": role, "sender": sname,
                                    "what": "well-formed %s cell (plaintext flag %d, relay_early %d) under the known %s id, from %s, not made with the circuit's keys" % (
                                        kname, plain, early, role, sname)}
                            before = entry_ids(tn)
                            caches = {nm: set(ov.request_cache._identifiers) for nm, ov in tn.nodes.items()}
                            evs = [await tn.event(src, tuple(node.my_peer.address), pkt)]
                            await tn.drain_c(evs)
                            book.add_all(evs, meta)
                            n += 1
                            ctx.count(("forged-known-id", kname, plain, early, role, sname), nontrivial=True)
                            problems = []
                            if entry_ids(tn) != before:
                                problems.append("a routing table changed")
                            if caches != {nm: set(ov.request_cache._identifiers) for nm, ov in tn.nodes.items()}:
                                problems.append("a request cache changed")
                            dl = [d for d in c04.deliveries(evs) if d[0] in ("exit", "raw", "reinject")]
                            if dl:
                                problems.append("delivered %s" % [d[0] for d in dl])
                            hs = [rec[1] for e in evs for rec in e["records"] if rec[0] == "handler"]
                            if [h for h in hs if not (plain and h in (2, 3))]:
                                problems.append("cell handlers entered %s" % hs)
                            sends = [rec for e in evs for rec in e["records"] if rec[0] == "send"]
                            if sends:
                                problems.append("%d datagram(s) sent in answer (to %s)" % (len(sends), sorted({x[2] for x in sends})))
                            if problems:
                                ctx.violation("forged-known-id/executed", "%s: %s" % (meta["what"], "; ".join(problems)), meta)
                                return n
    return n


async def half_built(ctx, loop, r, only=None):
    """forged plaintext CREATED messages at the ORIGINATOR of a circuit that is still extending (no verified hop / one
    verified hop with the extend under way): identifier {the pending one, another} x key {32 arbitrary bytes, 32 zero bytes,
    31 bytes} x source {first hop, unrelated host}.  None of them comes from a holder of the key the originator is
    waiting for, so none may change anything: the circuit's entry, its state, its verified hops, the unverified hop and
    the retry cache stay as they are, and the genuine answer arriving afterwards still completes the hop.  (Oracle only:
    the originator's side of the handshake is C08's model, not M05_isolation's.)"""
    import struct
    from ipv8.messaging.anonymization.caches import RetryRequestCache
    from ipv8.messaging.anonymization.payload import CellPayload, CreatedPayload
    n = 0
    for verified in (0, 1):
        for ident_kind in ("pending", "other"):
            for key_kind in ("32-bytes-unverifiable", "32-zero-bytes", "31-bytes"):
                for src_kind in ("first-hop", "unrelated-host"):
                    if only is not None and any(only.get(k) not in (None, v) for k, v in (
                            ("verified_hops", verified), ("identifier", ident_kind), ("key", key_kind), ("source", src_kind))):
                        continue
                    key = {"32-bytes-unverifiable": bytes(r.randrange(1, 256) for _ in range(32)), "32-zero-bytes": bytes(32),
                           "31-bytes": bytes(31)}[key_kind]
                    tn = CNet(n_relays=3, n_exits=2, exit_flags=(2, 4, 8))
                    await tn.start()
                    try:
                        o = tn.origin
                        c = o.create_circuit(3, exit_flags=[2])
                        await tn.settle_tasks()
                        sink = []
                        for _ in range(30):
                            if c is None or len(c.hops) >= verified:
                                break
                            await tn.drain_c(sink, limit=1)
                            await tn.settle_tasks()
                        cache = o.request_cache.get(RetryRequestCache, c.circuit_id) if c is not None else None
                        if c is None or cache is None or len(c.hops) != verified:
                            ctx.broke("half-built scenario: no circuit waiting for hop %d" % (verified + 1))
                            continue
                        held = list(tn.net.queue)         # the genuine request / answer is still on its way
                        tn.net.queue.clear()
                        ident = cache.packet_identifier if ident_kind == "pending" else (cache.packet_identifier + 1 + r.randrange(65534)) % 65536
                        msg = o.serializer.pack_serializable(CreatedPayload(c.circuit_id, ident, key, bytes(32), b""))[4:]
                        cell = CellPayload(c.circuit_id, struct.pack("!B", 3) + msg, plaintext=True)
                        src = tuple(c.hop.address) if src_kind == "first-hop" else ("203.0.113.50", 5000)

                        def snap():
                            return {"in_table": o.circuits.get(c.circuit_id) is c, "state": c.state, "verified_hops": len(c.hops),
                                    "unverified_hop": id(c.unverified_hop), "retry_cache": id(o.request_cache.get(RetryRequestCache, c.circuit_id))}
                        before = snap()
                        await tn.event(src, tuple(o.my_peer.address), cell.to_bin(o._prefix))
                        await tn.settle_tasks()
                        after = snap()
                        meta = {"kind": "half-built-created", "verified_hops": verified, "identifier": ident_kind, "key": key_kind,
                                "source": src_kind, "what": "forged plaintext created (identifier: %s, key: %s) from %s at the originator of a "
                                "circuit with %d verified hop(s)" % (ident_kind, key_kind, src_kind, verified)}
                        n += 1
                        ctx.count(("half-built", verified, ident_kind, key_kind, src_kind), nontrivial=True)
                        if after != before:
                            diff = {k: (before[k], after[k]) for k in before if before[k] != after[k] and k in ("in_table", "state", "verified_hops")}
                            diff.update({k: "changed" for k in before if before[k] != after[k] and k in ("unverified_hop", "retry_cache")})
                            ctx.violation("half-built/changed-by-forged-created", "%s: %s" % (meta["what"], diff), meta)
                            continue
                        # the genuine exchange goes on and completes this hop
                        tn.net.queue.extend(held)
                        for _ in range(12):
                            if len(c.hops) > verified or c.circuit_id not in o.circuits:
                                break
                            await tn.drain_c(sink, limit=1)
                            await tn.settle_tasks()
                        if len(c.hops) != verified + 1 or o.circuits.get(c.circuit_id) is not c:
                            ctx.violation("half-built/genuine-answer-no-longer-accepted", "%s: afterwards the genuine answer does not complete hop %d "
                                          "(verified hops %d, state %s)" % (meta["what"], verified + 1, len(c.hops), c.state), meta)
                    finally:
                        await tn.stop()
    return n


def evaluate(ctx, tn, book, label):
    cases = book.cases
    if not cases:
        return
    mism, errs = onionlock.eval_cases(tn, IMPORTS, "run_hcase", "coutcome_eqb", [(c, e) for c, e, _ in cases],
                                      os.path.join(ctx.scratch, label), "hcase * coutcome")
    for e in errs:
        ctx.broke("model evaluation failed (%s)" % label, e)
    for i in mism[:8]:
        ctx.broke("correspondence (%s): model M05_isolation and the implementation differ on one event" % label,
                  json.dumps(cases[i][2])[:600] + "\nCASE " + cases[i][0][:300] + "\nIMPL " + cases[i][1][:300])
    ctx.coverage["traces_validated_against_impl"] += len(cases) - len(mism)
    ctx.extra.setdefault("lockstep_events", {})[label] = len(cases)
    # extension: the same histories on the table operations translated from the source (gen/G04_onion.v)
    if ctx.extra.get("generated", {}).get("gen/G04_onion.v"):
        c04_onion_gen.evaluate(ctx, tn, GEN_IMPORTS, "g_run_hcase", "coutcome_eqb", cases, label, "hcase * coutcome",
                               "model/M05_onion_gen.vo", every=4 if ctx.quick else 1)


async def lock_building(ctx, tn, book, hops_list, r):
    """build circuits with every control event observed (creates, createds, extends at relays and exits)"""
    cs = []
    for h in hops_list:
        c = tn.origin.create_circuit(h, exit_flags=[2])
        if c is None:
            continue
        evs = []
        for _ in range(60):
            await tn.drain_c(evs)
            await tn.settle_tasks()
            if c.state == "READY" or c.circuit_id not in tn.origin.circuits:
                break
        book.add_all(evs, {"kind": "build", "hops": h})
        if c.state == "READY":
            cs.append(c)
        ctx.count(("build", h, len(cs)), nontrivial=True)
    return cs


async def _run(ctx, loop):
    r = ctx.rng("main")
    stats = {}
    # ---- 1: concurrent circuits over shared relays, lock-stepped building, interleaved traffic
    n_nets = 2 if ctx.quick else 6
    total_inter = 0
    for ni in range(n_nets):
        tn = CNet(n_relays=r.choice([3, 4]), n_exits=2, exit_flags=(2, 4, 8))
        await tn.start()
        book = Book(ctx)
        try:
            ncirc = r.choice([3, 4]) if ctx.quick else r.choice([4, 5, 6])
            circuits = await lock_building(ctx, tn, book, [r.choice([1, 2, 3]) for _ in range(ncirc)], r)
            if len(circuits) < 2:
                ctx.broke("scenario: fewer than two concurrent circuits were built")
                continue
            evs = []
            await tn.tick(loop, 6, evs)           # hand-over windows close
            book.add_all(evs, {"kind": "tick"})
            # in delivery order until every originator has used up its relay_early budget: a relay drops relay_early
            # cells that arrive after it has forwarded max_relay_early cells, so re-ordering within the first 8 cells
            # of a circuit can lose (never misdeliver) a cell
            await transfer_check(ctx, tn, book, r, circuits, {"kind": "warm-up", "net": ni}, rounds=8, pick=None)
            n_inter = 100 if ctx.quick else 300
            rounds = 0
            while rounds < n_inter:
                k = r.choice([1, 2, 3])
                ok = await transfer_check(ctx, tn, book, r, circuits, {"kind": "interleaving", "net": ni, "round": rounds},
                                          rounds=k, pick=lambda n: r.randrange(n))
                rounds += 1
                total_inter += 1
                ctx.count(("interleaving", ni, rounds), nontrivial=True)
                if not ok:
                    break
                if rounds % 25 == 0:
                    await forged_cells(ctx, tn, book, r, circuits[:2])
            stats["forged_cells"] = stats.get("forged_cells", 0) + await forged_cells(ctx, tn, book, r, circuits)
            stats["forged_known_id"] = stats.get("forged_known_id", 0) + await forged_known_id_matrix(ctx, tn, book, r, circuits)
            if book.cases:
                ctx.sample({"lockstep_case": book.cases[len(book.cases) // 2][0][:300], "meta": book.cases[len(book.cases) // 2][2]})
        finally:
            await tn.stop()
        evaluate(ctx, tn, book, "net%d" % ni)
    stats["interleavings"] = total_inter
    # ---- 2: create under an id in use
    tn = CNet(n_relays=3, n_exits=2, exit_flags=(2, 4, 8))
    await tn.start()
    book = Book(ctx)
    try:
        stats["create_in_use"] = await create_in_use(ctx, tn, loop, book, r)
    finally:
        await tn.stop()
    evaluate(ctx, tn, book, "create")
    # ---- 2a': the same at receivers of every role mix (exit sockets next to relay routes / own circuits)
    tn = CNet(n_relays=2, n_exits=3, exit_flags=(2, 4, 8))
    await tn.start()
    book = Book(ctx)
    try:
        stats["create_in_use_mixed"] = await create_in_use_mixed(ctx, tn, loop, book, r)
    finally:
        await tn.stop()
    evaluate(ctx, tn, book, "createmix")
    # ---- 2b: a forged create racing a genuine one under the same id
    tn = CNet(n_relays=3, n_exits=2, exit_flags=(2, 4, 8))
    await tn.start()
    book = Book(ctx)
    try:
        stats["create_race"] = await create_race(ctx, tn, loop, book, r)
    finally:
        await tn.stop()
    evaluate(ctx, tn, book, "race")
    # ---- 2c: stale / unknown / duplicate created at the relay of a re-extended circuit
    tn = CNet(n_relays=1, n_exits=2, exit_flags=(2, 4, 8))
    await tn.start()
    book = Book(ctx)
    try:
        stats["stale_created"] = await stale_created(ctx, tn, loop, book, r)
    finally:
        await tn.stop()
    evaluate(ctx, tn, book, "stale")
    # ---- 2d: several circuits at one exit node, first packets vs opening of the transports
    tn = CNet(n_relays=2, n_exits=1, exit_flags=(2, 4, 8))
    await tn.start()
    book = Book(ctx)
    try:
        stats["shared_exit_rounds"] = await shared_exit(ctx, tn, loop, book, r)
    finally:
        await tn.release_transports(None)
        await tn.stop()
    evaluate(ctx, tn, book, "sharedexit")
    # ---- 3: destroy matrix
    tn = CNet(n_relays=3, n_exits=2, exit_flags=(2, 4, 8))
    await tn.start()
    book = Book(ctx)
    try:
        stats["destroy_matrix"] = await destroy_matrix(ctx, tn, loop, book, r)
    finally:
        await tn.stop()
    evaluate(ctx, tn, book, "destroy")
    # ---- 3b: a created carrying a pending extend's identifier but naming another id of the relay
    books = []

    def book_of(net):
        b = Book(ctx)
        books.append((net, b))
        return b
    stats["misnamed_created"] = await misnamed_created(ctx, loop, book_of, r)
    for i, (net, b) in enumerate(books):
        if not ctx.quick or i in (0, 3):          # quick: one exit-socket and one own-circuit variant go through the models
            evaluate(ctx, net, b, "misnamed%d" % i)
    # ---- 4: forged plaintext created at a half-built circuit (oracle only)
    stats["half_built"] = await half_built(ctx, loop, r)
    ctx.extra["scenario_counts"] = stats


def in_loop(fn, *a):
    loop = VLoop()
    asyncio.set_event_loop(loop)
    try:
        with patched_time(loop):
            return loop.run_until_complete(fn(*a, loop))
    finally:
        loop.close()


class _Sink:
    quick = True

    def __init__(self):
        self.problems = []
        self.extra = {}
        self.coverage = {"traces_validated_against_impl": 0}

    def violation(self, key, what, case):
        self.problems.append((key, what))

    def broke(self, what, detail=""):
        self.problems.append(("broke", what))

    def count(self, *a, **k):
        pass

    def sample(self, *a, **k):
        pass


async def replay_case(case, loop):
    import random
    ctx = _Sink()
    r = random.Random(5)
    tn = CNet(n_relays=3, n_exits=2, exit_flags=(2, 4, 8))
    await tn.start()
    book = Book(ctx)
    try:
        kind = case.get("kind")
        if kind == "create-in-use":
            await create_in_use(ctx, tn, loop, book, r)
        elif kind == "create-in-use-mixed":
            await tn.stop()
            tn = CNet(n_relays=2, n_exits=3, exit_flags=(2, 4, 8))
            await tn.start()
            await create_in_use_mixed(ctx, tn, loop, book, r)
        elif kind == "forged-known-id":
            cs = await build(tn, [1, 2, 3])
            await transfer_check(ctx, tn, book, r, cs, case, rounds=8, pick=None)
            await forged_known_id_matrix(ctx, tn, book, r, cs)
        elif kind == "create-race":
            await create_race(ctx, tn, loop, book, r)
        elif kind == "stale-created":
            await stale_created(ctx, tn, loop, book, r)
        elif kind == "shared-exit":
            await tn.stop()
            tn = CNet(n_relays=2, n_exits=1, exit_flags=(2, 4, 8))
            await tn.start()
            await shared_exit(ctx, tn, loop, book, r)
        elif kind == "destroy":
            await destroy_matrix(ctx, tn, loop, book, r)
        elif kind == "misnamed-created":
            await misnamed_created(ctx, loop, lambda net: Book(ctx), r)
        elif kind == "half-built-created":
            await half_built(ctx, loop, r, only=case)
        else:
            cs = await build(tn, [1, 2, 3])
            for i in range(5):
                await transfer_check(ctx, tn, book, r, cs, case, rounds=2, pick=lambda n: r.randrange(n))
            await forged_cells(ctx, tn, book, r, cs)
    finally:
        await tn.stop()
    return ctx.problems


def replay(path):
    repoenv.setup()
    js = json.load(open(path))
    cases = js.get("cases") or [v["case"] for v in js.get("violations", [])]
    rc, seen = 0, set()
    for c in cases:
        k = c.get("kind")
        if k in seen:
            continue
        seen.add(k)
        probs = in_loop(replay_case, c)
        print("case", json.dumps(c)[:300])
        for key, w in probs[:6]:
            print("  STILL FAILS:", key, "::", w[:300])
            rc = 1
        if not probs:
            print("  holds now")
    for b in js.get("no_longer_checks", []):
        print("no longer checks:", b["what"], b["detail"][:300])
        rc = 1
    return rc


def run(ctx):
    for f in sorted(glob.glob(os.path.join(repoenv.VERIF, "corpus", "C05", "*.json"))):
        js = json.load(open(f))
        for c in js.get("cases", []):
            for k, w in in_loop(replay_case, c):
                ctx.violation(k, "corpus witness %s fails again: %s" % (os.path.basename(f), w), c)
            ctx.count(("corpus", os.path.basename(f), json.dumps(c, sort_keys=True)), nontrivial=True)
    ctx.proofs()
    # extension: the table operations translated from the AST (gen/G04_onion.v), theorems in props/C05x.v
    if c04_onion_gen.translate(ctx) is not None:
        ctx.proofs(part="C05x")
    ctx.coverage["trusted_base"] = c04_onion_gen.NOT_TRANSLATED + [
        "Coq 8.16.1 kernel; no axioms",
        "AEAD hypotheses as in C04 (ideal authenticity for exit_binding / keyless_is_noop)",
        "destroy messages: the signature check of lazy_wrapper is the primitive of C01 (sender = authenticated key)",
        "key agreement, payload parsing and candidate selection are oracles of the operations (C08, C02, C03)",
        "random circuit ids / cache numbers do not collide with ids in use (2^-32 each); a create does not arrive under an id this "
        "node has itself just drawn for an outgoing create (run_fresh)",
        "models M04_onion / M05_isolation are hand-written: tied to the code by this run's lockstep correspondence",
        "harness: alpha_c() abstraction (tables, request caches, scheduled removals tracked by wrapping remove_*), SimNet, virtual time; "
        "the originator's own circuit construction (its created / extended handling) is not lock-stepped",
    ]
    ctx.assumptions = ["nodes of one overlay share the 22-byte prefix", "circuit ids are 32-bit", "do_ping disabled in the harness nodes"]
    in_loop(lambda loop: _run(ctx, loop))
    ctx.coverage["rule"] = ("quick: 2 networks (3-4 relays, 2 exits) x 3-4 concurrent circuits of 1..3 hops built under observation, 100 rounds each of "
                            "tagged data both ways on all circuits at once with deliveries in random order (thorough: 6 networks, 4-6 circuits, 300 rounds); "
                            "forged cells (unknown id / garbage / other circuit's body / outsider keys) at every entry of every circuit; well-formed cells of 7 types x "
                            "plaintext flag x relay_early x 3 senders under every known id of every circuit; creates at receivers of every role mix "
                            "{exit only, relay+exit, own circuit+exit, all three, circuits only} x table holding the id x CreatedRequestCache {live, expired} x "
                            "sender {unrelated, maker of the entry}; creates under live "
                            "relay-in / relay-out / exit / own-circuit ids within and after the 60 s cache; same-id creates dispatched back-to-back with a genuine create "
                            "(first hop / extend hop x both orders); re-extended circuit + stale / unknown / duplicate created; 10 (thorough 60) rounds of 2-3 circuits of different originators at one "
                            "exit with delayed transport opening interleaved with first packets + outside replies; destroy matrix {own, other, unknown id} x {adjacent, "
                            "other member, outsider, stranger with its own key} x {signature ok, bad, key substituted} x {relay-in, relay-out, exit, circuit} x source "
                            "address {own; stranger + valid signature: adjacent hop's address spoofed, its IP on another port} + the legitimate destroys; "
                            "created with a pending extend's identifier naming {exit-socket id, own-circuit id, unknown id} of the relay x sender {extend target, outsider}; "
                            "forged plaintext created at the originator of a half-built circuit (0 / 1 verified hops) x identifier {pending, other} x key "
                            "{32 bytes unverifiable, 32 zero bytes, 31 bytes} x source {first hop, unrelated}, then the genuine answer; "
                            "every delivered datagram / timer advance is one lockstep case; distinct = distinct scenario parameters")
