"""C02 extension - the class-specific glue of the old-style payload classes.

Stage G: tr_oldstyle -> gen/G02_oldstyle.v (`__init__`, `to_pack_list`, `from_unpack_list` and their helpers of
         every shipped old-style class, translated from the AST; fail closed)
Stage P: coq/props/C02_oldstyle.v (class-level round trip on legal field values, composed with msg_roundtrip)
         - built by ctx.proofs() of whichever property file re-exports it (C02x stand-alone).
Stage C: for generated constructor arguments of every class, the real constructor, `to_pack_list()`,
         `from_unpack_list(*raw)`, `Serializer.pack_serializable` and `unpack_serializable` at an offset are
         compared with the generated Gallina functions evaluated inside Coq (coqrun.eval_mismatches).
Oracle : stated directly on the implementation: decode(encode(x)) is an instance of the same class with the same
         attributes (Python ==), consumes exactly the produced bytes, re-encodes identically; the format names of
         to_pack_list() are the class's format_list.

`stage(ctx, reg, keys)` is what tools/checks/c02.py calls; tools/checks/c02x.py runs it stand-alone."""
from __future__ import annotations

import inspect
import json
import os
import socket

from tools.tr import tr_oldstyle
from tools.vlib import coqrun, wire

IMPORTS = ("From Coq Require Import String Ascii.\nFrom Coq Require Import ZArith List Bool.\n"
           "From IPV8V Require Import lib.PyErr lib.Bytes model.M02_wire model.M02_oldstyle gen.G02_registry gen.G02_oldstyle.\n"
           "Import ListNotations.\nOpen Scope Z_scope.\n"
           "Definition reg_ := (registry_default ++ registry_overlay)%list.\n")
CONN = ["unknown", "public", "symmetric-NAT"]
EXN = {"TypeError": "TypeError", "IndexError": "IndexError", "error": "StructError", "KeyError": "KeyError",
       "AttributeError": "KeyError", "ValueError": "ValueError", "ZeroDivisionError": "ZeroDivisionError",
       "OSError": "OSError", "PackError": "PackError"}


# ------------------------------------------------------------------ Python value -> model term
def zl(b):
    return "[" + ";".join(str(x) for x in b) + "]"


def py2val(x):
    if isinstance(x, bool):
        return "(VBool %s)" % ("true" if x else "false")
    if isinstance(x, int):
        return "(VInt %s)" % (x if x >= 0 else "(%d)" % x)
    if isinstance(x, (bytes, bytearray)):
        return "(VBytes %s)" % zl(x)
    if isinstance(x, str):
        return "(VStr %s)" % zl(x.encode())
    if isinstance(x, tuple) and len(x) == 2 and isinstance(x[0], str) and type(x[1]) is int:
        for fam, ctor in ((socket.AF_INET, "A4"), (socket.AF_INET6, "A6")):
            try:
                raw = socket.inet_pton(fam, x[0])
            except OSError:
                continue
            if socket.inet_ntop(fam, raw) == x[0]:       # canonical address strings only
                return "(VAddr (%s %s %s))" % (ctor, zl(raw), x[1] if x[1] >= 0 else "(%d)" % x[1])
    if isinstance(x, tuple):
        return "(VTuple [%s])" % "; ".join(py2val(y) for y in x)
    if isinstance(x, list):
        return "(VList [%s])" % "; ".join(py2val(y) for y in x)
    raise wire.Unsupported("no model value for %r" % (x,))


def cstr(s):
    return '"%s"%%string' % s


def obj_coq(inst):
    return "(%s, [%s])" % (cstr(type(inst).__name__), "; ".join("(%s, %s)" % (cstr(k), py2val(v)) for k, v in vars(inst).items()))


def packlist_coq(pl):
    return "[%s]" % "; ".join("(%s, [%s])" % (zl(e[0].encode()), "; ".join(py2val(a) for a in e[1:])) for e in pl)


def res_coq(ctor, fn, render):
    """run fn(); the model result term `ctor (Ok ..)` / `ctor (Raise <class>)`"""
    try:
        v = fn()
    except Exception as e:   # noqa
        n = type(e).__name__
        if n not in EXN:
            raise
        return "%s (Raise %s)" % (ctor, EXN[n]), None
    return "%s (Ok %s)" % (ctor, render(v)), v


# ------------------------------------------------------------------ generators
def gen_arg(r, cls, name, ann, wide):
    if name.endswith("_address"):
        return wire.gen_addr(r, True, allow6=False)
    if name in ("advice", "supports_new_style", "intro_supports_new_style", "peer_limit_reached"):
        return r.choice([True, False, 0, 1]) if wide else r.random() < 0.5
    if name == "connection_type":
        return r.choice(CONN)
    if name == "identifier":
        if wide:     # the constructor reduces modulo 2^16
            return r.choice([-1, -65536, 65536, 65537, 2 ** 32 + 5, -2 ** 40 + 3, r.randrange(-2 ** 20, 2 ** 20), True])
        return wire.gen_int(r, 0, 65536)
    if name == "sequence_number":
        return wire.gen_int(r, 0, 65536)
    if name == "global_time":
        return wire.gen_int(r, 0, 2 ** 64)
    if name in ("attestation_hash", "challenge_hash", "introduce_to"):
        return wire.gen_bytes(r, 20)
    if name == "preference_list":
        return [wire.gen_bytes(r, 20) for _ in range(r.choice([0, 1, 2, 3, 7]))]
    if name == "tb_overlap":
        return [(wire.gen_bytes(r, 20), wire.gen_int(r, 0, 2 ** 32)) for _ in range(r.choice([0, 1, 2, 3, 6]))]
    if "bytes" in ann:
        return wire.gen_bytes(r, r.choice([0, 1, 20, 74, 300]))
    raise wire.Unsupported("no generator for %s.%s" % (cls.__name__, name))


def gen_args(r, cls, wide=False):
    sig = inspect.signature(cls.__init__)
    params = list(sig.parameters.items())[1:]
    args = [gen_arg(r, cls, n, str(p.annotation), wide) for n, p in params]
    ndef = len([1 for _, p in params if p.default is not inspect.Parameter.empty])
    if ndef and r.random() < 0.4:
        args = args[:len(args) - r.randrange(1, ndef + 1)]     # leave trailing defaults to the constructor
    return args


def jenc(x):
    if isinstance(x, (bytes, bytearray)):
        return {"b": bytes(x).hex()}
    if isinstance(x, tuple):
        return {"t": [jenc(y) for y in x]}
    if isinstance(x, list):
        return [jenc(y) for y in x]
    return x


def jdec(x):
    if isinstance(x, dict) and "b" in x:
        return bytes.fromhex(x["b"])
    if isinstance(x, dict) and "t" in x:
        return tuple(jdec(y) for y in x["t"])
    if isinstance(x, list):
        return [jdec(y) for y in x]
    return x


# ------------------------------------------------------------------ oracle on the implementation
def same_value(a, b):
    """Python equality, but never across bytes / tuple / list / str (a decoded field must keep its type)"""
    def kind(v):
        return "int" if isinstance(v, (bool, int)) else type(v).__name__ if not isinstance(v, tuple) else "tuple"
    if kind(a) != kind(b):
        return False
    if isinstance(a, (list, tuple)):
        return len(a) == len(b) and all(same_value(x, y) for x, y in zip(a, b))
    return a == b


def oracle(ctx, ser, cls, inst, data, off, nbytes, case):
    name = cls.__name__
    try:
        inst2, off2 = ser.unpack_serializable(cls, data, off)
    except Exception as e:   # noqa
        ctx.violation("decode-fails/%s" % name, "decoding an encoded %s raises %s: %s" % (name, type(e).__name__, str(e)[:120]), case)
        return None
    if type(inst2) is not cls:
        ctx.violation("class/%s" % name, "an encoded %s (msg_id %s) decodes to an instance of %s (msg_id %s)" % (
            name, getattr(cls, "msg_id", None), type(inst2).__name__, getattr(type(inst2), "msg_id", None)), case)
    v1, v2 = vars(inst), vars(inst2)
    diff = [k for k in sorted(set(v1) | set(v2)) if k not in v1 or k not in v2 or not same_value(v1[k], v2[k])]
    if diff:
        ctx.violation("fields/%s/%s" % (name, ",".join(diff[:3])), "%s: field(s) %s differ after decode: %r -> %r" % (
            name, diff, [v1.get(k) for k in diff][:2], [v2.get(k) for k in diff][:2]), case)
    if off2 != off + nbytes:
        ctx.violation("offset/%s" % name, "%s encoded to %d bytes at offset %d but decode reports end %d" % (name, nbytes, off, off2), case)
    try:
        if ser.pack_serializable(inst2) != data[off:off + nbytes]:
            ctx.violation("reencode/%s" % name, "%s: re-encoding the decoded message gives different bytes" % name, case)
    except Exception as e:   # noqa
        ctx.violation("reencode-fails/%s" % name, "re-encoding raises %s" % type(e).__name__, case)
    return inst2, off2


def wire_oracle(ctx, ser, cls, data, off, nbytes, case):
    """bytes -> instance -> bytes is the identity on a well-formed encoding, with the exact end offset"""
    name = cls.__name__
    try:
        inst, off2 = ser.unpack_serializable(cls, data, off)
    except Exception as e:   # noqa
        ctx.violation("wire-decode-fails/%s" % name, "decoding a well-formed %s raises %s: %s" % (name, type(e).__name__, str(e)[:120]), case)
        return None
    if type(inst) is not cls:
        ctx.violation("class/%s" % name, "a well-formed %s decodes to an instance of %s" % (name, type(inst).__name__), case)
    if off2 != off + nbytes:
        ctx.violation("offset/%s" % name, "%s of %d bytes at offset %d: decode reports end %d" % (name, nbytes, off, off2), case)
    try:
        again = ser.pack_serializable(inst)
        if again != data[off:off + nbytes]:
            ctx.violation("wire-reencode/%s" % name, "%s: a well-formed message %s decodes to fields that re-encode to %s" % (
                name, data[off:off + nbytes].hex()[:80], again.hex()[:80]), case)
    except Exception as e:   # noqa
        ctx.violation("wire-reencode-fails/%s" % name, "re-encoding a decoded well-formed %s raises %s" % (name, type(e).__name__), case)
    return inst, off2


# ------------------------------------------------------------------ the stage
def replay_corpus(ctx, pid="C02x"):
    """Stage 0: witnesses of every defect ever found in the glue, replayed through the oracle."""
    import importlib
    from tools.vlib import repoenv
    d = os.path.join(repoenv.VERIF, "corpus", pid)
    ser = wire.make_serializer()
    n = 0
    for f in sorted(os.listdir(d)) if os.path.isdir(d) else []:
        if not f.endswith(".json"):
            continue
        for v in json.load(open(os.path.join(d, f))).get("violations", []):
            c = v["case"]
            mod, _, name = c["cls"].rpartition(".")
            cls = getattr(importlib.import_module(mod), name)
            inst = cls(*jdec(c["args"]))
            bs = ser.pack_serializable(inst)
            pl = inst.to_pack_list()
            if [e[0] for e in pl] != list(cls.format_list):
                ctx.violation("packlist-formats/%s" % name, "corpus %s: format names %r" % (f, [e[0] for e in pl]), c)
            for pre in (b"", b"\x00" * 23):
                oracle(ctx, ser, cls, inst, pre + bs, len(pre), len(bs), dict(c, data=(pre + bs).hex(), offset=len(pre), nbytes=len(bs)))
            n += 1
    ctx.extra["oldstyle_corpus_replayed"] = n


def translate(ctx):
    """Stage G. Returns the generated text, or None after reporting the abort."""
    try:
        text = tr_oldstyle.write()
        ctx.extra.setdefault("generated", {})["gen/G02_oldstyle.v"] = len(text)
        return text
    except Exception as e:   # fail closed
        ctx.broke("translator tr_oldstyle aborted", repr(e))
        return None


def stage(ctx, reg=None, keys=None, text="unset", corpus=True):
    """Corpus replay + correspondence + oracle for the old-style classes, self-contained:
    `reg`: wire.registry(ser) (recomputed when None); `keys` is unused (no old-style class carries a key object);
    `text`: result of an earlier translate(ctx) - when omitted the translator is run here, and because the caller's
    ctx.proofs() may then have been built against an older gen file, props/C02_oldstyle.vo is (re)built here too."""
    from ipv8.messaging.serialization import PackError
    if corpus:
        replay_corpus(ctx)
    if text == "unset":
        text = translate(ctx)
    ser = wire.make_serializer()
    reg = reg or wire.registry_for_harness(ctx, ser)
    r = ctx.rng("oldstyle")
    classes = tr_oldstyle.old_classes()
    N = 30 if ctx.quick else 300
    cases = []           # (case term, expected term, description)
    per_class = {}
    for cls in classes:
        cname = cls.__name__
        K = "%s_class" % cname
        fmts = wire.class_fmts(cls, reg)
        ends_raw = bool(fmts) and fmts[-1][0] == "raw"
        for i in range(N):
            wide = i % 5 == 4
            args = gen_args(r, cls, wide)
            case = {"kind": "oldstyle", "cls": cls.__module__ + "." + cname, "args": jenc(args)}
            desc = json.dumps(case)[:1200]
            # (1) constructor
            exp, inst = res_coq("RObj", lambda: cls(*args), obj_coq)
            cases.append(("CNew %s [%s]" % (K, "; ".join(py2val(a) for a in args)), exp, ("new", desc)))
            if inst is None:
                ctx.violation("construct-fails/%s" % cname, "%s(*%r) raises" % (cname, args), case)
                continue
            x = obj_coq(inst)
            # (2) to_pack_list
            exp, pl = res_coq("RPack", inst.to_pack_list, packlist_coq)
            cases.append(("CPack %s %s" % (K, x), exp, ("to_pack_list", desc)))
            if pl is not None and [e[0] for e in pl] != list(cls.format_list):
                ctx.violation("packlist-formats/%s" % cname, "%s.to_pack_list() names formats %r, format_list is %r" % (
                    cname, [e[0] for e in pl], cls.format_list), case)
            # (3) encode through the real serializer
            try:
                bs = ser.pack_serializable(inst)
            except PackError as e:
                ctx.violation("pack-refused/%s" % cname, "legal instance cannot be packed: %s" % str(e)[:200], case)
                cases.append(("CEncode reg_ %s %s" % (K, x), "RBytes (Raise PackError)", ("encode", desc)))
                continue
            ctx.count(("oldstyle", cname, bs, wide), nontrivial=len(bs) > 0)
            per_class[cname] = per_class.get(cname, 0) + 1
            cases.append(("CEncode reg_ %s %s" % (K, x), "RBytes (Ok %s)" % zl(bs), ("encode", desc)))
            pre = r.randbytes(r.choice([0, 23, 1, 9]))
            suf = b"" if ends_raw else r.randbytes(r.choice([0, 0, 3]))
            data = pre + bs + suf
            case = dict(case, data=data.hex(), offset=len(pre), nbytes=len(bs))
            desc = json.dumps(case)[:1600]
            # (4) from_unpack_list on the raw unpack list the real packers produce
            raw, _ = ser.unpack_serializable(wire.shim(cls), data, len(pre))
            exp, _ = res_coq("RObj", lambda: cls.from_unpack_list(*raw.args), obj_coq)
            cases.append(("CUnpack %s [%s]" % (K, "; ".join(py2val(a) for a in raw.args)), exp, ("from_unpack_list", desc)))
            if i == 0:   # arity errors are part of the translated glue
                short = list(raw.args)[:-1]
                exp, _ = res_coq("RObj", lambda: cls.from_unpack_list(*short), obj_coq)
                cases.append(("CUnpack %s [%s]" % (K, "; ".join(py2val(a) for a in short)), exp, ("from_unpack_list/arity", desc)))
            # (5) decode through the real serializer + the oracle
            got = oracle(ctx, ser, cls, inst, data, len(pre), len(bs), case)
            if got is not None:
                cases.append(("CDecode reg_ %s %s %d%%nat" % (K, zl(data), len(pre)),
                              "RDec (Ok (%s, %d%%nat))" % (obj_coq(got[0]), got[1]), ("decode", desc)))
            else:
                cases.append(("CDecode reg_ %s %s %d%%nat" % (K, zl(data), len(pre)), "RDec (Raise PackError)", ("decode", desc)))
            # (6) from the wire side: a well-formed message carrying a boundary integer (as another peer may send it)
            #     must decode and re-encode to the same bytes - also reaches values the local constructor never stores
            if i % 3 == 0 and pl is not None:
                for j, f in enumerate(fmts):
                    if not (f[0] == "struct" and len(f[1]) == 1 and f[1][0][0] == "U"):
                        continue
                    for val in (0, 256 ** f[1][0][1] - 1):
                        pl2 = list(pl)
                        pl2[j] = (pl[j][0], val)
                        bs2 = b"".join(ser._packers[e[0]].pack(*e[1:]) for e in pl2)
                        data2 = pre + bs2 + suf
                        wcase = {"kind": "oldstyle-wire", "cls": cls.__module__ + "." + cname, "data": data2.hex(),
                                 "offset": len(pre), "nbytes": len(bs2)}
                        got2 = wire_oracle(ctx, ser, cls, data2, len(pre), len(bs2), wcase)
                        ctx.count(("oldstyle-wire", cname, bs2), nontrivial=True)
                        if got2 is not None:
                            cases.append(("CDecode reg_ %s %s %d%%nat" % (K, zl(data2), len(pre)),
                                          "RDec (Ok (%s, %d%%nat))" % (obj_coq(got2[0]), got2[1]), ("decode/wire", json.dumps(wcase)[:1600])))
            if i < 1 and cname in ("IntroductionRequestPayload", "SimilarityResponsePayload"):
                ctx.sample({"class": cname, "args": repr(args)[:160], "bytes": bs.hex()[:80], "offset": len(pre)}, limit=8)
    ctx.extra["oldstyle_classes"] = len(classes)
    ctx.extra["oldstyle_instances_per_class_min"] = min(per_class.values()) if per_class else 0
    ctx.extra["oldstyle_cases"] = len(cases)
    if text is None:
        return
    ok, log, cmd, dt = coqrun.make(["props/C02_oldstyle.vo"])
    ctx.extra["oldstyle_proofs_built"] = ok
    if not ok:
        import re
        m = re.search(r'File "\./([^"]+)", line (\d+)', log)
        ctx.broke("proof obligation failed (old-style glue): %s" % ("%s:%s" % (m.group(1), m.group(2)) if m else "build"), log[-3000:])
        ok, log, cmd, dt = coqrun.make(["gen/G02_oldstyle.vo", "gen/G02_registry.vo"])
        if not ok:
            ctx.broke("generated glue gen/G02_oldstyle.v does not compile", log[-3000:])
            return
    mism, errs = coqrun.eval_mismatches(IMPORTS, "run_ocase", "oresult_eqb", [(c, e) for c, e, _ in cases],
                                        os.path.join(ctx.scratch, "oldstyle"), ctype="ocase * oresult", shard=150, jobs=14)
    for e in errs:
        ctx.broke("model evaluation failed (oldstyle)", e)
    kinds = {}
    for i in mism:
        k = cases[i][2][0]
        kinds[k] = kinds.get(k, 0) + 1
        if kinds[k] <= 3:
            ctx.broke("correspondence (oldstyle/%s): translated glue and implementation differ" % k,
                      cases[i][2][1] + "\ncase: " + cases[i][0][:900] + "\nimplementation: " + cases[i][1][:900])
    ctx.coverage["traces_validated_against_impl"] += len(cases) - len(mism)
    ctx.extra["oldstyle_mismatches"] = len(mism)
    ctx.coverage["trusted_base"] = list(ctx.coverage["trusted_base"]) + [
        "tools/tr/tr_oldstyle.py: Python AST of the old-style payload glue -> Gallina (fail closed); run-time library "
        "coq/model/M02_oldstyle.v (Python operations on `val`), tied by this run's correspondence on generated instances"]


def replay_case(c, ser=None):
    """re-run one recorded old-style witness on the implementation; returns 1 if it still fails"""
    import importlib
    ser = ser or wire.make_serializer()
    mod, _, name = c["cls"].rpartition(".")
    cls = getattr(importlib.import_module(mod), name)

    class Rec:
        def __init__(self):
            self.v = []

        def violation(self, key, what, case):
            self.v.append((key, what))
    rec = Rec()
    if c.get("kind") == "oldstyle-wire":
        data = bytes.fromhex(c["data"])
        wire_oracle(rec, ser, cls, data, c["offset"], c["nbytes"], c)
        print("  %s bytes %s at offset %d" % (name, data.hex()[:120], c["offset"]))
        for k, w in rec.v:
            print("  STILL FAILS:", k, "::", w)
        if not rec.v:
            print("  decodes and re-encodes to the same bytes, exact end offset")
        return 1 if rec.v else 0
    args = jdec(c["args"])
    inst = cls(*args)
    pl = inst.to_pack_list()
    if [e[0] for e in pl] != list(cls.format_list):
        rec.v.append(("packlist-formats/%s" % name, "format names %r" % [e[0] for e in pl]))
    bs = ser.pack_serializable(inst)
    off = c.get("offset", 0)
    data = bytes.fromhex(c["data"]) if "data" in c else bs
    if "data" in c and data[off:off + len(bs)] != bs:
        print("  (the recorded bytes are no longer what the instance encodes to; using the current encoding)")
        data, off = bs, 0
    oracle(rec, ser, cls, inst, data, off, len(bs), c)
    print("  %s(*%r)" % (name, args))
    print("  encodes to", bs.hex()[:120])
    for k, w in rec.v:
        print("  STILL FAILS:", k, "::", w)
    if not rec.v:
        print("  decodes to the same class and fields, exact end offset, identical re-encoding")
    return 1 if rec.v else 0
