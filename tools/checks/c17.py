"""C17 - identity attestations and token disclosure require the owner's consent.

Stage 0: replay corpus/C17/*.json (scripts) against the implementation through the oracle.
Stage G: the primary key of table Attestations is read from the live schema (IdentityDatabase.get_schema run in
         SQLite): it decides the model parameter `wide` (props/C17.v is stated for the repaired key
         (public_key, authority_key, metadata_pointer)).
Stage P: props/C17.v.
Stage C: histories of user operations (add_known_hash, request_attestation_advertisement, self_advertise) and of
         authenticated datagrams from honest and dishonest peers are run on a REAL IdentityCommunity node
         (in-memory database, deterministic curve25519 keys, patched clock) whose peers are real
         IdentityCommunity nodes too (their packets are captured, replayed, altered, re-sent under another key).
         The same history, decoded by this harness into the model's events, is run through
         coq/model/M17_consent.v inside Coq; outputs, exception class, rows of Attestations / Metadata, every
         pseudonym tree, permissions, chain and consent table are compared after every event.
         SHA3-256, signature validity, the node's own signatures and json.loads enter the model as per-history
         tables computed here with hashlib / ECCrypto / json directly.  Digests, signatures, keys and JSON
         documents are renamed to short codes by an injective per-sort renaming applied consistently to events,
         tables and observations (the model is parametric in the widths).
Oracle : an independent Python statement of the property on what the implementation did (raw packets leaving
         the node, rows of its database), using only hashlib, the key vault and the script:
         every attestation sent has consent (latest registration of the token's attribute hash: subject, name,
         fixed metadata, < 300 s), a verifying chain presented by that subject, is validly signed, and is the
         first for that metadata; every stored attestation is validly signed by its authority, and rows stored
         for an Attest message name its sender; tokens leave only within the index the user opened.
"""
from __future__ import annotations

import glob
import hashlib
import json
import multiprocessing
import os
import struct

from tools.vlib import coqrun
from tools.vlib.repoenv import VERIF

IMPORTS = ("From Coq Require Import ZArith List Bool.\n"
           "From IPV8V Require Import lib.PyErr lib.Bytes model.M16_lits model.M16_tokentree model.M17_consent.\n"
           "Import ListNotations.\nOpen Scope Z_scope.\n")
IMPORTS_GEN = IMPORTS.replace("model.M17_consent.", "model.M17_consent model.M17_run_gen.")
CORPUS = os.path.join(VERIF, "corpus", "C17")


def translate(ctx):
    """stage G: the consent functions translated from the AST (gen/G17_consent.v); returns the generated text or
    None (reported as broken; the stale file is removed so that nothing is proved or evaluated against it)"""
    from tools.tr import tr_consent
    try:
        text = tr_consent.write()
        ctx.extra.setdefault("generated", {})["gen/G17_consent.v"] = len(text)
        return text
    except Exception as e:   # noqa: BLE001  tr_expr.Unsupported or anything else: fail closed
        ctx.broke("translator tr_consent aborted", e)
        for ext in (".v", ".vo", ".vos", ".vok", ".glob"):
            try:
                os.remove(tr_consent.DEST[:-2] + ext)
            except OSError:
                pass
        return None
BASE = 1700000000.0
NPEERS = 4
SIG = 64


def sha3(b: bytes) -> bytes:
    return hashlib.sha3_256(b).digest()


# ---------------------------------------------------------------------------- Coq literals
def zid(n: int) -> str:
    if 0 <= n < 1024:
        return "z%d" % n
    return "(%d)" % n


def nid(n: int) -> str:
    return "n%d" % n if 0 <= n < 256 else "%d%%nat" % n


def zl(b) -> str:
    return "[" + ";".join(zid(x) for x in b) + "]"


def cl(items) -> str:
    return "[" + "; ".join(items) + "]"


class Intern:
    """injective renaming of real byte strings to short codes, one name space per sort.  Codes of different
    sorts of the same width start with different bytes, so that concatenations of codes (token plaintext =
    digest+digest, metadata plaintext = digest+json, ...) are renamed injectively as well."""
    WIDTH = {"H": 2, "S": 2, "K": 1, "J": 2, "V": 1, "H20": 20}
    BASE = {"H": 0, "S": 64 * 256, "J": 128 * 256, "K": 0, "V": 0, "H20": int.from_bytes(bytes([250] * 18 + [0, 0]), "big")}
    ROOM = {"H": 64 * 256, "S": 64 * 256, "J": 64 * 256, "K": 256, "V": 256, "H20": 256 ** 2}

    def __init__(self):
        self.t = {}

    def get(self, sort, b) -> tuple:
        d = self.t.setdefault(sort, {})
        if b not in d:
            i = len(d) + 1
            if i >= self.ROOM[sort]:
                raise RuntimeError("renaming overflow")
            d[b] = tuple((self.BASE[sort] + i).to_bytes(self.WIDTH[sort], "big"))
        return d[b]

    def force(self, sort, b, code):
        """give b the code `code` (a 20-byte hash keeps its length and its padded form is the real prefix followed
        by that code, so that the translated pad_hash and the renaming agree)"""
        d = self.t.setdefault(sort, {})
        if d.get(b, tuple(code)) != tuple(code):
            raise RuntimeError("renaming conflict")
        d[b] = tuple(code)
        return d[b]


def canon(v):
    """canonical rendering of a JSON value such that Python's == coincides with equality of renderings
    (for the values this check generates: str, small numbers, bool, None, lists, dicts)"""
    if isinstance(v, bool) or isinstance(v, (int, float)):
        return "n" + repr(float(v))
    if isinstance(v, str):
        return "s" + v
    if v is None:
        return "z"
    if isinstance(v, list):
        return "l[" + ",".join(canon(x) for x in v) + "]"
    if isinstance(v, dict):
        return "d{" + ",".join(sorted(canon(k) + ":" + canon(x) for k, x in v.items())) + "}"
    raise TypeError(v)


def attr_hash(i) -> bytes:
    """attribute hashes are named by small integers in scripts; 100+ are 20-byte (SHA-1 style) hashes"""
    if i >= 100:
        return hashlib.sha1(b"attribute-%d" % i).digest()
    return sha3(b"attribute-%d" % i)


def pad20(h: bytes) -> bytes:
    return b"SHA-1\x00\x00\x00\x00\x00\x00\x00" + h if len(h) == 20 else h


EXN = {"error": 10, "KeyError": 11, "ValueError": 13, "JSONDecodeError": 13, "UnicodeDecodeError": 13,
       "AttributeError": 14, "TypeError": 14, "RuntimeError": 15}


# ---------------------------------------------------------------------------- independent wire decoding
def outer(data: bytes, crypto):
    """(authentic, sender key bytes, message id, payload bytes) of a signed overlay datagram; key vault only"""
    if len(data) < 25 + SIG:
        return False, None, None, b""
    mid = data[22]
    klen = struct.unpack(">H", data[23:25])[0]
    kb = data[25:25 + klen]
    if len(kb) != klen or len(data) < 25 + klen + SIG:
        return False, kb, mid, b""
    try:
        key = crypto.key_from_public_bin(kb)
    except Exception:   # noqa
        return False, kb, mid, b""
    ok = bool(crypto.is_valid_signature(key, data[:-SIG], data[-SIG:]))
    return ok, kb, mid, data[25 + klen:-SIG]


def varlens(body: bytes, n: int):
    out, off = [], 0
    for _ in range(n):
        ln = struct.unpack(">H", body[off:off + 2])[0]
        out.append(body[off + 2:off + 2 + ln])
        off += 2 + ln
    return out


def split_tokens(b: bytes):
    """chunks as TokenTree.unserialize_public reads them: (list of (prev, chash, sig), partial tail?)"""
    toks = []
    for i in range(0, len(b), 64 + SIG):
        ch = b[i:i + 64 + SIG]
        if len(ch) < 64 + SIG:
            return toks, True
        toks.append((ch[:32], ch[32:64], ch[64:]))
    return toks, False


def split_metadata(b: bytes):
    """as IdentityManager.substantiate reads the metadata area"""
    mds, off = [], 0
    while off < len(b):
        if len(b) - off < 4:
            return mds, True
        ln = struct.unpack(">I", b[off:off + 4])[0]
        d = b[off + 4:off + 4 + ln]
        mds.append((d[:32], d[32:-SIG], d[-SIG:]))
        off += 4 + ln
    return mds, False


def split_attestations(att_b: bytes, auth_b: bytes, crypto):
    atts, a_off, au_off = [], 0, 0
    while au_off < len(auth_b):
        if len(auth_b) - au_off < 2:
            return atts, True
        ln = struct.unpack(">H", auth_b[au_off:au_off + 2])[0]
        kb = auth_b[au_off + 2:au_off + 2 + ln]
        try:
            crypto.key_from_public_bin(kb)
        except Exception:   # noqa
            return atts, True
        au_off += 2 + ln
        if len(att_b) - a_off < 32 + SIG:
            return atts, True
        atts.append((kb, att_b[a_off:a_off + 32], att_b[a_off + 32:a_off + 32 + SIG]))
        a_off += 32 + SIG
    return atts, False


# ---------------------------------------------------------------------------- the world of one history
class World:
    """One node under test (index 0) and NPEERS peer nodes, all real IdentityCommunity overlays on a SimNet
    whose queue is never pumped automatically: the script decides what is delivered to whom."""

    def __init__(self, label="w"):
        from tools.vlib import simnet
        from ipv8.attestation.identity import community as com
        from ipv8.attestation.identity.manager import IdentityManager
        from ipv8.keyvault.crypto import ECCrypto
        self.com = com
        self.crypto = ECCrypto()
        self.clock = 1000
        com.time = lambda: BASE + self.clock
        self.net = simnet.SimNet()
        self.nodes = []
        for i in range(NPEERS + 1):
            seed = hashlib.sha512(b"c17-key-%d" % i).digest()
            key = self.crypto.key_from_private_bin(b"LibNaCLSK:" + seed)
            ep = self.net.endpoint(("10.0.0.%d" % (i + 1), 1000 + i))
            ov = simnet.make_overlay(com.IdentityCommunity, ep, key=key, identity_manager=IdentityManager(":memory:"))
            self.nodes.append(ov)
        self.N = self.nodes[0]
        self.keys = [ov.my_peer.public_key.key_to_bin() for ov in self.nodes]
        self.addr = [ov.endpoint.addr for ov in self.nodes]
        self.by_addr = {a: i for i, a in enumerate(self.addr)}
        self.me = self.keys[0]
        self.raised = []
        for mid in (1, 2, 3, 4):
            self._wrap(mid)
        self.mark = 0
        self.inbox = []        # datagrams addressed to the node under test, held back: (src index, data)
        self.outbox = []       # datagrams the node under test sent: (dst index, data)
        self.vcache = {}
        # model side
        self.I = Intern()
        self.htbl, self.vtbl, self.stbl, self.ptbl, self.ntbl = {}, set(), {}, {}, {}
        self.events = []       # Coq terms "(time, event)"
        self.expected = []     # Coq terms of eobs
        for k in self.keys:
            self.reg_key(k)
        for i in range(100, 104):        # the 20-byte attribute hashes scripts may use: fix their codes up front
            hb = attr_hash(i)
            self.I.force("H", pad20(hb), tuple(b"SHA-1\x00\x00\x00\x00\x00\x00\x00") + self.I.get("H20", hb))
        # oracle side (script level and raw packets only)
        self.regs = {}         # padded attribute hash -> (name, time, key, metadata)
        self.presented = {i: {"tok": {}, "md": {}} for i in range(NPEERS + 1)}   # by authenticated sender
        self.attested = set()
        self.opened = {}       # peer index -> chain length at the user's last advertisement to it
        self.att_senders = []  # (sender key, attestation bytes) of authentic Attest messages delivered
        self.rows_seen = set()
        self.last_msg = ([], [])
        self.bad = []          # (key, what)
        self.stats = {"events": 0, "attests": 0, "rejects": 0, "dropped": 0, "raised": 0, "tokens_out": 0,
                      "stored": 0, "kinds": {}}

    def _wrap(self, mid):
        h = self.N.decode_map[mid]

        def w(addr, data, _h=h):
            try:
                return _h(addr, data)
            except Exception as e:   # noqa
                self.raised.append(type(e).__name__)
                raise
        self.N.decode_map[mid] = w

    async def close(self):
        for ov in self.nodes:
            await ov.unload()
            ov.identity_manager.database.close()

    def peer(self, i):
        from ipv8.peer import Peer
        return Peer(self.nodes[i].my_peer.public_key, self.addr[i])

    # ---- crypto tables -----------------------------------------------------------------------------
    def verify(self, kb, msg, sg) -> bool:
        k = (kb, msg, sg)
        if k not in self.vcache:
            try:
                self.vcache[k] = bool(self.crypto.is_valid_signature(self.crypto.key_from_public_bin(kb), msg, sg))
            except Exception:   # noqa
                self.vcache[k] = False
        return self.vcache[k]

    def H(self, b): return self.I.get("H", b)
    def S(self, b): return self.I.get("S", b)
    def K(self, b): return self.I.get("K", b)
    def J(self, b): return self.I.get("J", b)
    def V(self, v): return self.I.get("V", canon(v).encode())

    def reg_key(self, kb):
        self.htbl[self.K(kb)] = self.H(sha3(kb))

    def mysig(self, msg):
        return self.N.my_peer.key.signature(msg)

    def reg_tok(self, t, keys):
        """t = (prev, chash, sig) real; keys: key bytes under which the model may verify it"""
        a = self.H(t[0]) + self.H(t[1])
        s = self.S(t[2])
        self.htbl[a + s] = self.H(sha3(t[0] + t[1] + t[2]))
        for kb in keys:
            if self.verify(kb, t[0] + t[1], t[2]):
                self.vtbl.add((self.K(kb), a, s))
        return "(mkToken %s %s %s None)" % (zl(self.H(t[0])), zl(self.H(t[1])), zl(s))

    def reg_md(self, m, keys):
        """m = (tptr, json, sig) real"""
        a = self.H(m[0]) + self.J(m[1])
        s = self.S(m[2])
        h = sha3(m[0] + m[1] + m[2])
        self.htbl[a + s] = self.H(h)
        for kb in keys:
            if self.verify(kb, m[0] + m[1], m[2]):
                self.vtbl.add((self.K(kb), a, s))
        if self.J(m[1]) not in self.ptbl:
            self.ptbl[self.J(m[1])] = self.parse(m[1])
        # the node's own attestation over this metadata, should it make one
        sg = self.mysig(h)
        self.stbl[self.H(h)] = self.S(sg)
        if self.verify(self.me, h, sg):
            self.vtbl.add((self.K(self.me), self.H(h), self.S(sg)))
        return "(mkMd %s %s %s)" % (zl(self.H(m[0])), zl(self.J(m[1])), zl(s))

    def reg_att(self, a, keys):
        """a = (mptr, sig) real"""
        for kb in keys:
            if self.verify(kb, a[0], a[1]):
                self.vtbl.add((self.K(kb), self.H(a[0]), self.S(a[1])))
        return "(mkAtt %s %s)" % (zl(self.H(a[0])), zl(self.S(a[1])))

    def parse(self, jb):
        try:
            d = json.loads(jb)
        except ValueError:
            return "JBad"
        if not isinstance(d, dict):
            return "JNotDict"
        return "(JDict %s)" % self.kvs(d)

    def kvs(self, d):
        return cl("(%s, %s)" % (zl(k.encode()), zl(self.V(v))) for k, v in d.items())

    # ---- observation of the node under test ----------------------------------------------------------
    def enc_b(self, code):
        return [len(code)] + list(code)

    def enc_tok(self, t):
        return self.enc_b(self.H(t[0])) + self.enc_b(self.H(t[1])) + self.enc_b(self.S(t[2]))

    def enc_md(self, m):
        return self.enc_b(self.H(m[0])) + self.enc_b(self.J(m[1])) + self.enc_b(self.S(m[2]))

    def enc_ls(self, f, l):
        out = [len(l)]
        for x in l:
            out += f(x)
        return out

    @staticmethod
    def tok3(t):
        return (t.previous_token_hash, t.content_hash, t.signature)

    def new_packets(self):
        out = []
        for src, dst, data in self.net.log[self.mark:]:
            si, di = self.by_addr.get(src), self.by_addr.get(tuple(dst[:2]))
            if si == 0:
                out.append((di, data))
                self.outbox.append((di, data))
            elif di == 0:
                self.inbox.append((si, data))
        self.mark = len(self.net.log)
        self.net.queue.clear()
        return out

    def pump_peers(self, limit=50):
        """deliver what peers sent to other peers (never to / from the node under test)"""
        steps = 0
        while steps < limit:
            pending = []
            for src, dst, data in self.net.log[self.mark:]:
                si, di = self.by_addr.get(src), self.by_addr.get(tuple(dst[:2]))
                if si == 0:
                    self.outbox.append((di, data))
                elif di == 0:
                    self.inbox.append((si, data))
                elif di is not None:
                    pending.append((src, di, data))
            self.mark = len(self.net.log)
            self.net.queue.clear()
            if not pending:
                break
            for src, di, data in pending:
                self.nodes[di].endpoint.inject(src, data)
                steps += 1

    def db_rows(self):
        db = self.N.identity_manager.database
        att = list(db.execute("SELECT public_key, authority_key, metadata_pointer, signature FROM Attestations "
                              "ORDER BY rowid", fetch_all=True) or [])
        md = list(db.execute("SELECT public_key, token_pointer, serialized_json_dict, signature FROM Metadata "
                             "ORDER BY rowid", fetch_all=True) or [])
        return [tuple(bytes(x) for x in r) for r in att], [tuple(bytes(x) for x in r) for r in md]

    def observe(self, sent, kind):
        """the expected eobs term after one event of the node under test, from the real objects"""
        N = self.N
        attests, others = [], []
        for di, data in sent:
            ok, kb, mid, body = outer(data, self.crypto)
            pk = self.K(self.keys[di]) if di is not None else (0,)
            if mid == 2:
                ab = varlens(body, 1)[0]
                attests.append([1] + self.enc_b(pk) + self.enc_b(self.H(ab[:32])) + self.enc_b(self.S(ab[32:])))
            elif mid == 3:
                others.append([2] + self.enc_b(pk) + [struct.unpack(">I", body[:4])[0]])
            elif mid == 4:
                toks, _ = split_tokens(body)
                others.append([3] + self.enc_b(pk) + self.enc_ls(self.enc_tok, toks))
            elif mid == 1:
                mdb, tb, _ab, _aub = varlens(body, 4)
                mds, _ = split_metadata(mdb)
                toks, _ = split_tokens(tb)
                chain = [self.tok3(t) for t in N.token_chain]
                hashes = [t.get_hash() for t in N.token_chain]
                idx = hashes.index(mds[0][0])
                path = list(reversed(chain[:idx + 1]))
                others.append([4] + self.enc_b(pk) + self.enc_md(mds[0]) + self.enc_ls(self.enc_tok, path) + [len(toks)])
        code = EXN.get(self.raised[-1], 19) if self.raised else 0
        att_rows, md_rows = self.db_rows()
        ra = [self.enc_b(self.K(r[0])) + self.enc_b(self.K(r[1])) + self.enc_b(self.H(r[2])) + self.enc_b(self.S(r[3]))
              for r in att_rows]
        rm = [self.enc_b(self.K(r[0])) + self.enc_b(self.H(r[1])) + self.enc_b(self.J(r[2])) + self.enc_b(self.S(r[3]))
              for r in md_rows]
        rest = [len(N.identity_manager.pseudonyms)]
        for kb, pm in N.identity_manager.pseudonyms.items():
            rest += self.enc_b(self.K(kb))
            rest += self.enc_ls(self.enc_tok, [self.tok3(t) for t in pm.tree.elements.values()])
            rest += self.enc_ls(self.enc_tok, [self.tok3(t) for t in pm.tree.unchained])
        # permissions: NOT read from the node (their representation is internal); the model's table is compared
        # with this harness' own reference of "chain length at the user's last advertisement to that peer"
        # (first-opening order), and what the node really hands out is judged on its MissingResponse / Disclose
        # packets by the oracle
        rest += self.enc_ls(lambda kv: self.enc_b(self.K(self.keys[kv[0]])) + [kv[1]], list(self.opened.items()))
        rest += self.enc_ls(self.enc_tok, [self.tok3(t) for t in N.token_chain])
        rest += self.enc_ls(lambda kv: self.enc_b(self.hcode(kv[0])) + self.enc_b(self.V(kv[1][0]))
                            + [int(kv[1][1] - BASE)] + self.enc_b(self.K(kv[1][2])),
                            list(N.known_attestation_hashes.items()))
        ll = lambda rows: cl(zl(r) for r in rows)   # noqa
        self.expected.append("(%s, %s, %s, %s, %s, %s)" % (ll(attests), ll(others), zid(code), ll(ra), ll(rm), zl(rest)))
        self.stats["events"] += 1
        self.stats["kinds"][kind] = self.stats["kinds"].get(kind, 0) + 1
        if self.raised:
            self.stats["raised"] += 1
        return att_rows

    def hcode(self, h):
        return self.H(h)

    # ---- oracle ----------------------------------------------------------------------------------------
    def viol(self, key, what):
        self.bad.append((key, what))

    def oracle_outputs(self, sent, trigger):
        """trigger: (kind, sender index or None, extra)"""
        kind, sender, extra = trigger
        chain = [t.get_plaintext_signed() for t in self.N.token_chain]
        for di, data in sent:
            ok, kb, mid, body = outer(data, self.crypto)
            if not ok or kb != self.me:
                self.viol("output/not-signed-by-node", "datagram to %r is not validly signed by the node" % (di,))
                continue
            if mid == 2:
                self.stats["attests"] += 1
                self.oracle_attest(di, varlens(body, 1)[0], kind, sender)
            elif mid == 4 or mid == 1:
                tb = body if mid == 4 else varlens(body, 4)[1]
                toks, _ = split_tokens(tb)
                self.stats["tokens_out"] += len(toks)
                lim = self.opened.get(di, 0)
                for t in toks:
                    raw = t[0] + t[1] + t[2]
                    if raw not in chain:
                        self.viol("tokens/not-own-chain", "a token sent to peer %r is not of the node's chain" % (di,))
                    elif chain.index(raw) >= lim:
                        self.viol("tokens/unpermitted-peer" if lim == 0 else "tokens/beyond-permission",
                                  "token at chain index %d sent to peer %d, whom the user opened %d token(s)"
                                  % (chain.index(raw), di, lim))
                    elif mid == 4 and chain.index(raw) < extra:
                        self.viol("tokens/below-known", "token at index %d sent although the peer knows %d"
                                  % (chain.index(raw), extra))
                if mid == 4 and (kind != "reqm" or sender != di):
                    self.viol("tokens/unrequested", "missing-response to %r without a request from it" % (di,))
                if mid == 1 and kind != "nadv":
                    self.viol("tokens/unrequested-disclosure", "disclosure to %r not asked for by the user" % (di,))

    def rooted(self, di, t):
        """token t (as presented by peer di) is validly signed and connected to the peer's genesis through validly
        signed tokens that peer has presented so far"""
        p = self.keys[di]
        toks = self.presented[di]["tok"]
        genesis, cur, steps = sha3(p), t, 0
        while steps <= len(toks) + 1:
            if not self.verify(p, cur[0] + cur[1], cur[2]):
                return False
            if cur[0] == genesis:
                return True
            cur = toks.get(cur[0])
            if cur is None:
                return False
            steps += 1
        return False

    def oracle_attest(self, di, ab, kind, sender):
        mptr, sg = ab[:32], ab[32:]
        p = self.keys[di] if di is not None else None
        if kind not in ("disc", "miss") or sender != di:
            self.viol("attest/not-requested-by-subject", "attestation sent to %r on a %s event from %r" % (di, kind, sender))
            return
        toks_m, atts_m = self.last_msg
        bad_tok = [t for t in toks_m if not self.rooted(di, t)]
        bad_att = [i for i, a in enumerate(atts_m) if not self.verify(a[0], a[1], a[2])]
        if bad_tok or bad_att:
            self.viol("attest/unverified-disclosure",
                      "attestation sent to peer %d in answer to a disclosure that does not verify: %d of its %d token(s) forged "
                      "or dangling, attestation(s) %s of %d not signed by the listed authority"
                      % (di, len(bad_tok), len(toks_m), bad_att, len(atts_m)))
        if not self.verify(self.me, mptr, sg):
            self.viol("attest/bad-signature", "the attestation sent to %d does not verify under the node's key" % di)
        if mptr in self.attested:
            own = any(r[1] == self.me and r[2] == mptr for r in self.rows_seen)
            self.viol("attest/double-sign/own-attestation-%s" % ("stored" if own else "not-stored"),
                      "second attestation over metadata %s sent to peer %d (the node's first attestation is %s its "
                      "database)" % (mptr.hex()[:12], di, "in" if own else "not in"))
        self.attested.add(mptr)
        md = self.presented[di]["md"].get(mptr)
        if md is None:
            self.viol("attest/unknown-metadata", "attestation over metadata %s that peer %d never presented"
                      % (mptr.hex()[:12], di))
            return
        if not self.verify(p, md[0] + md[1], md[2]):
            self.viol("attest/metadata-not-by-subject", "attested metadata is not signed by peer %d" % di)
        # the disclosed chain: the token, validly signed, back to the subject's genesis through presented tokens
        toks = self.presented[di]["tok"]
        cur, steps, okc = md[0], 0, True
        genesis = sha3(p)
        first = toks.get(md[0])
        while True:
            t = toks.get(cur)
            if t is None or not self.verify(p, t[0] + t[1], t[2]) or steps > len(toks):
                okc = False
                break
            if t[0] == genesis:
                break
            cur, steps = t[0], steps + 1
        if not okc:
            self.viol("attest/chain-unverified", "attested metadata of peer %d points to a token without a verifying "
                                                 "chain to the subject's genesis" % di)
        if first is None:
            return
        reg = self.regs.get(first[1])
        if reg is None:
            self.viol("attest/no-registration", "attribute hash %s was never registered" % first[1].hex()[:12])
            return
        name, t0, key, fixed = reg
        if key != p:
            self.viol("attest/wrong-subject", "attribute hash %s is registered for another subject key than peer %d"
                      % (first[1].hex()[:12], di))
        if self.clock > t0 + 300:
            self.viol("attest/expired", "registration is %d s old" % (self.clock - t0))
        try:
            tr = json.loads(md[1])
        except ValueError:
            tr = None
        if not isinstance(tr, dict) or not all(k in tr for k in ("name", "date", "schema")):
            self.viol("attest/malformed-metadata", "attested metadata lacks the required fields")
            return
        if tr["name"] != name:
            self.viol("attest/wrong-name", "metadata name %r, registered name %r" % (tr["name"], name))
        if fixed is not None and {k: v for k, v in tr.items() if k not in ("name", "date", "schema")} != fixed:
            self.viol("attest/metadata-mismatch", "extra metadata differs from the registered %r" % (fixed,))

    def oracle_rows(self, rows, trigger):
        kind, sender, extra = trigger
        for r in rows:
            if r in self.rows_seen:
                continue
            self.rows_seen.add(r)
            self.stats["stored"] += 1
            subj, auth, mptr, sg = r
            if not self.verify(auth, mptr, sg):
                self.viol("store/invalid-attestation", "row of Attestations whose signature does not verify under its "
                                                       "authority key (event %s)" % kind)
            if kind == "att":
                if auth != self.keys[sender] or subj != self.me:
                    self.viol("store/not-by-sender", "an Attest message from peer %d stored a row for authority %s"
                              % (sender, "another key"))
            elif kind in ("disc", "miss"):
                if subj != self.keys[sender]:
                    self.viol("store/wrong-subject", "a disclosure from peer %d stored an attestation for another subject" % sender)
            else:
                self.viol("store/unexpected", "event %s stored an attestation" % kind)

    # ---- events of the node under test -----------------------------------------------------------------
    def finish_event(self, term, trigger, check_outputs=True):
        sent = self.new_packets()
        if term is not None:
            self.events.append("(%s, %s)" % (zid(self.clock), term))
            rows = self.observe(sent, trigger[0])
        else:
            rows, _ = self.db_rows()
            if sent:
                self.viol("output/on-dropped-datagram", "the node answered a datagram that is not authentic")
        self.oracle_outputs(sent, trigger)
        self.oracle_rows(rows, trigger)
        if not sent and trigger[0] in ("disc", "miss"):
            self.stats["rejects"] += 1
        del self.raised[:]

    def mdterm(self, md):
        return "None" if md is None else "(Some %s)" % self.kvs(md)

    def op_known(self, subj, h, name, md):
        hb = attr_hash(h) if isinstance(h, int) else bytes.fromhex(h)
        kb = self.keys[subj] if isinstance(subj, int) else bytes.fromhex(subj)
        self.N.add_known_hash(hb, name, kb, md)
        self.regs[pad20(hb)] = (name, self.clock, kb, md)
        if len(hb) == 20:
            code = self.I.get("H20", hb)
            self.ntbl[code] = self.I.force("H", pad20(hb), tuple(b"SHA-1\x00\x00\x00\x00\x00\x00\x00") + code)
        else:
            code = self.H(hb)
        self.finish_event("EKnown %s %s %s %s" % (zl(code), zl(self.V(name)), zl(self.K(kb)), self.mdterm(md)),
                          ("known", None, None))

    def op_nadv(self, p, h, name, md):
        hb = attr_hash(h)
        n0 = len(self.N.token_chain)
        if p is None:
            self.N.self_advertise(hb, name, "id_metadata", md)
        else:
            try:
                self.N.request_attestation_advertisement(self.peer(p), hb, name, "id_metadata", md)
            except Exception as e:   # noqa
                self.raised.append(type(e).__name__)
        if len(self.N.token_chain) > n0:
            t, m = self.N.token_chain[-1], self.N.metadata_chain[-1]
            t3 = self.tok3(t)
            self.reg_tok(t3, [self.me])
            self.stbl[self.H(t3[0]) + self.H(t3[1])] = self.S(t3[2])
            m3 = (m.token_pointer, m.serialized_json_dict, m.signature)
            self.reg_md(m3, [self.me])
            self.stbl[self.H(m3[0]) + self.J(m3[1])] = self.S(m3[2])
            jb = m.serialized_json_dict
            if p is not None:
                self.opened[p] = len(self.N.token_chain)
        else:
            jb = b"{}"
        if len(hb) == 20:
            code = self.I.get("H20", hb)
            self.ntbl[code] = self.I.force("H", pad20(hb), tuple(b"SHA-1\x00\x00\x00\x00\x00\x00\x00") + code)
        else:
            code = self.H(hb)
        self.finish_event("EAdvertise %s %s %s %s" % ("None" if p is None else "(Some %s)" % zl(self.K(self.keys[p])),
                                                      zl(code), zl(self.J(jb)), nid(len(jb))),
                          ("nadv", p, None))

    def deliver(self, si, data, kind_hint=None):
        """one datagram from peer index si to the node under test, through its endpoint"""
        ok, kb, mid, body = outer(data, self.crypto)
        sender = self.keys.index(kb) if kb in self.keys else None
        term, trigger = None, ("dropped", sender, None)
        if ok and sender is not None and mid in (1, 2, 3, 4):
            ks = [kb]
            pk = zl(self.K(kb))
            if mid == 1:
                mdb, tb, ab, aub = varlens(body, 4)
                toks, tfail = split_tokens(tb)
                mds, mfail = ([], False) if tfail else split_metadata(mdb)
                atts, afail = ([], False) if (tfail or mfail) else split_attestations(ab, aub, self.crypto)
                fail = "(Some n0)" if tfail else "(Some n1)" if mfail else "(Some n2)" if afail else "None"
                for t in toks:
                    self.presented[sender]["tok"][sha3(t[0] + t[1] + t[2])] = t
                for m in mds:
                    self.presented[sender]["md"][sha3(m[0] + m[1] + m[2])] = m
                self.last_msg = (toks, atts)
                term = "EDisclose %s %s %s %s %s" % (
                    pk, cl(self.reg_md(m, ks) for m in mds), cl(self.reg_tok(t, ks) for t in toks),
                    cl("(%s, %s)" % (zl(self.K(a[0])), self.reg_att((a[1], a[2]), [a[0]])) for a in atts), fail)
                for a in atts:
                    self.reg_key(a[0])
                trigger = ("disc", sender, None)
            elif mid == 4:
                toks, tfail = split_tokens(body)
                for t in toks:
                    self.presented[sender]["tok"][sha3(t[0] + t[1] + t[2])] = t
                self.last_msg = (toks, [])
                term = "EMissingResp %s %s %s" % (pk, cl(self.reg_tok(t, ks) for t in toks), "true" if tfail else "false")
                trigger = ("miss", sender, None)
            elif mid == 2:
                ab = varlens(body, 1)[0]
                if len(ab) < 32 + SIG:
                    term = "EAttest %s None" % pk
                else:
                    a = (ab[:32], ab[32:32 + SIG])
                    term = "EAttest %s (Some %s)" % (pk, self.reg_att(a, ks))
                    self.att_senders.append((kb, a))
                trigger = ("att", sender, None)
            elif mid == 3:
                kn = struct.unpack(">I", body[:4])[0]
                term = "EReqMissing %s %s" % (pk, zid(kn))
                trigger = ("reqm", sender, kn)
        else:
            self.stats["dropped"] += 1
        try:
            self.N.endpoint.inject(self.addr[si], data)
        except Exception as e:   # noqa: SimEndpoint lets nothing through that on_packet does not swallow
            self.raised.append(type(e).__name__)
        self.finish_event(term, trigger)

    # ---- peers -------------------------------------------------------------------------------------------
    def store_of(self, p):
        """what peer p can disclose: its chain tokens, metadata and the attestations it holds"""
        ov = self.nodes[p]
        toks = [self.tok3(t) for t in ov.token_chain]
        mds = [(m.token_pointer, m.serialized_json_dict, m.signature) for m in ov.metadata_chain]
        db = ov.identity_manager.database
        rows = list(db.execute("SELECT authority_key, metadata_pointer, signature FROM Attestations WHERE public_key = ? "
                               "ORDER BY rowid", (self.keys[p],), fetch_all=True) or [])
        return toks, mds, [tuple(bytes(x) for x in r) for r in rows]

    def pack(self, sender, mid, payload):
        return self.nodes[sender].ezr_pack(mid, payload)

    def op_disc(self, p, sender, mdsel, toksel, attsel, tamper):
        from ipv8.attestation.identity.metadata import Metadata
        from ipv8.attestation.identity.payload import DisclosePayload
        toks, mds, rows = self.store_of(p)
        if not mds:
            return
        sel = sorted(set(i % len(mds) for i in mdsel)) if mdsel else []
        smd = [mds[i] for i in sel]
        hashes = [sha3(t[0] + t[1] + t[2]) for t in toks]
        kind = toksel[0]
        if kind == "path":
            top = max([hashes.index(m[0]) for m in smd if m[0] in hashes] or [-1])
            stoks = toks[:top + 1]
        elif kind == "all":
            stoks = list(toks)
        elif kind == "none":
            stoks = []
        elif kind == "prefix":
            stoks = toks[:toksel[1]]
        elif kind == "suffix":
            stoks = toks[-toksel[1]:] if toksel[1] else []
        elif kind == "rev":
            stoks = list(reversed(toks))
        else:
            stoks = [toks[i % len(toks)] for i in toksel[1]]
        satts = []
        if isinstance(attsel, list):
            # ["gen", [[kind, signer], ..]]: attestations over the first selected metadata made on the spot
            from ipv8.attestation.identity.attestation import Attestation
            ptr = sha3(smd[0][0] + smd[0][1] + smd[0][2]) if smd else sha3(b"nothing")
            for akind, signer in attsel[1]:
                att = Attestation(ptr if akind != "other_ptr" else sha3(b"other" + ptr), private_key=self.nodes[signer].my_peer.key)
                auth, sg = self.keys[signer], att.signature
                if akind == "badsig":
                    sg = bytes([sg[0] ^ 1]) + sg[1:]
                elif akind == "wrongauth":
                    auth = self.keys[signer % NPEERS + 1]
                satts.append([auth, att.metadata_pointer, sg])
        elif attsel != "none":
            for auth, mptr, sg in rows:
                if any(sha3(m[0] + m[1] + m[2]) == mptr for m in smd):
                    satts.append([auth, mptr, sg])
            if attsel == "wrongauth" and satts:
                satts[0][0] = self.keys[3] if satts[0][0] != self.keys[3] else self.keys[2]
        smd = [list(m) for m in smd]
        stoks = [list(t) for t in stoks]
        tail = {"tok": b"", "md": b"", "att": b""}
        if tamper:
            what = tamper[0]
            if what == "toksig" and stoks:
                t = stoks[tamper[1] % len(stoks)]
                t[2] = bytes([t[2][0] ^ 1]) + t[2][1:]
            elif what == "tokhash" and stoks:
                t = stoks[tamper[1] % len(stoks)]
                t[1] = bytes([t[1][0] ^ 1]) + t[1][1:]
            elif what == "mdsig" and smd:
                m = smd[tamper[1] % len(smd)]
                m[2] = bytes([m[2][0] ^ 1]) + m[2][1:]
            elif what == "mdjson" and smd:
                m = smd[tamper[1] % len(smd)]
                m[1] = m[1].replace(b'"name": "', b'"name": "x', 1)
            elif what == "rawjson" and smd:
                m = smd[tamper[1] % len(smd)]
                variant = {"list": b"[1, 2]", "bad": b"{bad", "nofields": b'{"name": "n0"}', "str": b'"n0"',
                           "nodate": b'{"name": "n0", "schema": "id_metadata"}'}[tamper[2]]
                fresh = Metadata(m[0], variant, private_key=self.nodes[p].my_peer.key)
                m[1], m[2] = fresh.serialized_json_dict, fresh.signature
            elif what == "attsig" and satts:
                a = satts[tamper[1] % len(satts)]
                a[2] = bytes([a[2][0] ^ 1]) + a[2][1:]
            elif what == "trunc_tok":
                tail["tok"] = b"\x01" * 40
            elif what == "trunc_md":
                tail["md"] = b"\x00\x00"
            elif what == "trunc_att":
                tail["att"] = b"\x00"
        mdb = b"".join(struct.pack(">I", len(m[0] + m[1] + m[2])) + m[0] + m[1] + m[2] for m in smd) + tail["md"]
        tb = b"".join(t[0] + t[1] + t[2] for t in stoks) + tail["tok"]
        ab = b"".join(a[1] + a[2] for a in satts)
        aub = b"".join(struct.pack(">H", len(a[0])) + a[0] for a in satts) + tail["att"]
        data = self.pack(sender, 1, DisclosePayload(mdb, tb, ab, aub))
        if len(data) > 60000:
            return
        self.deliver(sender, data)

    def op_miss(self, p, sender, toksel, tamper):
        from ipv8.attestation.identity.payload import MissingResponsePayload
        toks, _mds, _rows = self.store_of(p)
        kind = toksel[0]
        if kind == "all":
            stoks = list(toks)
        elif kind == "prefix":
            stoks = toks[:toksel[1]]
        elif kind == "suffix":
            stoks = toks[-toksel[1]:] if toksel[1] else []
        elif kind == "rev":
            stoks = list(reversed(toks))
        else:
            stoks = []
        stoks = [list(t) for t in stoks]
        tail = b""
        if tamper and tamper[0] == "toksig" and stoks:
            t = stoks[tamper[1] % len(stoks)]
            t[2] = bytes([t[2][0] ^ 1]) + t[2][1:]
        elif tamper and tamper[0] == "trunc_tok":
            tail = b"\x02" * 17
        self.deliver(sender, self.pack(sender, 4, MissingResponsePayload(b"".join(t[0] + t[1] + t[2] for t in stoks) + tail)))

    def op_att(self, signer, sender, target, tamper):
        from ipv8.attestation.identity.attestation import Attestation
        from ipv8.attestation.identity.payload import AttestPayload
        mc = self.N.metadata_chain
        if target is not None and target >= 0 and mc:
            ptr = mc[target % len(mc)].get_hash()
        else:
            ptr = sha3(b"no-such-metadata-%r" % (target,))
        att = Attestation(ptr, private_key=self.nodes[signer].my_peer.key)
        raw = att.get_plaintext_signed()
        if tamper == "sig":
            raw = raw[:32] + bytes([raw[32] ^ 1]) + raw[33:]
        elif tamper == "ptr":
            raw = bytes([raw[0] ^ 1]) + raw[1:]
        elif tamper == "short":
            raw = raw[:50]
        self.deliver(sender, self.pack(sender, 2, AttestPayload(raw)))

    def op_reqm(self, q, kn):
        from ipv8.attestation.identity.payload import RequestMissingPayload
        self.deliver(q, self.pack(q, 3, RequestMissingPayload(kn)))

    def run_op(self, op):
        k = op[0]
        if k == "tick":
            self.clock += op[1]
        elif k == "known":
            self.op_known(*op[1:])
        elif k == "nadv":
            self.op_nadv(*op[1:])
        elif k == "pknown":
            _, p, subj, h, name, md = op
            self.nodes[p].add_known_hash(attr_hash(h), name, self.keys[subj], md)
        elif k == "padv":
            _, p, target, h, name, md = op
            self.nodes[p].request_attestation_advertisement(self.peer(target), attr_hash(h), name, "id_metadata", md)
            self.pump_peers()
        elif k == "pself":
            _, p, h, name, md = op
            self.nodes[p].self_advertise(attr_hash(h), name, "id_metadata", md)
        elif k == "deliver":
            if self.inbox:
                si, data = self.inbox[op[1] % len(self.inbox)]
                self.deliver(si, data)
        elif k == "deliver_as":
            # the payload of a held-back datagram, re-sent under another peer's authentication
            if self.inbox:
                si, data = self.inbox[op[1] % len(self.inbox)]
                ok, kb, mid, body = outer(data, self.crypto)
                q = op[2]
                prefix = data[:23] + struct.pack(">H", len(self.keys[q])) + self.keys[q] + body
                self.deliver(q, prefix + self.nodes[q].my_peer.key.signature(prefix))
        elif k == "forged":
            if self.inbox:
                si, data = self.inbox[op[1] % len(self.inbox)]
                pos = -1 if op[2] == "sig" else 30 + len(self.keys[0]) + (op[2] if isinstance(op[2], int) else 0)
                pos = pos % len(data)
                self.deliver(si, data[:pos] + bytes([data[pos] ^ 0x40]) + data[pos + 1:] if pos != len(data) - 1
                             else data[:-1] + bytes([data[-1] ^ 0x40]))
        elif k == "flow":
            if self.outbox:
                di, data = self.outbox[op[1] % len(self.outbox)]
                if di:
                    self.nodes[di].endpoint.inject(self.addr[0], data)
                    self.pump_peers()
        elif k == "disc":
            self.op_disc(*op[1:])
        elif k == "miss":
            self.op_miss(*op[1:])
        elif k == "att":
            self.op_att(*op[1:])
        elif k == "reqm":
            self.op_reqm(*op[1:])
        else:
            raise ValueError(op)

    def wide(self):
        db = self.N.identity_manager.database
        cols = [bytes(r[1]).decode() if isinstance(r[1], bytes) else r[1]
                for r in db.execute("PRAGMA table_info(Attestations)", fetch_all=True) if r[5]]
        return sorted(cols)

    def coq_case(self):
        pk = self.wide()
        wide = "true" if pk == ["authority_key", "metadata_pointer", "public_key"] else "false"
        t2 = lambda d: cl("(%s, %s)" % (zl(k), zl(v)) for k, v in d.items())   # noqa
        case = "(mkCase %s n32 n64 %s %s %s %s %s %s %s)" % (
            zl(self.K(self.me)), wide, t2(self.htbl),
            cl("(%s, %s, %s)" % (zl(a), zl(b), zl(c)) for a, b, c in sorted(self.vtbl)),
            t2(self.stbl), cl("(%s, %s)" % (zl(k), v) for k, v in self.ptbl.items()), t2(self.ntbl),
            cl(self.events))
        return case, cl(self.expected)


def run_script(ops, label="case"):
    """run a script on the implementation; returns (coq case, coq expected, violations, stats, pk columns)"""
    import asyncio

    async def main():
        w = World(label)
        try:
            for op in ops:
                w.run_op(op)
            case, exp = w.coq_case()
            return case, exp, list(w.bad), w.stats, w.wide()
        finally:
            await w.close()
    loop = asyncio.new_event_loop()
    try:
        return loop.run_until_complete(main())
    finally:
        loop.close()


# ---------------------------------------------------------------------------- generators (scripts)
A, B, C, D = 1, 2, 3, 4
MD_PAIRS = [({"a": "b"}, {"a": "b"}), ({"a": "b"}, None), ({"a": "b"}, {"a": "b", "c": "d"}), ({"a": "b"}, {"a": "x"}),
            ({}, {"a": "b"}), ({}, None), (None, {"a": "b"}), ({"a": "b", "c": "d"}, {"c": "d", "a": "b"}),
            ({"a": 1}, {"a": 1}), ({"a": "1"}, {"a": 1}), ({"a": "b"}, {"c": "b"})]
MATRIX = ["ok", "replay", "expired", "boundary", "late_delivery", "wrong_key", "wrong_key_cross", "wrong_name",
          "md", "unregistered", "unsolicited", "rereg_replay", "expired_then_rereg", "third_party_first",
          "third_party_wrongauth", "third_party_badsig", "sender_mismatch", "deliver_as", "tamper_tok", "tamper_tokhash",
          "tamper_mdsig", "tamper_mdjson", "trunc_tok", "trunc_md", "trunc_att", "rawjson", "missing_flow",
          "missing_partial", "hash_on_other_subject", "overwrite_reg", "sha1", "two_creds", "multi_subject",
          "forged_outer", "own_attestation_included", "long_chain", "stale_name_rereg", "extra_bad_token",
          "extra_unchained_token", "md_truthiness", "mixed_disclosure"]


def extra_regs(r, n):
    pool = [("known", B, 1, "n1", None), ("known", C, 2, "n2", {"k": "v"}), ("known", A, 3, "n3", None),
            ("known", B, 4, "n0", None), ("known", C, 6, "n0", None), ("known", D, 7, "n7", {})]
    r.shuffle(pool)
    return [list(x) for x in pool[:n]]


def matrix_case(r, kind, nreg):
    h, name = 0, "n0"
    core = []
    k = lambda subj=A, hh=h, nm=name, md=None: ["known", subj, hh, nm, md]   # noqa
    adv = lambda p=A, hh=h, nm=name, md=None: ["padv", p, 0, hh, nm, md]      # noqa
    dl = ["deliver", -1]
    small = r.choice([0, 1, 30, 299])
    if kind == "ok":
        core = [k(), ["tick", small], adv(), dl]
    elif kind == "replay":
        core = [k(), adv(), dl, ["tick", r.choice([0, 1, 100])], dl, dl]
    elif kind == "expired":
        core = [k(), ["tick", r.choice([301, 302, 1000])], adv(), dl]
    elif kind == "boundary":
        core = [k(), ["tick", 300], adv(), dl, ["tick", 1], dl]
    elif kind == "late_delivery":
        core = [k(), adv(), ["tick", r.choice([300, 301])], dl]
    elif kind == "wrong_key":
        core = [k(B), k(A, 5, "n5"), adv(), dl]
    elif kind == "wrong_key_cross":
        core = [k(B), k(A, 5, "n5"), adv(), dl, adv(B, 5, "n5"), dl, adv(A, 5, "n5"), dl, adv(B), dl]
    elif kind == "wrong_name":
        core = [k(A, h, "other"), adv(), dl]
    elif kind == "md":
        reg, ad = r.choice(MD_PAIRS)
        core = [k(A, h, name, reg), adv(A, h, name, ad), dl]
    elif kind == "unregistered":
        core = [k(A, 5, "n5"), adv(), dl]
    elif kind == "unsolicited":
        core = [k(B, 1, "n1"), adv(), dl]
    elif kind == "rereg_replay":
        core = [k(), adv(), dl, ["tick", 400], k(), dl]
    elif kind == "expired_then_rereg":
        core = [k(), ["tick", 301], adv(), dl, k(), dl, dl]
    elif kind in ("third_party_first", "third_party_wrongauth", "third_party_badsig"):
        sel = {"third_party_first": "all", "third_party_wrongauth": "wrongauth", "third_party_badsig": "all"}[kind]
        tam = ["attsig", 0] if kind == "third_party_badsig" else None
        d = ["disc", A, A, [0], ["path"], sel, tam]
        core = [k(), ["pknown", D, A, h, name, None], ["padv", A, D, h, name, None], d, ["tick", small], d,
                ["disc", A, A, [0], ["path"], "all", None], ["disc", A, A, [0], ["path"], "all", None]]
    elif kind == "sender_mismatch":
        core = [k(), ["pself", A, h, name, None]] + ([k(C, 9, "n9")] if r.random() < 0.7 else []) + \
               [["disc", A, C, [0], ["path"], "none", None], ["disc", A, A, [0], ["path"], "none", None]]
    elif kind == "deliver_as":
        core = [k(), k(C, 9, "n9"), adv(), ["deliver_as", -1, C], dl]
    elif kind in ("tamper_tok", "tamper_tokhash", "tamper_mdsig", "tamper_mdjson", "trunc_tok", "trunc_md", "trunc_att"):
        tam = {"tamper_tok": ["toksig", r.randrange(3)], "tamper_tokhash": ["tokhash", r.randrange(3)],
               "tamper_mdsig": ["mdsig", 0], "tamper_mdjson": ["mdjson", 0], "trunc_tok": ["trunc_tok"],
               "trunc_md": ["trunc_md"], "trunc_att": ["trunc_att"]}[kind]
        pre = [["pself", A, 7, "x", None]] if r.random() < 0.5 else []
        core = [k()] + pre + [["pself", A, h, name, None], ["disc", A, A, [-1], ["path"], "none", tam],
                              ["disc", A, A, [-1], ["path"], "none", None]]
    elif kind == "rawjson":
        v = r.choice(["list", "bad", "nofields", "str", "nodate"])
        core = [k(), ["pself", A, h, name, None], ["disc", A, A, [0], ["path"], "none", ["rawjson", 0, v]],
                ["disc", A, A, [0], ["path"], "none", None]]
    elif kind == "missing_flow":
        core = [["pself", A, 7, "x", None], ["pself", A, 8, "y", None], k(), adv(), ["disc", A, A, [2], ["none"], "none", None],
                ["flow", -1], dl, ["disc", A, A, [2], ["none"], "none", None]]
    elif kind == "missing_partial":
        core = [["pself", A, 7, "x", None], ["pself", A, 8, "y", None], k(), ["pself", A, h, name, None],
                ["disc", A, A, [2], ["suffix", 1], "none", None], ["miss", A, A, ["prefix", r.choice([1, 2])], None],
                ["miss", A, A, ["rev"], r.choice([None, ["toksig", 0], ["trunc_tok"]])], ["miss", A, A, ["all"], None]]
    elif kind == "hash_on_other_subject":
        core = [k(), k(B, 5, "n5"), ["pself", B, h, name, None], ["disc", B, B, [0], ["path"], "none", None],
                ["pself", A, h, name, None], ["disc", A, A, [0], ["path"], "none", None]]
    elif kind == "overwrite_reg":
        core = [k(), k(B), adv(), dl, ["pself", B, h, name, None], ["disc", B, B, [0], ["path"], "none", None]]
    elif kind == "sha1":
        core = [k(A, 100, name), adv(A, 100, name), dl, dl]
    elif kind == "two_creds":
        core = [k(), k(A, 3, "n3"), adv(), adv(A, 3, "n3"), ["deliver", -2], dl, ["deliver", -2]]
    elif kind == "multi_subject":
        core = [k(), k(B, 1, "n1"), adv(), adv(B, 1, "n1"), dl, ["deliver", -2], ["deliver_as", -1, A]]
    elif kind == "forged_outer":
        core = [k(), adv(), ["forged", -1, "sig"], ["forged", -1, r.randrange(40)], dl]
    elif kind == "own_attestation_included":
        core = [k(), adv(), dl, ["flow", -1], ["disc", A, A, [0], ["path"], "all", None]]
    elif kind == "long_chain":
        n = r.choice([9, 10, 12])
        core = [["pself", A, 20 + i, "c%d" % i, None] for i in range(n)] + [k(), adv(), dl, ["flow", -1], dl, ["flow", -1], dl]
    elif kind == "stale_name_rereg":
        core = [k(), k(A, h, "other"), adv(), dl, k(), dl]
    elif kind == "extra_bad_token":
        # the target's chain is fine, another token of the same message is not validly signed
        core = [k(), ["pself", A, h, name, None], ["pself", A, 7, "x", None],
                ["disc", A, A, [0], ["all"], "none", ["toksig", 1]], ["disc", A, A, [0], ["path"], "none", None]]
    elif kind == "extra_unchained_token":
        core = [k(), ["pself", A, h, name, None], ["pself", A, 7, "x", None], ["pself", A, 8, "y", None],
                ["disc", A, A, [0], ["idx", [0, 2]], "none", None], ["disc", A, A, [0], ["path"], "none", None]]
    elif kind == "mixed_disclosure":
        # a failing element (forged extra token, dangling token, forged attestation at any position) together with
        # 1..3 valid attestations in some order - in particular a valid one last
        nvalid = r.choice([1, 2, 3])
        fail = r.choice(["tok_forged", "tok_dangling", "att_badsig", "att_wrongauth"])
        signers = [r.choice([A, B, C, D]) for _ in range(nvalid)]
        atts = [["ok", sg] for sg in signers]
        toksel, tam = ["path"], None
        if fail == "tok_forged":
            toksel, tam = ["all"], ["toksig", r.choice([1, 2])]
        elif fail == "tok_dangling":
            toksel = ["idx", [0, 2]]
        else:
            atts.insert(r.randrange(len(atts) + (0 if r.random() < 0.6 else 1)), [fail[4:], r.choice([B, C, D])])
        core = [k(), ["pself", A, h, name, None], ["pself", A, 7, "x", None], ["pself", A, 8, "y", None],
                ["disc", A, A, [0], toksel, ["gen", atts], tam], ["disc", A, A, [0], ["path"], ["gen", [["ok", D]]], None]]
    elif kind == "md_truthiness":
        reg, ad = r.choice([({}, {"a": "b"}), ({}, {"z": 1}), ({}, None)])
        core = [k(A, h, name, reg), adv(A, h, name, ad), dl]
    else:
        raise ValueError(kind)
    ops = list(core)
    # concurrent registrations, placed before the first delivery-type operation
    first = next((i for i, o in enumerate(ops) if o[0] in ("deliver", "disc", "deliver_as", "miss")), len(ops))
    for e in extra_regs(r, nreg - 1):
        ops.insert(r.randrange(first + 1), e)
    return {"label": "matrix/%s/%d" % (kind, nreg), "ops": ops}


def mixed_cases(r):
    """systematic: a disclosure whose chain and metadata would be attested, combined with ONE failing element (forged
    extra token, dangling token, attestation with a forged signature / a wrong listed authority at every position)
    and 1..3 valid attestations; followed by a clean disclosure (attested) and a replay of the failing one"""
    out = []
    for nvalid in (1, 2, 3):
        valid = [["ok", [D, C, A][i]] for i in range(nvalid)]     # A: a key of the subject's own will do
        variants = [("tok_forged", ["all"], ["toksig", 1], valid), ("tok_forged2", ["all"], ["tokhash", 2], valid),
                    ("tok_dangling", ["idx", [0, 2]], None, valid)]
        for bad in ("badsig", "wrongauth"):
            for pos in range(nvalid + 1):
                atts = list(valid)
                atts.insert(pos, [bad, B])
                variants.append(("att_%s@%d" % (bad, pos), ["path"], None, atts))
        for tag, toksel, tam, atts in variants:
            failing = ["disc", A, A, [0], toksel, ["gen", atts], tam]
            ops = [["known", A, 0, "n0", None], ["pself", A, 0, "n0", None], ["pself", A, 7, "x", None],
                   ["pself", A, 8, "y", None], failing, ["tick", r.choice([0, 5])],
                   ["disc", A, A, [0], ["path"], ["gen", valid], None], failing]
            if r.random() < 0.5:
                ops.insert(1, ["known", B, 1, "n1", None])
            out.append({"label": "mixed/%s/%d" % (tag, nvalid), "ops": ops})
    return out


def perm_case(r):
    ops = []
    n = r.choice([1, 2, 3, 5, 9, 11, 12, 14])
    for i in range(n):
        p = r.choice([None, None, 1, 2, 3])
        ops.append(["nadv", p, 10 + i, "a%d" % i, r.choice([None, None, {"x": "y"}])])
        if r.random() < 0.5:
            ops.append(["reqm", r.choice([1, 2, 3, 4]), r.choice([0, 0, 1, i, i + 1, i + 2, 2 ** 32 - 1])])
    for q in (1, 2, 3, 4):
        for kn in sorted(set([0, 1, n - 1, n, n + 1, r.randrange(n + 2)])):
            if kn >= 0:
                ops.append(["reqm", q, kn])
    return {"label": "perm/%d" % n, "ops": ops}


def grow_case(r):
    """open the chain to P at n tokens, let the chain grow afterwards (self_advertise, advertisements to other peers,
    an attestation coming back from another peer), then P asks for missing tokens with known <= n"""
    P = r.choice([A, B, C])
    Q = r.choice([q for q in (A, B, C, D) if q != P])
    n = r.choice([1, 1, 2, 3, 5])
    ops = [["nadv", None, 10 + i, "a%d" % i, None] for i in range(n - 1)]
    ops.append(["nadv", P, 10 + n - 1, "a%d" % (n - 1), r.choice([None, {"x": "y"}])])
    grow = r.choice([1, 2, 3, 8])
    for j in range(grow):
        how = r.choice(["self", "self", "other", "attested"])
        h, nm = 40 + j, "g%d" % j
        if how == "self":
            ops.append(["nadv", None, h, nm, None])
        elif how == "other":
            ops.append(["nadv", Q, h, nm, None])
        else:
            ops += [["pknown", Q, 0, h, nm, None], ["nadv", Q, h, nm, None], ["flow", -1], ["deliver", -1]]
        if r.random() < 0.3:
            ops.append(["reqm", P, r.choice([0, n - 1, n])])
    for kn in sorted(set([0, max(0, n - 1), n, r.randrange(n + 1)])):
        ops.append(["reqm", P, kn])
    ops.append(["reqm", Q, 0])
    return {"label": "grow/%d+%d" % (n, grow), "ops": ops}


def store_case(r):
    ops = [["nadv", r.choice([None, A]), 10, "a0", None]]
    p = r.choice([A, B])
    ops += [["pknown", p, 0, 11, "a1", None], ["nadv", p, 11, "a1", None], ["flow", -1], ["deliver", -1]]
    for _ in range(r.choice([2, 4, 7])):
        signer, sender = r.choice([(C, C), (C, D), (D, C), (p, C), (C, p), (p, p), (0, C)])
        ops.append(["att", signer, sender, r.choice([0, 1, 1, -1]), r.choice([None, None, None, "sig", "ptr", "short"])])
        if r.random() < 0.3:
            ops.append(["deliver", r.randrange(-3, 0)])
    return {"label": "store", "ops": ops}


def random_case(r, n):
    ops = []
    names = ["n0", "n1", "other"]
    mds = [None, None, None, {"a": "b"}, {}, {"a": "x"}]
    for _ in range(n):
        x = r.random()
        if x < 0.16:
            ops.append(["known", r.choice([A, A, B, C]), r.choice([0, 0, 1, 2, 100]), r.choice(names), r.choice(mds)])
        elif x < 0.24:
            ops.append(["tick", r.choice([0, 1, 10, 100, 299, 300, 301])])
        elif x < 0.36:
            ops.append(["padv", r.choice([A, B, C]), 0, r.choice([0, 0, 1, 2, 100]), r.choice(names), r.choice(mds)])
        elif x < 0.52:
            ops.append(["deliver", r.randrange(-4, 0)])
        elif x < 0.57:
            ops.append(["pself", r.choice([A, B, C]), r.choice([0, 1, 2, 7, 8]), r.choice(names), r.choice(mds)])
        elif x < 0.69:
            p = r.choice([A, B, C])
            ops.append(["disc", p, p if r.random() < 0.85 else r.choice([A, B, C]), [r.randrange(4) for _ in range(r.choice([1, 1, 2, 3]))],
                        r.choice([["path"], ["path"], ["all"], ["none"], ["rev"], ["suffix", 1], ["prefix", 1]]),
                        r.choice(["none", "all", "all", "wrongauth"]),
                        r.choice([None, None, None, None, ["toksig", 0], ["mdsig", 0], ["attsig", 0], ["tokhash", 1]])])
        elif x < 0.74:
            p = r.choice([A, B, C])
            ops.append(["miss", p, p, r.choice([["all"], ["prefix", 1], ["rev"], ["suffix", 2]]), r.choice([None, None, ["toksig", 0]])])
        elif x < 0.80:
            ops.append(["nadv", r.choice([None, A, B, D]), r.choice([10, 11, 12]), r.choice(["a0", "a1"]), r.choice(mds)])
        elif x < 0.85:
            ops.append(["flow", r.randrange(-3, 0)])
        elif x < 0.90:
            ops.append(["reqm", r.choice([A, B, C, D]), r.choice([0, 0, 1, 2, 3])])
        elif x < 0.94:
            ops.append(["att", r.choice([A, C, D]), r.choice([A, C, D]), r.choice([0, 1, -1]), r.choice([None, None, "sig"])])
        elif x < 0.97:
            ops.append(["pknown", r.choice([A, B, D]), r.choice([0, A, B]), r.choice([0, 1, 10, 11]), r.choice(["n0", "a0", "a1"]), None])
        else:
            ops.append(["padv", r.choice([A, B]), D, r.choice([0, 1]), r.choice(names), None])
    return {"label": "random/%d" % n, "ops": ops}


# ---------------------------------------------------------------------------- the check
def process(case):
    try:
        cc, exp, bad, stats, pk = run_script(case["ops"], case["label"])
        return cc, exp, bad, stats, pk, None
    except Exception:   # noqa
        import traceback
        return None, None, [], {}, None, traceback.format_exc()


def replay_cases(cases, verbose=False):
    rc = 0
    for c in cases:
        cc, exp, bad, stats, pk, err = process(c)
        if verbose:
            print("case %r: %d operations -> %s" % (c.get("label"), len(c["ops"]), {k: v for k, v in stats.items() if k != "kinds"}))
            if err:
                print("  harness error:", err)
            for k, wh in bad:
                print("  VIOLATES %s :: %s" % (k, wh))
            if not bad and not err:
                print("  property holds on this case")
        if bad or err:
            rc = 1
    return rc


def shrink(case, key):
    """greedy removal of operations while the same violation key is still produced"""
    ops = list(case["ops"])
    i = 0
    while i < len(ops):
        trial = ops[:i] + ops[i + 1:]
        r = process({"label": "shrink", "ops": trial})
        if r[5] is None and any(k == key for k, _ in r[2]):
            ops = trial
        else:
            i += 1
    return {"label": case["label"] + "/shrunk", "ops": ops}


def run(ctx):
    r = ctx.rng("main")
    # ---- stage 0: corpus
    for path in sorted(glob.glob(os.path.join(CORPUS, "*.json"))):
        js = json.load(open(path))
        for cj in js.get("cases", []):
            res = process(cj)
            for k, wh in res[2]:
                ctx.violation(k, "corpus %s: %s" % (os.path.basename(path), wh), cj)
            if res[5]:
                ctx.broke("corpus case %s could not be run" % path, res[5])
            ctx.count(("corpus", path, cj["label"]))
    # ---- stage P, stage G + refinement of the translated functions to the hand model
    ctx.proofs()
    gtext = translate(ctx)
    gen_ok = False
    if gtext is not None:
        ctx.proofs(part="C17x")
        ok_, log_, _cmd, _dt = coqrun.make(["model/M17_run_gen.vo"], timeout=600)
        gen_ok = ok_
        if not ok_:
            ctx.broke("the generated definitions no longer fit the evaluation interface model/M17_run_gen.v", log_[-1500:])
    ctx.coverage["trusted_base"] = [
        "Coq 8.16.1 kernel (vm_compute)",
        "hypotheses on the primitives: none for sign_requires_consent / store_only_valid_attestation / "
        "tokens_only_up_to_permission (hash, signature check, signing, json.loads are universally quantified); "
        "no_double_sign assumes that the node's signing operation produces signatures that verify under its key and "
        "that a signature string verifies under one key only (exclusive ownership, Ed25519 as implemented by "
        "libsodium); disclosure_within_permission / advertisement_extends_chain assume the former and that no "
        "message is authenticated by the node's own key (C01)",
        "json.loads (metadata documents enter the model parsed), SQLite reads (tables modelled as lists with their "
        "primary keys), C01 (peer = authenticated key), C02/C03 (payload decoding)",
        "translated part (tools/tr/tr_consent.py -> gen/G17_consent.v, refinement props/C17x.v): regenerated from the "
        "AST of identity/community.py, manager.py, database.py (incl. the SQL texts and PRIMARY KEYs), metadata.py, "
        "attestation.py, signed_object.py on every run; outside it, as runtime parameters: SHA3-256, signature check and "
        "signing, json.loads/json.dumps, time(), the token tree (C16/C16x), _fit_disclosure / disclose_credentials, the "
        "byte decoding of payload areas (the decoding statements of substantiate's loops are recognised and replaced by "
        "iteration over decoded items), PseudonymManager.__init__ on a key without stored tokens; set iteration is "
        "modelled in first-occurrence order",
        "this harness: independent wire decoding, renaming of digests/signatures/keys, tables of SHA3-256 and "
        "signature validity computed with hashlib / ECCrypto, patched clock",
    ]
    ctx.assumptions = [
        "the token tree of a pseudonym is the C16 model (gather_token etc.); its soundness lemmas are reused",
        "a message whose byte areas do not decode completely is represented by the items that decode plus a "
        "failure marker; garbage authority keys are not generated",
        "time is an integer number of seconds",
    ]
    # ---- stage C: scripts
    cases = []
    reps = 2 if ctx.quick else 6
    for kind in MATRIX:
        for nreg in (1, 2, 3):
            for _ in range(reps):
                cases.append(matrix_case(r, kind, nreg))
    cases += mixed_cases(r)
    for _ in range(50 if ctx.quick else 300):
        cases.append(perm_case(r))
    for _ in range(40 if ctx.quick else 300):
        cases.append(grow_case(r))
    for _ in range(40 if ctx.quick else 300):
        cases.append(store_case(r))
    for _ in range(90 if ctx.quick else 5000):
        cases.append(random_case(r, r.choice([6, 12, 20, 30])))
    with multiprocessing.Pool(12) as pool:
        results = pool.map(process, cases, chunksize=8)
    coq_cases, viol, pks = [], {}, set()
    dist = {"events": 0, "attests": 0, "rejects": 0, "dropped": 0, "raised": 0, "tokens_out": 0, "stored": 0, "kinds": {}}
    for idx, (c, (cc, exp, bad, stats, pk, err)) in enumerate(zip(cases, results)):
        if err:
            ctx.broke("harness could not run case %s" % c["label"], err)
            continue
        coq_cases.append((idx, cc, exp))
        pks.add(tuple(pk))
        ctx.count(hashlib.sha256(json.dumps(c["ops"], sort_keys=True).encode()).hexdigest(),
                  nontrivial=stats["attests"] + stats["rejects"] + stats["tokens_out"] + stats["stored"] > 0)
        for k, v in stats.items():
            if k == "kinds":
                for kk, vv in v.items():
                    dist["kinds"][kk] = dist["kinds"].get(kk, 0) + vv
            else:
                dist[k] += v
        for k, wh in bad:
            if k not in viol or len(c["ops"]) < len(viol[k][1]["ops"]):
                viol[k] = (wh, c)
        if len(ctx.coverage["samples"]) < 6 and idx % 37 == 0:
            ctx.sample({"label": c["label"], "ops": c["ops"][:12], "stats": {k: v for k, v in stats.items() if k != "kinds"}})
    for k, (wh, c) in viol.items():
        small = shrink(c, k)
        ctx.violation(k, wh, small)
    # ---- the schema decides the model parameter
    expected_pk = ("authority_key", "metadata_pointer", "public_key")
    if pks != {expected_pk}:
        ctx.broke("schema: PRIMARY KEY of Attestations is %s; props/C17.v (no_double_sign) is stated for "
                  "(public_key, authority_key, metadata_pointer)" % sorted(pks),
                  "with the narrow key the node's own attestation is dropped when another authority attested first")
    # ---- model in Coq
    imports, runfn = (IMPORTS_GEN, "run_case_both") if gen_ok else (IMPORTS, "run_case")
    ctx.extra["model_evaluated"] = "hand model + generated definitions" if gen_ok else "hand model only"
    mism, errors = coqrun.eval_mismatches(imports, runfn, "obs_eqb", [(cc, exp) for _, cc, exp in coq_cases],
                                          os.path.join(ctx.scratch, "corr"), ctype="case * list eobs", shard=40,
                                          max_bytes=250000)
    for e in errors:
        ctx.broke("correspondence: Coq evaluation failed", e)
    for m in mism[:10]:
        c = cases[coq_cases[m][0]]
        what = "correspondence: model and implementation differ on %s" % c["label"]
        if gen_ok and m == mism[0]:
            out = coqrun.eval_terms(imports, ["obs_eqb (run_case %s) (run_case_g %s)" % (coq_cases[m][1], coq_cases[m][1])],
                                    os.path.join(ctx.scratch, "dbg"))
            if "= false" in out:
                what = "correspondence: the GENERATED definitions differ from the hand model on %s" % c["label"]
        ctx.broke(what, json.dumps(c["ops"]))
    ctx.coverage["traces_validated_against_impl"] += len(coq_cases) - len(mism)
    ctx.coverage["rule"] = ("every history (user operations + authenticated datagrams from honest and dishonest peers) is "
                            "run on a real IdentityCommunity node and through the Coq model; outputs, exception class, "
                            "Attestations/Metadata rows, pseudonym trees, permissions, chain and consent table must agree "
                            "after every event; the Python oracle states consent / valid-store / permission on the raw "
                            "packets and rows.  Generators: reject matrix (%d kinds) x 1..3 concurrent registrations, "
                            "disclosures mixing one failing element with 1..3 valid attestations in every position, "
                            "permission boundaries, chain growing after it was opened to a peer, incoming attestations, random "
                            "histories.  A history is distinct by "
                            "its script and non-trivial when a disclosure reached the signing decision (attested or "
                            "refused after the solicited check), tokens left the node, or an attestation was stored" % len(MATRIX))
    ctx.extra["distribution"] = dist
    ctx.extra["histories"] = len(cases)
    ctx.extra["attestations_primary_key"] = sorted(pks)


def replay(path):
    js = json.load(open(path))
    cases = []
    for v in js.get("violations", []):
        print("recorded: %s :: %s" % (v["key"], v["what"]))
        cases.append(v["case"])
    cases += js.get("cases", [])
    rc = replay_cases(cases, verbose=True)
    for b in js.get("no_longer_checks", []):
        print("no longer checks:", b["what"])
        rc = 1
    return rc
