"""C19 - stored identity data survives a crash at any point.

Stage 0: replay corpus/C19/*.json (recorded kill experiments) through the oracle.
Stage G: tools/tr/tr_db.py -> coq/gen/G19_db.v (insert functions, check_database, schema scripts, tables
         and keys; shape of Database.commit/__enter__/__exit__/_prepare_version).
Stage P: props/C19.v.
Stage C: (a) the real experiment: a child process (real IdentityDatabase / AttestationsDB / PseudonymManager on
             files in a scratch directory under /tmp that this check creates and removes; most children are forked
             from a template process that has imported ipv8 and never opened a database, every n-th one and every
             replay is a fresh interpreter) runs a workload and is killed with SIGKILL at a chosen instant: before/after every Database.execute / executescript / commit, at the start of
             every SQL statement SQLite runs (trace callback: also the statements inside executescript and the
             implicit BEGIN/COMMIT), before/after every insert call and its acknowledgement; in the thorough
             tier also between two SQLite VM instructions (progress handler) and at random times (timer).
             A fresh process reopens, dumps every table and rebuilds the pseudonyms.  The outcome is compared
             with the model's prediction for that instant (inside Coq), and judged by the oracle below.
             Files written by older releases (version-1 wallet and identity files) are opened - and thereby
             upgraded - under the same kills, and compared per kill instant with the statement-level transaction
             model (model/M19_sqltx.v, props/C19x.v) as well as judged by the oracle.
         (b) in-process: random sequences of insert calls, `with db:` enter/exit (plain, IgnoreCommits, other
             exception), commit(), check_database against the model; committed content is read through a
             second connection after every action.
Oracle : independent Python reading of the property on what the implementation did: reopen raised nothing;
         every acknowledged record is present with exactly its columns; every row present is, column for
         column, a record whose insert call had at least started; the rebuilt pseudonym verifies (own
         signature and chain check with ECCrypto/hashlib, and the implementation's own tree.verify, credential
         listing and disclosure); wallet blobs load.
"""
from __future__ import annotations

import glob
import hashlib
import json
import os
import random
import shutil
import signal
import sqlite3
import subprocess
import sys
import tempfile
import time
from concurrent.futures import ThreadPoolExecutor

PY = sys.executable
IMPORTS = ("From Coq Require Import ZArith List Bool.\n"
           "From IPV8V Require Import lib.PyErr lib.Bytes model.M19_crash gen.G19_db.\n"
           "Import ListNotations.\nOpen Scope Z_scope.\n")

ID_TABLES = ["Tokens", "Metadata", "Attestations"]
ID_FUNCS = {"insert_token": 0, "insert_metadata": 1, "insert_attestation": 2}
WALLET_NAME = "attdb"


def sha3(b: bytes) -> bytes:
    return hashlib.sha3_256(b).digest()


def hx(b):
    return None if b is None else bytes(b).hex()


def unhx(s):
    return None if s is None else bytes.fromhex(s)


# =============================================================================================== child side
class Killer:
    """Event counter of the child process; kills the process at the chosen instant."""

    def __init__(self, spec):
        self.kill = spec.get("kill")             # None | ["event", n] | ["vm", n]
        self.record = spec.get("events_out")
        self.want_vm = bool(spec.get("vm")) or (self.kill and self.kill[0] == "vm")
        self.n = 0
        self.vm = 0
        self.events = []
        self.ackfd = os.open(spec["acklog"], os.O_WRONLY | os.O_APPEND | os.O_CREAT, 0o600)
        self.proc = spec.get("proc_index", 0)
        self.pending_start = None

    def die(self):
        os.kill(os.getpid(), signal.SIGKILL)
        time.sleep(60)

    def event(self, label):
        if self.record:
            self.events.append([label, self.vm])
        if self.kill and self.kill[0] == "event" and self.n == self.kill[1]:
            self.die()
        self.n += 1

    def vm_tick(self):
        self.vm += 1
        if self.kill and self.kill[0] == "vm" and self.vm == self.kill[1]:
            self.die()
        return 0

    def log(self, line, sync=False):
        os.write(self.ackfd, (line + "\n").encode())
        if sync:
            os.fsync(self.ackfd)

    def finish(self):
        if self.record:
            with open(self.record, "w") as f:
                json.dump(self.events, f)


def sql_label(s):
    s = " ".join(s.split())
    return s[:40]


def install_wrappers(K):
    from ipv8 import database as dbm
    from ipv8.attestation.identity.database import IdentityDatabase
    from ipv8.attestation.wallet.database import AttestationsDB
    D = dbm.Database
    orig_connect = D._connect

    def _connect(self):
        orig_connect(self)
        self._connection.set_trace_callback(lambda s: K.event("sql:" + sql_label(s)))
        if K.want_vm:
            self._connection.set_progress_handler(K.vm_tick, 1)
    D._connect = _connect

    def wrap(name):
        orig = getattr(D, name)

        def w(self, *a, **kw):
            tag = ""
            if name == "execute" and a:
                tag = ":" + str(a[0]).split()[0].upper()
                if getattr(K, "pending_start", None) and tag in (":INSERT", ":REPLACE") and len(a) > 1:
                    i, fname = K.pending_start
                    K.pending_start = None
                    K.log("S %d %d %s %s" % (K.proc, i, fname, json.dumps([hx(x) if isinstance(x, (bytes, type(None))) else x
                                                                          for x in a[1]])))
            K.event("pre:%s%s" % (name, tag))
            try:
                r = orig(self, *a, **kw)
            except BaseException as e:
                K.event("exc:%s:%s" % (name, type(e).__name__))
                raise
            K.event("post:%s%s" % (name, tag))
            return r
        setattr(D, name, w)
    for name in ("execute", "executescript", "commit"):
        wrap(name)

    counter = [0]

    def wrap_insert(cls, name, rowfn):
        orig = getattr(cls, name)

        def w(self, *a, **kw):
            i = counter[0]
            counter[0] += 1
            try:
                row = rowfn(*a, **kw) if rowfn else None
            except Exception:
                row = None
            if row is not None:
                K.log("S %d %d %s %s" % (K.proc, i, name, json.dumps([hx(x) for x in row])))
            else:
                K.pending_start = (i, name)          # signature unknown: the row is read off the INSERT's bindings
            K.event("call:%d" % i)
            try:
                r = orig(self, *a, **kw)
            except BaseException as e:
                K.pending_start = None
                K.log("X %d %d %s" % (K.proc, i, type(e).__name__))
                K.event("raised:%d" % i)
                raise
            K.pending_start = None
            K.event("returned:%d" % i)
            K.log("A %d %d" % (K.proc, i), sync=True)
            K.event("acked:%d" % i)
            return r
        setattr(cls, name, w)
    # the record is computed from the call's arguments (further positional / keyword arguments are tolerated)
    known = {
        (IdentityDatabase, "insert_token"): lambda pk, token, *a, **kw: (pk.key_to_bin(),) + tuple(token.to_database_tuple()),
        (IdentityDatabase, "insert_metadata"): lambda pk, md, *a, **kw: (pk.key_to_bin(),) + tuple(md.to_database_tuple()),
        (IdentityDatabase, "insert_attestation"):
            lambda pk, auth, att, *a, **kw: (pk.key_to_bin(), auth.key_to_bin()) + tuple(att.to_database_tuple()),
        (AttestationsDB, "insert_attestation"):
            lambda att, h, sk, fmt, *a, **kw: (h, att.serialize_private(sk.public_key()), sk.serialize(), fmt.encode()),
    }
    for cls in (IdentityDatabase, AttestationsDB):
        for name in sorted(n for n in vars(cls) if n.startswith("insert_") and callable(vars(cls)[n])):
            wrap_insert(cls, name, known.get((cls, name)))


class StubAtt:
    def __init__(self, blob):
        self.blob = blob

    def serialize_private(self, pk):
        return self.blob


class StubKey:
    def __init__(self, key):
        self.key = key

    def public_key(self):
        return None

    def serialize(self):
        return self.key


class Driver:
    """Runs actions on the real classes.  Used by the killed child and, unwrapped, in-process."""

    def __init__(self, dbkind, path, keys):
        from ipv8.keyvault.crypto import ECCrypto
        from ipv8.keyvault import keys as keymod
        # PseudonymManager.add_credential iterates a *set* of (PublicKey, Attestation) pairs; key objects hash
        # by identity, so the order of the attestation inserts of one call would differ from process to
        # process (dry run vs killed run).  Pin it: hash keys by their serialisation, independent of
        # PYTHONHASHSEED.  Equality is untouched.
        if not getattr(keymod.PublicKey, "_c19_stable_hash", False):
            keymod.PublicKey.__hash__ = lambda k: int.from_bytes(hashlib.sha256(k.key_to_bin()).digest()[:7], "big")
            keymod.PublicKey._c19_stable_hash = True
        self.crypto = ECCrypto()
        self.kind = dbkind
        self.path = path
        self.keys = [self.crypto.key_from_private_bin(bytes.fromhex(k)) for k in keys]
        self.db = None
        self.im = None
        self.last_md = {}

    def open(self):
        if self.kind == "identity":
            from ipv8.attestation.identity.manager import IdentityManager
            self.im = IdentityManager(os.path.join(self.path, "identity.db"))
            self.db = self.im.database
        else:
            from ipv8.attestation.wallet.database import AttestationsDB
            self.db = AttestationsDB(self.path, WALLET_NAME)

    def act(self, a):
        from ipv8.attestation.identity.attestation import Attestation
        from ipv8.attestation.identity.metadata import Metadata
        from ipv8.attestation.tokentree.token import Token
        from ipv8.database import IgnoreCommits
        k = a[0]
        if k == "token":
            prev, sig, chash, content = [unhx(x) for x in a[2]]
            self.db.insert_token(self.keys[a[1]].pub(), Token.from_database_tuple(prev, sig, chash, content))
        elif k == "metadata":
            self.db.insert_metadata(self.keys[a[1]].pub(), Metadata.from_database_tuple(*[unhx(x) for x in a[2]]))
        elif k == "attestation":
            self.db.insert_attestation(self.keys[a[1]].pub(), self.keys[a[2]].pub(),
                                       Attestation.from_database_tuple(*[unhx(x) for x in a[3]]))
        elif k == "blob":
            h, blob, key, fmt = a[1]
            self.db.insert_attestation(StubAtt(unhx(blob)), unhx(h), StubKey(unhx(key)), unhx(fmt).decode())
        elif k == "create_credential":
            ps = self.im.get_pseudonym(self.keys[a[1]])
            after = self.last_md.get(a[1]) if a[4] == "last" else None
            cred = ps.create_credential(unhx(a[2]), a[3], after)
            if cred is not None:
                self.last_md[a[1]] = cred.metadata
        elif k == "add_credential":
            # the honest path: only a token whose predecessor is in the (reloaded) tree is stored
            ps = self.im.get_pseudonym(self.keys[a[1]])
            prev, sig, chash, content = [unhx(x) for x in a[2]]
            md = Metadata.from_database_tuple(*[unhx(x) for x in a[3]])
            atts = {(self.keys[ai].pub(), Attestation.from_database_tuple(*[unhx(x) for x in at])) for ai, at in a[4]}
            ps.add_credential(Token.from_database_tuple(prev, sig, chash, content), md, atts)
        elif k == "add_attestation":
            ps = self.im.get_pseudonym(self.keys[a[1]])
            ps.add_attestation(self.keys[a[2]].pub(), Attestation.from_database_tuple(*[unhx(x) for x in a[3]]))
        elif k == "attest_last":
            # an authority attests the most recent credential of this process, through the manager
            ps = self.im.get_pseudonym(self.keys[a[1]])
            md = self.last_md.get(a[1])
            if md is not None:
                ps.add_attestation(self.keys[a[2]].pub(), ps.create_attestation(md, self.keys[a[2]]))
        elif k == "add_metadata":
            ps = self.im.get_pseudonym(self.keys[a[1]])
            ps.add_metadata(Metadata.from_database_tuple(*[unhx(x) for x in a[2]]))
        elif k == "enter":
            self.db.__enter__()
        elif k == "exit":
            if a[1] == "none":
                return self.db.__exit__(None, None, None)
            e = IgnoreCommits() if a[1] == "ignore" else ValueError("x")
            return self.db.__exit__(type(e), e, None)
        elif k == "commit":
            self.db.commit()
        elif k == "check":
            self.db.check_database(str(type(self.db).LATEST_DB_VERSION).encode())
        elif k == "close":
            self.db.close()
        else:
            raise ValueError("unknown action %r" % (a,))
        return True


def child_main(spec_path):
    spec = json.load(open(spec_path))
    K = Killer(spec)
    install_wrappers(K)
    K.event("start")
    drv = Driver(spec["db"], spec["dir"], spec["keys"])
    drv.open()
    K.event("opened")
    if spec.get("ready"):
        open(spec["ready"], "w").close()
    for ai, a in enumerate(spec["actions"]):
        try:
            drv.act(a)
        except Exception as e:      # the caller of an insert survives its exceptions; the parent gets to see them
            K.log("E %d %d %s %s" % (K.proc, ai, type(e).__name__, json.dumps(str(e)[:160])))
        K.event("action-done")
    K.event("end")
    if spec.get("hold"):       # timer kills: stay alive until the parent shoots
        time.sleep(spec["hold"])
    K.finish()
    sys.stdout.flush()
    os._exit(0)               # no close(): the process simply stops


# =============================================================================================== observer side
def raw_dump(dbfile, tables):
    out = {}
    try:
        c = sqlite3.connect(dbfile)
        c.text_factory = bytes
        for t in tables + ["option"]:
            try:
                out[t] = [[hx(x) if isinstance(x, (bytes, type(None))) else x for x in r]
                          for r in c.execute("SELECT * FROM %s ORDER BY rowid" % t)]
            except sqlite3.Error as e:
                out[t] = "error:" + type(e).__name__
        c.close()
    except sqlite3.Error as e:
        out["_connect"] = "error:" + type(e).__name__
    return out


def observe_main(spec_path):
    spec = json.load(open(spec_path))
    res = {"open": None, "tables": {}, "pseudonyms": [], "wallet": None}
    kind, path = spec["db"], spec["dir"]
    db = None
    try:
        if kind == "identity":
            from ipv8.attestation.identity.database import IdentityDatabase
            db = IdentityDatabase(os.path.join(path, "identity.db"))
            db.open()
            tables = ID_TABLES
        else:
            from ipv8.attestation.wallet.database import AttestationsDB
            db = AttestationsDB(path, WALLET_NAME)
            tables = [WALLET_NAME]
        res["open"] = "ok"
    except BaseException as e:
        res["open"] = type(e).__name__
        res["open_detail"] = repr(e)[:200]
        tables = ID_TABLES if kind == "identity" else [WALLET_NAME]
    dbfile = os.path.join(path, "identity.db") if kind == "identity" else os.path.join(path, "sqlite", WALLET_NAME + ".db")
    if res["open"] == "ok":
        for t in tables + ["option"]:
            try:
                rows = list(db.execute("SELECT * FROM %s ORDER BY rowid" % t))
                res["tables"][t] = [[hx(x) if isinstance(x, (bytes, type(None))) else x for x in r] for r in rows]
            except BaseException as e:
                res["tables"][t] = "error:%s:%s" % (type(e).__name__, str(e)[:80])
        res["version"] = db.database_version
    else:
        res["tables"] = raw_dump(dbfile, tables)
    if res["open"] == "ok" and kind == "identity":
        from ipv8.attestation.identity.manager import PseudonymManager
        from ipv8.keyvault.crypto import ECCrypto
        crypto = ECCrypto()
        for kbin in spec["keys"]:
            key = crypto.key_from_private_bin(bytes.fromhex(kbin))
            p = {"key": hx(key.pub().key_to_bin())}
            try:
                ps = PseudonymManager(db, public_key=key.pub())
                p["build"] = "ok"
                toks = list(ps.tree.elements.values())
                p["tokens"] = [[hx(x) for x in t.to_database_tuple()] for t in toks]
                p["hash_keys_ok"] = all(h == t.get_hash() for h, t in ps.tree.elements.items())
                p["verify"] = [bool(ps.tree.verify(t)) for t in toks]
                creds = ps.get_credentials()
                p["credentials"] = [[[hx(x) for x in c.metadata.to_database_tuple()],
                                     sorted([hx(x) for x in a.to_database_tuple()] for a in c.attestations)]
                                    for c in creds]
                p["metadata_verify"] = [bool(c.metadata.verify(key.pub())) for c in creds]
                try:
                    sel = {a.get_hash() for c in creds for a in c.attestations}
                    disclosable = [c for c in creds if c.metadata.token_pointer in ps.tree.elements]
                    m, t, a, au = ps.disclose_credentials(disclosable, sel)
                    p["disclosure"] = "ok"
                    p["disclosure_sizes"] = [len(m), len(t), len(a), len(au)]
                except BaseException as e:
                    p["disclosure"] = type(e).__name__ + ":" + str(e)[:80]
            except BaseException as e:
                p["build"] = type(e).__name__ + ":" + str(e)[:80]
            res["pseudonyms"].append(p)
    if res["open"] == "ok" and kind == "wallet":
        try:
            rows = db.get_all()
            res["wallet"] = {"get_all": "ok", "n": len(rows)}
            bad = 0
            for h, blob, key, fmt in rows:
                if not (isinstance(h, bytes) and isinstance(blob, bytes) and isinstance(key, bytes) and isinstance(fmt, bytes)):
                    bad += 1
                else:
                    fmt.decode()
            res["wallet"]["malformed"] = bad
        except BaseException as e:
            res["wallet"] = {"get_all": type(e).__name__}
    # every table that exists in the file (a half-done upgrade may leave others than the schema's)
    try:
        c2 = sqlite3.connect(dbfile)
        c2.text_factory = bytes
        names = [r[0].decode() if isinstance(r[0], bytes) else r[0]
                 for r in c2.execute("SELECT name FROM sqlite_master WHERE type = 'table' ORDER BY name")]
        res["all_tables"] = names
        res["extra_tables"] = {}
        for n in names:
            if n not in tables and n != "option":
                res["extra_tables"][n] = [[hx(x) if isinstance(x, (bytes, type(None))) else x for x in r]
                                          for r in c2.execute("SELECT * FROM %s ORDER BY rowid" % n)]
        c2.close()
    except sqlite3.Error as e:
        res["all_tables"] = "error:" + type(e).__name__
    if res["open"] == "ok":
        res["probe"] = usability_probe(kind, path, db)
    with open(spec["out"], "w") as f:
        json.dump(res, f)
    os._exit(0)


def usability_probe(kind, path, db):
    """After everything has been observed: is the reopened database usable?  Read every table through the class's
    own API, insert a record, read it back, close, open once more, read it again.  -> {"ok", "step", "error"}"""
    step = "start"
    try:
        if kind == "identity":
            from ipv8.attestation.identity.database import IdentityDatabase
            from ipv8.attestation.identity.manager import PseudonymManager
            from ipv8.keyvault.crypto import ECCrypto
            crypto = ECCrypto()
            probe = crypto.key_from_private_bin(b"LibNaCLSK:" + hashlib.sha512(b"c19 probe").digest())
            auth = crypto.key_from_private_bin(b"LibNaCLSK:" + hashlib.sha512(b"c19 probe authority").digest())
            step = "read"
            db.get_known_identities()
            for k in (probe.pub(), auth.pub()):
                db.get_tokens_for(k), db.get_metadata_for(k), db.get_attestations_for(k), db.get_attestations_by(k)
            step = "insert"
            ps = PseudonymManager(db, private_key=probe)
            cred = ps.create_credential(sha3(b"probe attribute"), {"name": "probe"})
            if cred is None:
                raise RuntimeError("create_credential returned None")
            if not ps.add_attestation(auth.pub(), ps.create_attestation(cred.metadata, auth)):
                raise RuntimeError("add_attestation returned False")
            step = "read-back"
            if not db.get_tokens_for(probe.pub()) or cred.metadata not in db.get_metadata_for(probe.pub()) \
                    or len(db.get_attestations_over(cred.metadata)) != 1:
                raise RuntimeError("the inserted credential is not read back")
            step = "close"
            db.close()
            step = "open-again"
            db2 = IdentityDatabase(os.path.join(path, "identity.db"))
            db2.open()
            step = "read-again"
            ps2 = PseudonymManager(db2, public_key=probe.pub())
            if len(ps2.tree.elements) != 1 or len(ps2.get_credentials()) != 1 or len(ps2.get_credentials()[0].attestations) != 1:
                raise RuntimeError("the inserted credential is gone after another open")
            db2.close()
        else:
            from ipv8.attestation.wallet.database import AttestationsDB
            step = "read"
            db.get_all()
            db.get_attestation_by_hash(b"\x00" * 32)
            step = "insert"
            h = sha3(b"c19 probe blob")
            db.insert_attestation(StubAtt(b"probe-blob"), h, StubKey(b"probe-key"), "id_metadata")
            step = "read-back"
            if not db.get_attestation_by_hash(h) or not any(r[0] == h for r in db.get_all()):
                raise RuntimeError("the inserted attestation is not read back")
            step = "close"
            db.close()
            step = "open-again"
            db2 = AttestationsDB(path, WALLET_NAME)
            step = "read-again"
            if not any(r[0] == h and r[1] == b"probe-blob" for r in db2.get_all()):
                raise RuntimeError("the inserted attestation is gone after another open")
            db2.close()
        return {"ok": True}
    except BaseException as e:
        return {"ok": False, "step": step, "error": "%s: %s" % (type(e).__name__, str(e)[:120])}


def zygote_main():
    """Template process: imports everything once, never opens a database, forks one process per command."""
    import ipv8.attestation.identity.manager    # noqa: F401
    import ipv8.attestation.wallet.database     # noqa: F401
    import ipv8.keyvault.crypto                 # noqa: F401
    import ipv8.attestation.identity.attestation, ipv8.attestation.identity.metadata, ipv8.attestation.tokentree.token  # noqa
    sys.stdout.write("ready\n")
    sys.stdout.flush()
    for line in sys.stdin:
        parts = line.split()
        if len(parts) != 2:
            continue
        pid = os.fork()
        if pid == 0:
            try:
                devnull = os.open(os.devnull, os.O_RDWR)
                os.dup2(devnull, 0)
                os.dup2(devnull, 1)
                (child_main if parts[0] == "child" else observe_main)(parts[1])
            finally:
                os._exit(99)
        _, status = os.waitpid(pid, 0)
        sys.stdout.write("done %d\n" % status)
        sys.stdout.flush()


# =============================================================================================== parent side
import threading
_tls = threading.local()
_zygotes = []
FAST = {"on": False, "fresh_every": 10, "n": 0, "fresh": 0, "forked": 0}


def _zygote():
    z = getattr(_tls, "z", None)
    if z is not None and z.poll() is None:
        return z
    z = subprocess.Popen([PY, "-m", "tools.checks.c19", "zygote", "-"], stdin=subprocess.PIPE, stdout=subprocess.PIPE,
                         stderr=subprocess.DEVNULL, text=True, bufsize=1)
    if z.stdout.readline().strip() != "ready":
        z.kill()
        return None
    _tls.z = z
    _zygotes.append(z)
    return z


def stop_zygotes():
    for z in _zygotes:
        try:
            z.stdin.close()
            z.wait(timeout=5)
        except Exception:
            try:
                z.kill()
            except Exception:
                pass
    del _zygotes[:]


def spawn(mode, spec, timeout=120, fresh=False):
    path = spec["_path"]
    with open(path, "w") as f:
        json.dump({k: v for k, v in spec.items() if not k.startswith("_")}, f)
    FAST["n"] += 1
    if FAST["on"] and not fresh and FAST["n"] % FAST["fresh_every"] != 0:
        z = _zygote()
        if z is not None:
            try:
                z.stdin.write("%s %s\n" % (mode, path))
                z.stdin.flush()
                line = z.stdout.readline()
                if line.startswith("done"):
                    FAST["forked"] += 1
                    return int(line.split()[1]), ""
            except Exception:
                pass
            _tls.z = None
    FAST["fresh"] += 1
    env = dict(os.environ)
    p = subprocess.run([PY, "-m", "tools.checks.c19", mode, path], env=env, stdout=subprocess.PIPE,
                       stderr=subprocess.PIPE, timeout=timeout)
    return p.returncode, p.stderr.decode(errors="replace")[-2000:]


def read_acklog(path):
    started, acked, raised = [], set(), {}
    if os.path.exists(path):
        for line in open(path):
            parts = line.rstrip("\n").split(" ", 4)
            if len(parts) < 3:
                continue
            if parts[0] == "S" and len(parts) == 5:
                try:
                    row = json.loads(parts[4])
                except ValueError:
                    continue           # torn last line of a killed process
                started.append({"proc": int(parts[1]), "i": int(parts[2]), "fn": parts[3], "row": row})
            elif parts[0] == "A":
                acked.add((int(parts[1]), int(parts[2])))
            elif parts[0] == "X":
                raised[(int(parts[1]), int(parts[2]))] = parts[3] if len(parts) > 3 else "?"
            elif parts[0] == "E" and len(parts) >= 4:
                raised[("action", int(parts[1]), int(parts[2]))] = " ".join(parts[3:])
    return started, acked, raised


class Lab:
    """Runs kill experiments of one scenario in scratch directories."""

    def __init__(self, scratch):
        self.scratch = scratch
        os.makedirs(scratch, exist_ok=True)
        self.n = 0

    def newdir(self, tag="e"):
        self.n += 1
        d = os.path.join(self.scratch, "%s%05d" % (tag, self.n))
        os.makedirs(d)
        return d

    def run_proc(self, scen, d, proc_index, actions, kill=None, events_out=None, vm=False, timer_ms=None):
        spec = {"db": scen["db"], "dir": d, "keys": scen["keys"], "actions": actions, "kill": kill,
                "acklog": os.path.join(d, "ack.log"), "events_out": events_out, "vm": vm, "proc_index": proc_index,
                "_path": os.path.join(d, "child_%d.json" % proc_index)}
        if timer_ms is None:
            rc, err = spawn("child", spec)
            return rc, err
        # timer kill: start, wait until the database is open, shoot after the delay
        spec["ready"] = os.path.join(d, "ready_%d" % proc_index)
        spec["hold"] = 5
        with open(spec["_path"], "w") as f:
            json.dump({k: v for k, v in spec.items() if not k.startswith("_")}, f)
        p = subprocess.Popen([PY, "-m", "tools.checks.c19", "child", spec["_path"]], stdout=subprocess.DEVNULL,
                             stderr=subprocess.DEVNULL)
        t0 = time.time()
        while not os.path.exists(spec["ready"]) and p.poll() is None and time.time() - t0 < 20:
            time.sleep(0.0005)
        time.sleep(timer_ms / 1000.0)
        try:
            p.kill()
        except OSError:
            pass
        p.wait()
        return -9, ""

    def observe(self, scen, d):
        out = os.path.join(d, "obs.json")
        spec = {"db": scen["db"], "dir": d, "keys": scen["keys"], "out": out, "_path": os.path.join(d, "observe.json")}
        rc, err = spawn("observe", spec)
        if not os.path.exists(out):
            return {"open": "observer-crashed", "detail": err, "tables": {}, "pseudonyms": []}
        return json.load(open(out))


V1_SCHEMA = {
    "wallet-v1": ("CREATE TABLE %s(hash BLOB, blob LONGBLOB, key MEDIUMBLOB, PRIMARY KEY (hash));\n" % WALLET_NAME),
    # the identity schema as released with LATEST_DB_VERSION = 1
    "identity-v1": ("CREATE TABLE Tokens(public_key BLOB, previous_token_hash BLOB, signature BLOB, content_hash BLOB, "
                    "content LONGBLOB, PRIMARY KEY (public_key, previous_token_hash, content_hash));\n"
                    "CREATE TABLE Metadata(public_key BLOB, token_pointer BLOB, signature BLOB, serialized_json_dict LONGBLOB, "
                    "PRIMARY KEY (public_key, token_pointer));\n"
                    "CREATE TABLE Attestations(public_key BLOB, authority_key BLOB, metadata_pointer BLOB, signature BLOB, "
                    "PRIMARY KEY (public_key, metadata_pointer));\n"),
}
LEGACY_FN = {"Tokens": "insert_token", "Metadata": "insert_metadata", "Attestations": "insert_attestation",
             WALLET_NAME: "insert_attestation"}


def make_legacy(d, legacy):
    """a version-1 file as written by earlier releases (kind "fresh": no file at all - first open)"""
    if legacy["kind"] == "fresh":
        return
    if legacy["kind"] == "wallet-v1":
        os.makedirs(os.path.join(d, "sqlite"), exist_ok=True)
        path = os.path.join(d, "sqlite", WALLET_NAME + ".db")
    else:
        path = os.path.join(d, "identity.db")
    c = sqlite3.connect(path)
    c.executescript("PRAGMA page_size = 8192;\nPRAGMA journal_mode = WAL;\n" + V1_SCHEMA[legacy["kind"]] +
                    "CREATE TABLE option(key TEXT PRIMARY KEY, value BLOB);\n"
                    "INSERT INTO option(key, value) VALUES('database_version', '1');\n")
    for t, rows in legacy["rows"].items():
        for r in rows:
            c.execute("INSERT INTO %s VALUES (%s)" % (t, ",".join("?" * len(r))), tuple(unhx(x) for x in r))
    c.commit()
    c.close()


def legacy_records(scen):
    """records of the old file: acknowledged long ago; a wallet upgrade gives them id_format 'id_metadata'"""
    leg = scen.get("legacy")
    st = []
    if leg:
        for t, rows in leg["rows"].items():
            for r in rows:
                row = list(r) + ([hx(b"id_metadata")] if leg["kind"] == "wallet-v1" else [])
                st.append({"proc": -1, "i": len(st), "fn": LEGACY_FN[t], "row": row})
    return st, {(-1, i) for i in range(len(st))}


def copy_state(src, dst):
    """copy database files and the acknowledgement log of a stopped process"""
    for root, dirs, files in os.walk(src):
        rel = os.path.relpath(root, src)
        os.makedirs(os.path.join(dst, rel), exist_ok=True)
        for f in files:
            if f.startswith("child_") or f.startswith("observe") or f.startswith("events") or f == "obs.json" \
                    or f.startswith("ready_"):
                continue
            shutil.copy2(os.path.join(root, f), os.path.join(dst, rel, f))


# ----------------------------------------------------------------------------------------------- event -> model instant
def model_instants(events, n_script):
    """For every event of a dry run: the number of model steps (M19_crash.run_process) completed when it fires.
    n_script = number of statements in the schema script."""
    done = 0
    out = []
    in_script = None      # number of script statements started
    in_call = False
    i = 0
    for label, _vm in events:
        idx = done
        if label == "pre:executescript":
            in_script = 0
        elif label.startswith("sql:") and in_script is not None:
            if label.startswith("sql:COMMIT"):
                idx = done                       # the implicit COMMIT is about to run
            else:
                idx = done + 1 + in_script       # implicit commit + the statements before this one
                in_script += 1
        elif label == "post:executescript":
            done += 1 + n_script
            in_script = None
            idx = done
        elif label.startswith("exc:executescript"):
            in_script = None
        elif label.startswith("post:execute:") and label.split(":")[2] in ("INSERT", "UPDATE", "DELETE", "REPLACE"):
            done += 1
            idx = done
        elif label == "post:commit":
            done += 1
            idx = done
        elif label.startswith("call:"):
            done += 1                            # the start has been logged
            idx = done
        elif label.startswith("acked:"):
            done += 1
            idx = done
        out.append(idx)
        i += 1
    return out


# ----------------------------------------------------------------------------------------------- oracle
FN_TABLE = {"identity": {"insert_token": "Tokens", "insert_metadata": "Metadata", "insert_attestation": "Attestations"},
            "wallet": {"insert_attestation": WALLET_NAME}}
TABLE_PK = {"Tokens": [0, 1, 3], "Metadata": [0, 1], "Attestations": [0, 2], WALLET_NAME: [0]}   # documented keys


def oracle(scen, started, acked, obs):
    """-> list of (key, what).  Independent of the model."""
    out = []
    kind = scen["db"]
    if obs.get("open") != "ok":
        out.append(("reopen/raises-%s" % obs.get("open"), "reopening the database after the kill raised %s %s"
                    % (obs.get("open"), obs.get("open_detail", obs.get("detail", ""))[:120])))
    probe = obs.get("probe")
    if obs.get("open") == "ok" and isinstance(probe, dict) and not probe.get("ok"):
        first = len(scen.get("procs", [])) == 1 and (not scen.get("legacy") or scen["legacy"].get("kind") == "fresh")
        out.append(("%s/unusable-after-kill" % ("fresh-open" if first else "reopen"),
                    "the database opens after the kill but cannot be used: step '%s' of read-all / insert / read-back / "
                    "close / open-again failed with %s" % (probe.get("step"), probe.get("error"))))
    tables = obs.get("tables", {})
    names = ID_TABLES if kind == "identity" else [WALLET_NAME]
    for t in names:
        if not isinstance(tables.get(t), list):
            if obs.get("open") == "ok":
                out.append(("reopen/table-unreadable", "table %s cannot be read after reopen: %s" % (t, tables.get(t))))
            tables[t] = []
    offered = {t: [] for t in names}
    for s in started:
        t = FN_TABLE[kind].get(s["fn"])
        if t:
            offered[t].append(s["row"])
    # every acknowledged record present and unchanged
    for s in started:
        if (s["proc"], s["i"]) not in acked:
            continue
        t = FN_TABLE[kind][s["fn"]]
        if s["row"] in tables[t]:
            continue
        pk = TABLE_PK[t]
        same_key = [r for r in tables[t] if [r[i] for i in pk] == [s["row"][i] for i in pk]]
        if same_key:
            earlier = [o for o in offered[t] if o == same_key[0]]
            out.append(("acked-record-absent/%s/other-record-holds-its-key" % s["fn"],
                        "%s returned, the record is not stored: another record with the same key columns %s is (%s)"
                        % (s["fn"], pk, "an earlier insert" if earlier else "unknown origin")))
        else:
            out.append(("acked-record-lost/%s" % s["fn"],
                        "%s had returned (call %d of process %d) before the kill; after reopen the record is gone"
                        % (s["fn"], s["i"], s["proc"])))
    # every row present is exactly a record whose insert had started (no partial row, nothing foreign)
    for t in names:
        for r in tables[t]:
            if r not in offered[t]:
                out.append(("partial-or-foreign-row/%s" % t, "row in %s matches no offered record: %s" % (t, str(r)[:160])))
        keys = [tuple(r[i] for i in TABLE_PK[t]) for r in tables[t]]
        if len(set(keys)) != len(keys):
            out.append(("duplicate-key/%s" % t, "two rows with the same key in %s" % t))
    if obs.get("open") == "ok":
        opt = tables.get("option")
        if not (isinstance(opt, list) and len(opt) == 1 and opt[0][0] == hx(b"database_version")):
            out.append(("reopen/version-row", "option table after reopen: %s" % (opt,)))
    # rebuilt pseudonyms verify
    if kind == "identity" and obs.get("open") == "ok":
        from ipv8.keyvault.crypto import ECCrypto
        crypto = ECCrypto()
        for p in obs.get("pseudonyms", []):
            pkbin = bytes.fromhex(p["key"])
            if p.get("build") != "ok":
                out.append(("rebuild/raises", "PseudonymManager(...) raised %s" % p.get("build")))
                continue
            pub = crypto.key_from_public_bin(pkbin)
            genesis = sha3(pkbin)
            stored = [r for r in tables["Tokens"] if r[0] == p["key"]]
            # own reading of the chain: signature valid, predecessor genesis or a stored token's hash
            hashes = {}
            for r in stored:
                prev, sig, chash = unhx(r[1]), unhx(r[2]), unhx(r[3])
                hashes[sha3(prev + chash + sig)] = (prev, chash, sig)
            def rooted(h, depth=0):
                if h not in hashes or depth > len(hashes):
                    return False
                prev, chash, sig = hashes[h]
                if not crypto.is_valid_signature(pub, prev + chash, sig):
                    return False
                return prev == genesis or rooted(prev, depth + 1)
            for h in hashes:
                if not rooted(h):
                    out.append(("rebuild/token-not-rooted", "stored token %s does not lead back to the genesis of its key"
                                % h.hex()[:16]))
            got = sorted(tuple(t) for t in p.get("tokens", []))
            exp = sorted(tuple(r[1:]) for r in stored)
            if got != exp:
                out.append(("rebuild/tokens-differ", "tokens loaded into the tree differ from the stored rows"))
            if not p.get("hash_keys_ok", True) or not all(p.get("verify", [])):
                out.append(("rebuild/tree-verify-false", "tree.verify is False for a reloaded token"))
            if not all(p.get("metadata_verify", [])):
                out.append(("rebuild/metadata-signature", "a reloaded metadata does not verify under its key"))
            mds = sorted(tuple(r[1:]) for r in tables["Metadata"] if r[0] == p["key"])
            if sorted(tuple(c[0]) for c in p.get("credentials", [])) != mds:
                out.append(("rebuild/credentials-differ", "credentials listed differ from the stored metadata"))
            for c in p.get("credentials", []):
                mdhash = sha3(unhx(c[0][0]) + unhx(c[0][2]) + unhx(c[0][1]))
                exp_att = sorted([r[2], r[3]] for r in tables["Attestations"] if r[2] == mdhash.hex())
                if sorted(c[1]) != exp_att:
                    out.append(("rebuild/attestations-differ", "attestations of a credential differ from the stored rows"))
                for a in c[1]:
                    auth = [r[1] for r in tables["Attestations"] if r[2] == a[0] and r[3] == a[1]]
                    if not auth or not crypto.is_valid_signature(crypto.key_from_public_bin(unhx(auth[0])), unhx(a[0]), unhx(a[1])):
                        out.append(("rebuild/attestation-signature", "a reloaded attestation does not verify under its authority"))
            if p.get("disclosure") != "ok":
                out.append(("rebuild/disclosure-raises", "disclosing the reloaded credentials raised %s" % p.get("disclosure")))
    if kind == "wallet" and obs.get("open") == "ok":
        w = obs.get("wallet") or {}
        if w.get("get_all") != "ok" or w.get("malformed"):
            out.append(("rebuild/wallet-load", "wallet reload: %s" % (w,)))
    return out


# ----------------------------------------------------------------------------------------------- model rendering
class Ids:
    """byte strings (hex or None) -> small integers, first occurrence; 'database_version' is 0"""

    def __init__(self):
        self.m = {hx(b"database_version"): 0}

    def of(self, h):
        if isinstance(h, int):
            return h
        if h not in self.m:
            self.m[h] = len(self.m)
        return self.m[h]


def zl(xs):
    return "[" + ";".join(str(x) if x >= 0 else "(%d)" % x for x in xs) + "]"


def calls_to_coq(kind, calls, ids):
    """started insert calls of one process (dry run) -> list action"""
    out = []
    for s in calls:
        fn = ID_FUNCS[s["fn"]] if kind == "identity" else 0
        out.append("ACall %d%%nat %s" % (fn, zl([ids.of(x) for x in s["row"]])))
    return "[" + "; ".join(out) + "]"


def enc_obs(kind, obs, ids):
    """observer result -> the flat list crash_obs produces"""
    code = {"ok": 1, "IntegrityError": 2, "OperationalError": 3, "StopIteration": 4}.get(obs.get("open"), 7)
    tables = obs.get("tables", {})
    opt = tables.get("option")
    ver = -1
    if isinstance(opt, list):
        for r in opt:
            if r[0] == hx(b"database_version"):
                try:
                    ver = int(bytes.fromhex(r[1]).decode())
                except Exception:
                    ver = -2
    out = [code, ver]
    for t in (ID_TABLES if kind == "identity" else [WALLET_NAME]):
        rows = tables.get(t)
        rows = rows if isinstance(rows, list) else []
        out.append(len(rows))
        for r in rows:
            out.append(len(r))
            out.extend(ids.of(x) for x in r)
    return out


# ----------------------------------------------------------------------------------------------- upgrade model (C19x)
IMPORTS_X = ("From Coq Require Import ZArith List Bool.\n"
             "From IPV8V Require Import lib.PyErr lib.Bytes model.M19_sqltx gen.G19x_upgrade.\n"
             "Import ListNotations.\nOpen Scope Z_scope.\n")
RANGE_PREAMBLE_X = """
Definition upgrade_range_case : Type :=
  ucfg * xstate (list xrow) * list Z * list (list (nat * xrow) * nat) * list (nat * xrow) * nat * nat * list Z.
Definition run_upgrade_range (c : upgrade_range_case) : bool :=
  let '(cfg, d0, ts, h, calls, lo, n, e) := c in
  existsb (fun k => zl_eqb (upgrade_obs cfg d0 ts (h ++ [(calls, k)])) e) (seq lo n).
"""
XMETA = {"table_ids": {}, "literals": {}}      # filled from tr_db.write_upgrade
# the version-1 files as the model sees them: table -> (key columns, width)   (history, see spec/S19x_legacy.v)
V1_SHAPE = {"fresh": {}, "identity-v1": {"Tokens": ([0, 1, 3], 5), "Metadata": ([0, 1], 4), "Attestations": ([0, 2], 4)},
            "wallet-v1": {WALLET_NAME: ([0], 3)}}


def xids():
    ids = Ids()
    ids.m[None] = -1                                   # SQL NULL
    for text, v in XMETA["literals"].items():
        ids.m[hx(text.encode())] = v
    return ids


def xtid(name):
    return XMETA["table_ids"].get("<db_name>" if name == WALLET_NAME else name, 99)


def upgrade_instants(events):
    """model instant (model/M19_sqltx.v: SQL statements completed, implicit BEGIN/COMMIT included) of every event"""
    out, count, pending = [], 0, False
    for label, _vm in events:
        if label.startswith("sql:") and label[4:].split()[0].upper().rstrip(";") not in ("SELECT", "PRAGMA", "VACUUM"):
            if pending:
                count += 1
            pending = True
        elif label.startswith("exc:"):
            pending = False                            # the statement in flight raised: it did not complete
        elif not label.startswith("sql:"):
            if pending:
                count += 1
            pending = False
        out.append(count)
    return out


def v1_file_to_coq(legacy, ids):
    tabs = []
    for t, (pk, n) in V1_SHAPE[legacy["kind"]].items():
        rows = legacy["rows"].get(t, [])
        tabs.append("mkXT %d [%s] %d%%nat [%s]" % (xtid(t), "; ".join("%d%%nat" % i for i in pk), n,
                                                    "; ".join(zl([ids.of(x) for x in r]) for r in rows)))
    if legacy["kind"] != "fresh":
        tabs.append("mkXT 0 [0%nat] 2%nat [[0; 1]]")
    return "[" + "; ".join(tabs) + "]"


def xcalls_to_coq(kind, calls, ids):
    return "[" + "; ".join("(%d%%nat, %s)" % (ID_FUNCS[s["fn"]] if kind == "identity" else 0, zl([ids.of(x) for x in s["row"]]))
                           for s in calls) + "]"


def enc_xobs(kind, obs, ids):
    """observer result -> the flat list M19_sqltx.upgrade_obs produces"""
    tables = dict(obs.get("tables", {}))
    tables.update(obs.get("extra_tables", {}) or {})
    names = obs.get("all_tables")
    names = names if isinstance(names, list) else [t for t, v in tables.items() if isinstance(v, list)]
    ver = 0
    opt = tables.get("option")
    if "option" in names and isinstance(opt, list):
        for r in opt:
            if r[0] == hx(b"database_version"):
                try:
                    ver = int(bytes.fromhex(r[1]).decode())
                except Exception:
                    ver = -2
                break
    out = [1 if obs.get("open") == "ok" else 3, ver]
    for t in xts(kind):
        name = [n for n in names if xtid(n) == t]
        rows = tables.get(name[0]) if name else None
        if not name or not isinstance(rows, list):
            out.append(-1)
            continue
        out.append(len(rows))
        for r in rows:
            out.append(len(r))
            out.extend(ids.of(x) for x in r)
    return out


def xts(kind):
    if kind == "identity":
        return [xtid("Tokens"), xtid("Metadata"), xtid("Attestations")] + \
               sorted(v for n, v in XMETA["table_ids"].items() if n not in ("option", "Tokens", "Metadata", "Attestations", "<db_name>"))
    return [xtid(WALLET_NAME)]


# ----------------------------------------------------------------------------------------------- workloads
class World:
    def __init__(self, r: random.Random, nkeys=3):
        from ipv8.keyvault.crypto import ECCrypto
        self.crypto = ECCrypto()
        self.keybins = [(b"LibNaCLSK:" + r.randbytes(64)).hex() for _ in range(nkeys)]
        self.keys = [self.crypto.key_from_private_bin(bytes.fromhex(k)) for k in self.keybins]
        self.r = r

    def token(self, k, prev, content: bytes, with_content=False):
        from ipv8.attestation.tokentree.token import Token
        sk = self.keys[k]
        prev_hash = sha3(sk.pub().key_to_bin()) if prev is None else prev
        t = Token(prev_hash, content=content, private_key=sk) if with_content else \
            Token(prev_hash, content_hash=sha3(content), private_key=sk)
        return t

    def metadata(self, k, token, js: dict):
        from ipv8.attestation.identity.metadata import Metadata
        return Metadata(token.get_hash(), json.dumps(js).encode(), private_key=self.keys[k])

    def attestation(self, a, md):
        from ipv8.attestation.identity.attestation import Attestation
        return Attestation(md.get_hash(), private_key=self.keys[a])


def act_token(k, t):
    return ["token", k, [hx(x) for x in t.to_database_tuple()]]


def act_md(k, m):
    return ["metadata", k, [hx(x) for x in m.to_database_tuple()]]


def act_att(k, a, att):
    return ["attestation", k, a, [hx(x) for x in att.to_database_tuple()]]


def act_cred(k, t, m, atts=()):
    return ["add_credential", k, [hx(x) for x in t.to_database_tuple()], [hx(x) for x in m.to_database_tuple()],
            [[a, [hx(x) for x in att.to_database_tuple()]] for a, att in atts]]


def multi_authority():
    """does the declared key of Attestations tell authorities apart?  If it does not, a second authority's
    attestation of the same metadata is, by the table's own definition, the same record inserted again
    (INSERT OR IGNORE); such workloads are outside key_consistent and are only generated when it does."""
    return 1 in TABLE_PK["Attestations"]


def scripted_identity(w: World):
    """two processes; 14 + 7 insert calls: direct inserts, manager API, duplicates, a chain of depth 3"""
    multi = multi_authority()
    t1 = w.token(0, None, b"attr-1", with_content=True)
    m1 = w.metadata(0, t1, {"name": "n1", "schema": "id_metadata"})
    a1 = w.attestation(1, m1)
    t2 = w.token(0, t1.get_hash(), b"attr-2")
    m2 = w.metadata(0, t2, {"name": "n2", "blob": "x" * 3000})
    a2 = w.attestation(2, m2)
    t3 = w.token(0, t2.get_hash(), b"attr-3")
    m3 = w.metadata(0, t3, {"name": "n3"})
    p1 = [act_token(0, t1), act_md(0, m1), act_att(0, 1, a1), act_token(0, t2), act_md(0, m2), act_att(0, 2, a2),
          act_token(0, t1),                                     # the same record again: ignored
          act_att(0, 2, w.attestation(2, m1)) if multi else act_att(0, 1, a1),   # a second authority / the same again
          ["create_credential", 1, hx(sha3(b"own-1")), {"name": "own1"}, None],
          ["attest_last", 1, 2],
          ["attest_last", 1, 0 if multi else 2],                # and through the manager
          ["create_credential", 1, hx(sha3(b"own-2")), {"name": "own2"}, "last"]]
    # the second process may follow a killed first one: it only goes through the manager, which stores a
    # token only when its predecessor is in the reloaded tree
    # ... and its early-return branches: metadata signed by someone else / pointing to another token (the token is
    # stored, the metadata is not), a token whose predecessor is unknown (nothing is stored), metadata and
    # attestations that do not verify (nothing is stored)
    t4 = w.token(0, t3.get_hash(), b"attr-4")
    t5 = w.token(0, t3.get_hash(), b"attr-5")
    t6 = w.token(0, t5.get_hash(), b"attr-6")
    t9 = w.token(0, sha3(b"nowhere"), b"attr-9")
    m_wrong_signer = w.metadata(1, t4, {"name": "n4"})
    m_wrong_pointer = w.metadata(0, t3, {"name": "n5-points-to-3"})
    m6 = w.metadata(0, t6, {"name": "n6"})
    forged_att = [hx(m3.get_hash()), hx(bytes(len(a1.signature)))]
    p2 = [act_cred(0, t3, m3, [(2, w.attestation(2, m3))]),
          act_cred(0, t4, m_wrong_signer),
          ["create_credential", 1, hx(sha3(b"own-3")), {"name": "own3"}, None],
          ["attest_last", 1, 0],
          act_cred(0, t9, w.metadata(0, t9, {"name": "n9"})),
          ["add_metadata", 0, [hx(x) for x in m1.to_database_tuple()]],
          ["add_metadata", 0, [hx(x) for x in m_wrong_signer.to_database_tuple()]],
          ["add_attestation", 0, 1, [hx(x) for x in a1.to_database_tuple()]],
          ["add_attestation", 0, 1, forged_att],
          act_cred(0, t5, m_wrong_pointer),
          act_cred(0, t6, m6, [(1, w.attestation(1, m6))]),
          act_cred(0, w.token(0, t6.get_hash(), b"attr-7"), m_wrong_signer)]     # the process ends on a rejected one
    return {"db": "identity", "keys": w.keybins, "procs": [p1, p2], "label": "scripted-identity"}


def blob_action(r, size, h=None):
    return ["blob", [hx(h or r.randbytes(32)), hx(r.randbytes(size)), hx(r.randbytes(r.choice([40, 200]))),
                     hx(r.choice([b"id_metadata", b"id_metadata_big", b"id_metadata_range_18plus"]))]]


def scripted_wallet(w: World):
    r = w.r
    dup = r.randbytes(32)
    p1 = [blob_action(r, 600), blob_action(r, 70000), blob_action(r, 900, dup), blob_action(r, 900, dup), blob_action(r, 20)]
    p2 = [blob_action(r, 30000), blob_action(r, 100, dup), blob_action(r, 5000)]
    return {"db": "wallet", "keys": [], "procs": [p1, p2], "label": "scripted-wallet"}


def legacy_wallet(w: World):
    """a version-1 file (three columns) is opened - and thereby upgraded - by the current code"""
    r = w.r
    rows = [[hx(r.randbytes(32)), hx(r.randbytes(n)), hx(r.randbytes(40))] for n in (50, 9000, 300)]
    return {"db": "wallet", "keys": [], "procs": [[blob_action(r, 400), blob_action(r, 12000)]],
            "legacy": {"kind": "wallet-v1", "rows": {WALLET_NAME: rows}}, "label": "legacy-wallet-upgrade"}


def legacy_identity(w: World):
    """a version-1 identity file with a chain, metadata and attestations is opened by the current code"""
    pk = hx(w.keys[0].pub().key_to_bin())
    t1 = w.token(0, None, b"old-1", with_content=True)
    t2 = w.token(0, t1.get_hash(), b"old-2")
    m1 = w.metadata(0, t1, {"name": "old1"})
    m2 = w.metadata(0, t2, {"name": "old2", "pad": "q" * 2500})
    a1 = w.attestation(1, m1)
    a2 = w.attestation(2, m2)
    rows = {"Tokens": [[pk] + [hx(x) for x in t.to_database_tuple()] for t in (t1, t2)],
            "Metadata": [[pk] + [hx(x) for x in m.to_database_tuple()] for m in (m1, m2)],
            "Attestations": [[pk, hx(w.keys[a].pub().key_to_bin())] + [hx(x) for x in att.to_database_tuple()]
                             for a, att in ((1, a1), (2, a2))]}
    t3 = w.token(0, t2.get_hash(), b"new-3")
    m3 = w.metadata(0, t3, {"name": "new3"})
    return {"db": "identity", "keys": w.keybins, "label": "legacy-identity-upgrade",
            "procs": [[act_token(0, t3), act_md(0, m3), act_att(0, 1, w.attestation(1, m3)),
                       # a second authority for old metadata, when the key tells authorities apart
                       act_att(0, 2, w.attestation(2, m1)) if multi_authority() else act_att(0, 1, a1)]],
            "legacy": {"kind": "identity-v1", "rows": rows}}


def random_identity(w: World, n, nprocs):
    """generated workload: chains of tokens per key (parent first), metadata, attestations by several
    authorities, duplicates, manager-level calls"""
    r = w.r
    multi = multi_authority()
    attested, last_auth = {}, {}
    ncred = {k: 0 for k in range(len(w.keys))}
    toks = {k: [] for k in range(len(w.keys))}
    mds = []
    acts = []
    while len(acts) < n:
        c = r.random()
        k = r.randrange(len(w.keys))
        if c < 0.3 or not mds:
            parent = r.choice(toks[k]) if toks[k] and r.random() < 0.7 else None
            t = w.token(k, parent.get_hash() if parent else None, r.randbytes(8), with_content=r.random() < 0.3)
            toks[k].append(t)
            m = w.metadata(k, t, {"n": r.randrange(1000), "pad": "p" * r.choice([0, 10, 2000])})
            if r.random() < 0.75:
                mds.append((k, m))
                auths = r.sample(range(len(w.keys)), r.choice([0, 1, 1, 2]) if multi else r.choice([0, 1]))
                for a in auths:
                    attested.setdefault(m.get_hash(), a)
                acts.append(act_cred(k, t, m, [(a, w.attestation(a, m)) for a in auths]))
            else:
                # metadata of another token: add_credential stores the token only
                if r.random() < 0.5:
                    other = w.metadata((k + 1) % len(w.keys), t, {"x": r.randrange(99)})       # signed by someone else
                else:
                    other = w.metadata(k, r.choice(toks[k]), {"x": r.randrange(99)}) if len(toks[k]) > 1 else m
                if other.token_pointer == t.get_hash() and other.verify(w.keys[k].pub()):
                    mds.append((k, other))
                acts.append(act_cred(k, t, other))
        elif c < 0.55:
            k, m = r.choice(mds)
            a = r.randrange(len(w.keys))
            if not multi:
                a = attested.setdefault(m.get_hash(), a)
            acts.append(act_att(k, a, w.attestation(a, m)))
        elif c < 0.65:
            acts.append(r.choice([a for a in acts if a[0] in ("add_credential", "metadata", "attestation")] or acts))   # again
        elif c < 0.85:
            ncred[k] += 1
            acts.append(["create_credential", k, hx(r.randbytes(32)), {"v": r.randrange(100)}, r.choice([None, "last"])])
        else:
            a = r.randrange(len(w.keys))
            acts.append(["attest_last", k, a if multi else last_auth.setdefault((k, ncred[k]), a)])
    cuts = sorted(r.sample(range(1, len(acts)), nprocs - 1)) if nprocs > 1 else []
    procs, prev = [], 0
    for c in cuts + [len(acts)]:
        procs.append(acts[prev:c])
        prev = c
    return {"db": "identity", "keys": w.keybins, "procs": procs, "label": "generated-identity"}


def random_wallet(w: World, n, nprocs):
    r = w.r
    hashes = []
    acts = []
    for _ in range(n):
        h = r.choice(hashes) if hashes and r.random() < 0.15 else r.randbytes(32)
        hashes.append(h)
        acts.append(blob_action(r, r.choice([10, 300, 5000, 9000, 40000]), h))
    cuts = sorted(r.sample(range(1, len(acts)), nprocs - 1)) if nprocs > 1 else []
    procs, prev = [], 0
    for c in cuts + [len(acts)]:
        procs.append(acts[prev:c])
        prev = c
    return {"db": "wallet", "keys": [], "procs": procs, "label": "generated-wallet"}


def report_action_errors(ctx, scen, raised):
    """a workload action that raises anything but the expected duplicate-hash IntegrityError of the wallet means the
    harness or the manager API no longer works as the workload assumes: never silently skipped"""
    for k, v in raised.items():
        if isinstance(k, tuple) and k and k[0] == "action" and not v.startswith("IntegrityError"):
            ctx.broke("workload action %d of process %d of %s raised %s" % (k[2], k[1], scen["label"], v[:200]))


def essential_event(label):
    """quick tier: one kill per distinct position - before every writing SQL statement (incl. the statements
    inside executescript and COMMIT), after every commit, after every insert call returned, after its
    acknowledgement"""
    if label.startswith("sql:"):
        head = label[4:].split()[0].upper()
        if head in ("SELECT", "BEGIN"):
            return False
        if head == "PRAGMA" and "=" not in label:
            return False
        return True
    return label.startswith(("returned:", "acked:", "post:commit", "raised:"))


# ----------------------------------------------------------------------------------------------- one scenario
def n_script_statements(kind, meta_text):
    import re
    cfg = "identity_cfg" if kind == "identity" else "wallet_cfg"
    m = re.search(r"Definition %s : dbcfg :=\s*mkCfg \d+\s*\[OScript \[(.*?)\]; OCommit\]" % cfg, meta_text or "", re.S)
    if not m:       # no generated file at all (translator aborted on a clean checkout): the experiments still run
        return 6 if kind == "identity" else 4
    return m.group(1).count("SCreate") + m.group(1).count("SDelete") + m.group(1).count("SInsert")


def run_scenario(ctx, lab: Lab, scen, gen_text, pool, every_event=True, vm_kills=0, timer_kills=0, first_proc_kills=()):
    """Kill the last process of the scenario at every instant (earlier processes run to their end, or - for
    first_proc_kills - the first one is killed at a fixed event).  Returns (coq cases, experiments)."""
    kind = scen["db"]
    r = ctx.rng("kills/" + scen["label"])
    results = []
    histories = [None] + list(first_proc_kills)
    coq_cases = []
    leg_started, leg_acked = legacy_records(scen)
    for fk in histories:
        base = lab.newdir("base")
        if scen.get("legacy"):
            make_legacy(base, scen["legacy"])
        legacy = scen.get("legacy")
        ids = xids() if legacy else Ids()
        instants = upgrade_instants if legacy else (lambda ev: model_instants(ev, n_script_statements(kind, gen_text)))
        render_calls = xcalls_to_coq if legacy else calls_to_coq
        hist_model = []       # [(coq actions, k)] of the processes before the last
        ok = True
        nprocs = len(scen["procs"])
        for pi in range(nprocs - 1):
            ev = os.path.join(base, "events_%d.json" % pi)
            kill = ["event", fk] if (fk is not None and pi == 0) else None
            # a dry run of the same process tells the event list (and hence the model instant of the kill)
            dry = lab.newdir("dry")
            copy_state(base, dry)
            lab.run_proc(scen, dry, pi, scen["procs"][pi], events_out=os.path.join(dry, "ev.json"))
            if not os.path.exists(os.path.join(dry, "ev.json")):
                ctx.broke("harness: dry run of process %d produced no event list" % pi, scen["label"])
                ok = False
                break
            events = json.load(open(os.path.join(dry, "ev.json")))
            st, _, rs = read_acklog(os.path.join(dry, "ack.log"))
            report_action_errors(ctx, scen, rs)
            calls = [s for s in st if s["proc"] == pi]
            inst = instants(events)
            lab.run_proc(scen, base, pi, scen["procs"][pi], kill=kill)
            k = inst[fk] if kill else (inst[-1] if inst else 0)      # the end: every step of this process done
            hist_model.append("(%s, %d%%nat)" % (render_calls(kind, calls, ids), k))
            shutil.rmtree(dry, ignore_errors=True)
        if not ok:
            continue
        last = nprocs - 1
        dry = lab.newdir("dry")
        copy_state(base, dry)
        lab.run_proc(scen, dry, last, scen["procs"][last], events_out=os.path.join(dry, "ev.json"), vm=vm_kills > 0)
        if not os.path.exists(os.path.join(dry, "ev.json")):
            ctx.broke("harness: dry run of the last process produced no event list", scen["label"])
            continue
        events = json.load(open(os.path.join(dry, "ev.json")))
        st, ak, rs = read_acklog(os.path.join(dry, "ack.log"))
        report_action_errors(ctx, scen, rs)
        calls = [s for s in st if s["proc"] == last]
        inst = instants(events)
        total_vm = events[-1][1] if events else 0
        end_k = inst[-1] if inst else 0                          # instant after the last step of the process
        kills = [["event", i] for i in range(len(events))
                 if (every_event and fk is None) or essential_event(events[i][0])
                 or (legacy and events[i][0].startswith("sql:BEGIN"))]
        kills.append(None)                                           # runs to its end, no close
        if fk is None:
            for _ in range(vm_kills):
                kills.append(["vm", r.randrange(1, max(2, total_vm))])
            for _ in range(timer_kills):
                kills.append(["timer", r.choice([0, 0.2, 0.5, 1, 2, 3, 5, 8]) * r.random()])
        shutil.rmtree(dry, ignore_errors=True)

        def one(kill):
            d = lab.newdir()
            copy_state(base, d)
            if kill is not None and kill[0] == "timer":
                lab.run_proc(scen, d, last, scen["procs"][last], timer_ms=kill[1])
            else:
                lab.run_proc(scen, d, last, scen["procs"][last], kill=kill)
            obs = lab.observe(scen, d)
            started, acked, raised = read_acklog(os.path.join(d, "ack.log"))
            shutil.rmtree(d, ignore_errors=True)
            return kill, obs, leg_started + started, leg_acked | acked

        with pool_guard(pool) as ex:
            outs = list(ex.map(one, kills))
        exact, ranged = [], []
        for kill, obs, started, acked in outs:
            case = {"kind": "crash", "scenario": scen, "first_proc_kill": fk, "kill": kill}
            viol = oracle(scen, started, acked, obs)
            label = "end" if kill is None else ("%s" % events[kill[1]][0] if kill[0] == "event" else kill[0])
            ctx.count((scen["label"], fk, json.dumps(kill)), nontrivial=len(started) > 0 or kill is None or kill[0] != "event" or kill[1] > 3)
            for key, what in viol:
                ctx.violation(key, "%s [%s, last process killed at %s]" % (what, scen["label"], label), case)
            results.append((kill, obs, started, acked, viol))
            e = enc_xobs(kind, obs, ids) if legacy else enc_obs(kind, obs, ids)
            if kill is None:
                exact.append((end_k, e))
            elif kill[0] == "event":
                exact.append((inst[kill[1]], e))
            elif kill[0] == "vm":
                # between two VM instructions: the enclosing statement either took effect or not
                lo = 0
                for (lab_, vmc), ix in zip(events, inst):
                    if vmc < kill[1]:
                        lo = ix
                ranged.append((lo, min(lo + 2, end_k), e))
            else:
                ranged.append((0, end_k, e))
        hist = "[" + "; ".join(hist_model) + "]"
        acts = render_calls(kind, calls, ids)
        if legacy:
            # the statement-level transaction model (C19x): open of a version-1 file, then the insert calls
            head = "(%s, %s, %s, %s, %s" % ("identity_ucfg" if kind == "identity" else "wallet_ucfg",
                                            v1_file_to_coq(legacy, ids), zl(xts(kind)), hist, acts)
            if exact:
                coq_cases.append(("xexact", head + ", [%s])" % "; ".join("%d%%nat" % k for k, _ in exact),
                                  "[" + "; ".join(zl(e) for _, e in exact) + "]",
                                  {"scenario": scen["label"], "first_proc_kill": fk}))
            for lo, hi, e in ranged:
                coq_cases.append(("xrange", head + ", %d%%nat, %d%%nat, %s)" % (lo, hi - lo + 1, zl(e)), "true",
                                  {"scenario": scen["label"], "first_proc_kill": fk, "range": [lo, hi]}))
            shutil.rmtree(base, ignore_errors=True)
            continue
        cfg = "identity_cfg" if kind == "identity" else "wallet_cfg"
        tabs = "identity_tables" if kind == "identity" else "wallet_tables"
        if exact:
            coq_cases.append(("exact",
                              "(prepare_pinned, %s, %s, %s, %s, [%s])" % (cfg, tabs, hist, acts, "; ".join("%d%%nat" % k for k, _ in exact)),
                              "[" + "; ".join(zl(e) for _, e in exact) + "]",
                              {"scenario": scen["label"], "first_proc_kill": fk}))
        for lo, hi, e in ranged:
            coq_cases.append(("range", "(prepare_pinned, %s, %s, %s, %s, %d%%nat, %d%%nat, %s)" % (cfg, tabs, hist, acts, lo, hi - lo + 1, zl(e)),
                              "true", {"scenario": scen["label"], "first_proc_kill": fk, "range": [lo, hi]}))
        shutil.rmtree(base, ignore_errors=True)
    return coq_cases, results


class pool_guard:
    def __init__(self, n):
        self.n = n

    def __enter__(self):
        self.ex = ThreadPoolExecutor(max_workers=self.n)
        return self.ex

    def __exit__(self, *a):
        self.ex.shutdown()


RANGE_PREAMBLE = """
Definition range_case : Type := bool * dbcfg * list Z * list (list action * nat) * list action * nat * nat * list Z.
Definition run_range_case (c : range_case) : bool :=
  let '(pinned, cfg, ts, h, acts, lo, n, e) := c in
  existsb (fun k => zlist_eqb (crash_obs pinned cfg ts (h ++ [(acts, k)])) e) (seq lo n).
"""


# ----------------------------------------------------------------------------------------------- in-process (b)
def live_cases(ctx, n, scratch):
    """random action sequences on a reopened database; committed content read through a second connection"""
    r = ctx.rng("live")
    w = World(r, 3)
    cases, metas = [], []
    for ci in range(n):
        kind = "identity" if r.random() < 0.7 else "wallet"
        d = tempfile.mkdtemp(prefix="live", dir=scratch)
        drv = Driver(kind, d, w.keybins)
        drv.open()
        drv.db.close()
        drv = Driver(kind, d, w.keybins)
        drv.open()
        dbfile = os.path.join(d, "identity.db") if kind == "identity" else os.path.join(d, "sqlite", WALLET_NAME + ".db")
        second = sqlite3.connect(dbfile)
        second.text_factory = bytes
        tables = ID_TABLES if kind == "identity" else [WALLET_NAME]
        # a pool of records with key collisions
        pool = []
        if kind == "identity":
            t1 = w.token(0, None, r.randbytes(4))
            t2 = w.token(0, t1.get_hash(), r.randbytes(4))
            m1 = w.metadata(0, t1, {"a": 1})
            m1b = w.metadata(0, t1, {"a": 2})                # same key (public_key, token_pointer), other content
            pool = [act_token(0, t1), act_token(0, t2), act_md(0, m1), act_md(0, m1b),
                    act_att(0, 1, w.attestation(1, m1)), act_att(0, 2, w.attestation(2, m1)),   # same key, other authority
                    act_att(0, 1, w.attestation(1, m1b))]
        else:
            h = r.randbytes(32)
            pool = [blob_action(r, 50, h), blob_action(r, 60, h), blob_action(r, 70), blob_action(r, 80)]
        acts, depth = [], 0
        for _ in range(r.choice([4, 8, 14])):
            c = r.random()
            if c < 0.5:
                acts.append(r.choice(pool))
            elif c < 0.65:
                acts.append(["enter"])
            elif c < 0.85:
                acts.append(["exit", r.choice(["none", "none", "ignore", "other"])])
            elif c < 0.95:
                acts.append(["commit"])
            else:
                acts.append(["check"])
        ids = Ids()
        obs, coq_acts = [1], []
        calls = []
        impl_err = None
        for a in acts:
            code = 1
            try:
                ret = drv.act(a)
                if a[0] == "exit" and ret is False:
                    code = 5
            except sqlite3.IntegrityError:
                code = 2
            except sqlite3.OperationalError:
                code = 3
            except Exception as e:      # noqa
                code = 7
                impl_err = repr(e)
            obs.extend([code, drv.db._pending_commits])
            for conn_read in (lambda q: list(drv.db.execute(q)), lambda q: list(second.execute(q))):
                for t in tables:
                    rows = conn_read("SELECT * FROM %s ORDER BY rowid" % t)
                    obs.append(len(rows))
                    for row in rows:
                        obs.append(len(row))
                        obs.extend(ids.of(hx(x)) for x in row)
            if a[0] in ("token", "metadata", "attestation", "blob"):
                fn = {"token": 0, "metadata": 1, "attestation": 2, "blob": 0}[a[0]]
                if a[0] == "token":
                    row = [hx(w.keys[a[1]].pub().key_to_bin())] + a[2]
                elif a[0] == "metadata":
                    row = [hx(w.keys[a[1]].pub().key_to_bin())] + a[2]
                elif a[0] == "attestation":
                    row = [hx(w.keys[a[1]].pub().key_to_bin()), hx(w.keys[a[2]].pub().key_to_bin())] + a[3]
                else:
                    row = a[1]
                coq_acts.append("ACall %d%%nat %s" % (fn, zl([ids.of(x) for x in row])))
            elif a[0] == "enter":
                coq_acts.append("AEnter")
            elif a[0] == "exit":
                coq_acts.append("AExit %s" % {"none": "XNone", "ignore": "XIgnore", "other": "XOther"}[a[1]])
            elif a[0] == "commit":
                coq_acts.append("ACommit")
            else:
                coq_acts.append("ACheck")
        second.close()
        try:
            drv.db._pending_commits = 0
            drv.db.close()
        except Exception:
            pass
        shutil.rmtree(d, ignore_errors=True)
        cfg = "identity_cfg" if kind == "identity" else "wallet_cfg"
        tabs = "identity_tables" if kind == "identity" else "wallet_tables"
        cases.append(("(%s, %s, [%s])" % (cfg, tabs, "; ".join(coq_acts)), zl(obs)))
        metas.append({"db": kind, "actions": acts, "impl_error": impl_err})
        ctx.count(("live", kind, json.dumps(acts)), nontrivial=any(a[0] in ("enter", "exit") for a in acts))
        if ci < 1:
            ctx.sample({"live_actions": [a[0] if a[0] not in ("exit",) else a for a in acts], "db": kind,
                        "impl_observation_len": len(obs)})
    return cases, metas


# ----------------------------------------------------------------------------------------------- the check
def replay_case(lab, case):
    """re-run one recorded kill experiment; -> (violations, obs)"""
    scen = case["scenario"]
    d = lab.newdir("rp")
    if scen.get("legacy"):
        make_legacy(d, scen["legacy"])
    fk = case.get("first_proc_kill")
    n = len(scen["procs"])
    for pi in range(n):
        kill = None
        if pi == 0 and fk is not None and n > 1:
            kill = ["event", fk]
        if pi == n - 1:
            kill = case.get("kill")
        if kill is not None and kill[0] == "timer":
            lab.run_proc(scen, d, pi, scen["procs"][pi], timer_ms=kill[1])
        else:
            lab.run_proc(scen, d, pi, scen["procs"][pi], kill=kill)
    obs = lab.observe(scen, d)
    started, acked, _ = read_acklog(os.path.join(d, "ack.log"))
    shutil.rmtree(d, ignore_errors=True)
    ls, la = legacy_records(scen)
    return oracle(scen, ls + started, la | acked, obs), obs


def run(ctx):
    from tools.tr import tr_db
    from tools.vlib import coqrun
    from tools.vlib.repoenv import VERIF
    for old in glob.glob("/tmp/verif-c19-*"):          # left behind by a run that was killed
        try:
            if time.time() - os.path.getmtime(old) > 2 * 3600:
                shutil.rmtree(old, ignore_errors=True)
        except OSError:
            pass
    scratch = tempfile.mkdtemp(prefix="verif-c19-", dir="/tmp")

    def on_term(signum, frame):
        raise SystemExit("terminated")
    try:
        prev = signal.signal(signal.SIGTERM, on_term)
    except ValueError:
        prev = None
    try:
        _run(ctx, scratch, tr_db, coqrun, VERIF)
    except SystemExit:
        shutil.rmtree(ctx.scratch, ignore_errors=True)     # the runner will not get to remove its own
        raise
    finally:
        stop_zygotes()
        shutil.rmtree(scratch, ignore_errors=True)
        if prev is not None:
            signal.signal(signal.SIGTERM, prev)


def _run(ctx, scratch, tr_db, coqrun, VERIF):
    lab = Lab(os.path.join(scratch, "lab"))
    workers = 8 if ctx.quick else 12
    # ---- stage 0: corpus
    for path in sorted(glob.glob(os.path.join(VERIF, "corpus", "C19", "*.json"))):
        js = json.load(open(path))
        for case in js.get("cases", []):
            viol, obs = replay_case(lab, case)
            ctx.count(("corpus", os.path.basename(path), json.dumps(case.get("kill"))))
            for key, what in viol:
                ctx.violation(key, "%s [corpus %s]" % (what, os.path.basename(path)), case)
    # ---- stage G
    gen_text = None
    try:
        gen_text, meta = tr_db.write()
        ctx.extra["generated"] = {"gen/G19_db.v": hashlib.sha256(gen_text.encode()).hexdigest()[:16]}
        ctx.extra["translated"] = meta
        for name, t in meta["tables"].items():
            TABLE_PK[WALLET_NAME if name == "<db_name>" else name] = list(t["pk"])   # the keys the source declares
    except Exception as e:   # Unsupported or anything else: fail closed
        ctx.broke("translator tr_db aborted", e)
    # the upgrade programs (C19x): recorded from check_database; on failure only C19x is affected
    xgen = None
    try:
        xgen, xmeta = tr_db.write_upgrade()
        ctx.extra["generated"] = dict(ctx.extra.get("generated", {}), **{"gen/G19x_upgrade.v": hashlib.sha256(xgen.encode()).hexdigest()[:16]})
        ctx.extra["upgrade_calls"] = {"identity": xmeta["identity_upgrade_calls"], "wallet": xmeta["wallet_upgrade_calls"]}
        XMETA["table_ids"], XMETA["literals"] = xmeta["table_ids"], xmeta["literals"]
    except Exception as e:
        ctx.broke("translator tr_db (upgrade programs) aborted", e)
    # ---- stage P
    if xgen is not None and gen_text is None:
        ctx.proofs(part="C19x")          # the statement-level part stands on its own generated file
    if gen_text is not None:
        ctx.proofs()
        if xgen is not None:
            ctx.proofs(part="C19x")
    else:
        # the experiments below still need some generated file to evaluate the model
        if os.path.exists(tr_db.DEST):
            gen_text = open(tr_db.DEST).read()
    ctx.coverage["trusted_base"] = [
        "Coq 8.16.1 kernel (coqc, vm_compute); no axioms (Print Assumptions: closed)",
        "store contract (spec/S19_durable.v): SQLite WAL + synchronous=NORMAL against a process kill - committed "
        "transactions survive, uncommitted ones vanish, statements are atomic; exercised by this run's kill experiments",
        "translator tools/tr/tr_db.py (Python ast + SQL text of the schema scripts -> Gallina tables)",
        "hand model coq/model/M19_crash.v of Database.commit/__enter__/__exit__/open/executescript (shape-checked "
        "against the source, tied by the in-process and kill correspondences)",
        "the harness: wrappers in the child process, acknowledgement log, event -> model instant mapping",
        "C19x: the transaction rules of model/M19_sqltx.v - S1 a statement outside a transaction is its own atomic "
        "transaction; S2 BEGIN/COMMIT open/publish (errors when nested / none open); S3 statements in a transaction are "
        "not published; S4 a failing statement has no effect and an executescript stops there; P1 Cursor.execute issues an "
        "implicit BEGIN before INSERT/UPDATE/DELETE/REPLACE only; P2 Cursor.executescript commits an open transaction "
        "first and then passes the statements unchanged; P3 Connection.commit; K a kill keeps exactly the published "
        "content - and its reading of CREATE IF NOT EXISTS / ALTER RENAME / ALTER ADD / INSERT..SELECT / UPDATE / DROP; "
        "the version-1 file shapes of spec/S19x_legacy.v; compared per kill instant with real version-1 files",
        "translator tr_db.generate_upgrade: check_database run on a recording stub for every version, SQL split on ';'",
    ]
    ctx.assumptions = ["process kill (SIGKILL), not power loss: the OS page cache survives",
                       "python sqlite3 legacy transaction control (implicit BEGIN before INSERT; executescript commits first)",
                       "column values are compared as opaque byte strings"]
    ctx.extra["crash_experiments"] = {}
    ctx.extra["t_proofs_s"] = round(time.time() - ctx.t0, 1)
    all_cases = []
    r = ctx.rng("world")
    w = World(r, 3)
    scens = [scripted_identity(w), scripted_wallet(w)]
    plan = []   # (scenario, kwargs)
    if ctx.quick:
        FAST["on"] = True
        plan.append((scens[0], dict(every_event=False, vm_kills=3)))
        plan.append((scens[1], dict(every_event=False, vm_kills=3)))
        fresh = {"kind": "fresh", "rows": {}}          # first open of a brand-new file, then a few inserts
        one = {"db": "identity", "keys": w.keybins, "procs": [scens[0]["procs"][0][:3]], "label": "creation-identity",
               "legacy": fresh}
        plan.append((one, dict(every_event=False, vm_kills=3)))
        onew = {"db": "wallet", "keys": [], "procs": [scens[1]["procs"][0][:2]], "label": "creation-wallet", "legacy": fresh}
        plan.append((onew, dict(every_event=False, vm_kills=3)))
        plan.append((legacy_wallet(w), dict(every_event=False, vm_kills=3)))
        plan.append((legacy_identity(w), dict(every_event=False, vm_kills=3)))
    else:
        FAST["on"] = True
        FAST["fresh_every"] = 4
        plan.append((scens[0], dict(vm_kills=60, timer_kills=40, first_proc_kills=(9, 14, 16, 30, 41))))
        plan.append((scens[1], dict(vm_kills=60, timer_kills=40, first_proc_kills=(8, 13, 25))))
        fresh = {"kind": "fresh", "rows": {}}
        one = {"db": "identity", "keys": w.keybins, "procs": [scens[0]["procs"][0][:6]], "label": "creation-identity",
               "legacy": fresh}
        plan.append((one, dict(vm_kills=40, timer_kills=20)))
        onew = {"db": "wallet", "keys": [], "procs": [scens[1]["procs"][0][:3]], "label": "creation-wallet", "legacy": fresh}
        plan.append((onew, dict(vm_kills=40, timer_kills=20)))
        plan.append((legacy_wallet(w), dict(vm_kills=40, timer_kills=20)))
        plan.append((legacy_identity(w), dict(vm_kills=40, timer_kills=20)))
        # an upgrade killed twice: a first open killed inside / right after the upgrade, then the workload process
        for mk, fks in ((legacy_identity, (13, 18, 22, 23, 29, 30)), (legacy_wallet, (13, 15, 16, 17, 22))):
            sc2 = mk(w)
            sc2["procs"] = [[]] + sc2["procs"]
            sc2["label"] += "-killed-twice"
            plan.append((sc2, dict(every_event=False, first_proc_kills=fks)))
        for gi in range(3):
            wg = World(ctx.rng("gen-world/%d" % gi), 3)
            g = random_identity(wg, 40, 3)
            g["label"] += "-%d" % gi
            plan.append((g, dict(vm_kills=20, timer_kills=20, first_proc_kills=(ctx.rng("fk/%d" % gi).randrange(10, 60),))))
        for gi in range(2):
            wg = World(ctx.rng("gen-wallet/%d" % gi), 0)
            g = random_wallet(wg, 30, 2)
            g["label"] += "-%d" % gi
            plan.append((g, dict(vm_kills=20, timer_kills=20)))
    only = os.environ.get("C19_ONLY")        # debugging aid: restrict the kill experiments to scenarios by label prefix
    if only:
        plan = [(sc, kw) for sc, kw in plan if sc["label"].startswith(only)]
    for scen, kw in plan:
        t0 = time.time()
        cases, results = run_scenario(ctx, lab, scen, gen_text or "", workers, **kw)
        all_cases.extend(cases)
        nviol = sum(1 for x in results if x[4])
        ctx.extra["crash_experiments"][scen["label"]] = {
            "kills": len(results), "violating": nviol, "wall_s": round(time.time() - t0, 1),
            "insert_calls": sum(len(p) for p in scen["procs"])}
        ctx.coverage["traces_validated_against_impl"] += 0
        for kill, obs, started, acked, viol in results[:1]:
            ctx.sample({"scenario": scen["label"], "kill": kill, "started": len(started), "acked": len(acked),
                        "reopen": obs.get("open"), "rows": {t: len(v) for t, v in obs.get("tables", {}).items() if isinstance(v, list)}})
    ctx.extra["t_experiments_s"] = round(time.time() - ctx.t0, 1)
    # ---- the model's prediction for every experiment, evaluated inside Coq
    if gen_text is not None and os.path.exists(os.path.join(VERIF, "coq", "gen", "G19_db.vo")):
        ex = [(c, e) for kind, c, e, m in all_cases if kind == "exact"]
        exm = [m for kind, c, e, m in all_cases if kind == "exact"]
        mism, errs = coqrun.eval_mismatches(IMPORTS, "run_crash_case", "zll_eqb", ex, os.path.join(scratch, "cq_exact"),
                                            ctype="crash_case * list (list Z)", shard=1, jobs=workers, max_bytes=40000)
        for e in errs:
            ctx.broke("model evaluation failed (crash cases)", e)
        for i in mism:
            ctx.broke("correspondence: reopened database differs from the model's prediction at some kill instant of %s"
                      % (exm[i],), ex[i][0][:1500])
        ctx.coverage["traces_validated_against_impl"] += sum(e.count("[") - 1 for i, (_, e) in enumerate(ex) if i not in mism)
        rg = [(c, e) for kind, c, e, m in all_cases if kind == "range"]
        rgm = [m for kind, c, e, m in all_cases if kind == "range"]
        if rg:
            mism, errs = coqrun.eval_mismatches(IMPORTS, "run_range_case", "Bool.eqb", rg, os.path.join(scratch, "cq_range"),
                                                ctype="range_case * bool", shard=12, jobs=workers, preamble=RANGE_PREAMBLE,
                                                max_bytes=60000)
            for e in errs:
                ctx.broke("model evaluation failed (mid-statement / timer kills)", e)
            for i in mism:
                ctx.broke("correspondence: database reopened after a mid-statement or timed kill matches no model instant %s"
                          % (rgm[i],), rg[i][0][:1500])
            ctx.coverage["traces_validated_against_impl"] += len(rg) - len(mism)
    else:
        ctx.broke("model not evaluated: gen/G19_db.vo missing")
    # ---- the statement-level transaction model on the old-file scenarios
    xex = [(c, e, m) for kind, c, e, m in all_cases if kind == "xexact"]
    xrg = [(c, e, m) for kind, c, e, m in all_cases if kind == "xrange"]
    if (xex or xrg) and xgen is not None and os.path.exists(os.path.join(VERIF, "coq", "gen", "G19x_upgrade.vo")):
        mism, errs = coqrun.eval_mismatches(IMPORTS_X, "run_upgrade_case", "rows_eqb", [(c, e) for c, e, _ in xex],
                                            os.path.join(scratch, "cq_xexact"), ctype="upgrade_case * list (list Z)",
                                            shard=1, jobs=workers, max_bytes=40000)
        for e in errs:
            ctx.broke("model evaluation failed (upgrade cases)", e)
        for i in mism:
            ctx.broke("correspondence: a version-1 file killed while it is opened differs from the transaction model's "
                      "prediction at some kill instant of %s" % (xex[i][2],), xex[i][0][:1500])
        n_x = sum(e.count("[") - 1 for i, (_, e, _) in enumerate(xex) if i not in mism)
        if xrg:
            mism, errs = coqrun.eval_mismatches(IMPORTS_X, "run_upgrade_range", "Bool.eqb", [(c, e) for c, e, _ in xrg],
                                                os.path.join(scratch, "cq_xrange"), ctype="upgrade_range_case * bool",
                                                shard=12, jobs=workers, preamble=RANGE_PREAMBLE_X, max_bytes=60000)
            for e in errs:
                ctx.broke("model evaluation failed (upgrade, mid-statement / timer kills)", e)
            for i in mism:
                ctx.broke("correspondence: a version-1 file killed mid-statement or by timer matches no instant of the "
                          "transaction model %s" % (xrg[i][2],), xrg[i][0][:1500])
            n_x += len(xrg) - len(mism)
        ctx.coverage["traces_validated_against_impl"] += n_x
        ctx.extra["upgrade_kills_compared_with_model"] = n_x
    elif xex or xrg:
        ctx.broke("upgrade model not evaluated: gen/G19x_upgrade.vo missing")
    ctx.extra["t_model_crash_s"] = round(time.time() - ctx.t0, 1)
    # ---- (b) in-process
    ctx.extra["processes"] = {"forked_from_template": FAST["forked"], "fresh_interpreters": FAST["fresh"]}
    n_live = 100 if ctx.quick else 1500
    cases, metas = live_cases(ctx, n_live, scratch)
    ctx.extra["t_live_impl_s"] = round(time.time() - ctx.t0, 1)
    for m in metas:
        if m["impl_error"]:
            ctx.violation("live/unexpected-exception", "an action raised %s" % m["impl_error"], {"kind": "live", **m})
    if gen_text is not None and os.path.exists(os.path.join(VERIF, "coq", "gen", "G19_db.vo")):
        mism, errs = coqrun.eval_mismatches(IMPORTS, "run_live_case", "zlist_eqb", cases, os.path.join(scratch, "cq_live"),
                                            ctype="live_case * list Z", shard=40, jobs=workers, max_bytes=120000)
        for e in errs:
            ctx.broke("model evaluation failed (in-process cases)", e)
        for i in mism[:10]:
            ctx.broke("correspondence: in-process history differs between model and implementation", json.dumps(metas[i])[:1500])
        ctx.coverage["traces_validated_against_impl"] += len(cases) - len(mism)
    ctx.coverage["rule"] = ("kill experiments: scripted and generated workloads of token/metadata/attestation/blob inserts (direct "
                            "and through PseudonymManager), last process killed at every wrapper/trace event (exhaustive), plus VM-"
                            "instruction and timer kills; reopened by a fresh process; non-trivial = at least one insert call started; "
                            "in-process: random call/with-block/commit/check sequences, non-trivial = contains a with block")
    ctx.coverage["exhaustive"] = False


def replay(path):
    js = json.load(open(path))
    scratch = tempfile.mkdtemp(prefix="verif-c19-replay-", dir="/tmp")
    rc = 0
    try:
        lab = Lab(os.path.join(scratch, "lab"))
        cases = [v["case"] for v in js.get("violations", [])] + js.get("cases", [])
        for case in cases:
            if case.get("kind") == "live":
                print("in-process case:", json.dumps(case)[:300])
                rc = 1
                continue
            viol, obs = replay_case(lab, case)
            print("scenario %s, kill %s: reopen=%s rows=%s" % (
                case["scenario"]["label"], case.get("kill"), obs.get("open"),
                {t: len(v) for t, v in obs.get("tables", {}).items() if isinstance(v, list)}))
            for key, what in viol:
                print("  VIOLATES", key, "::", what)
                rc = 1
        for b in js.get("no_longer_checks", []):
            print("no longer checks:", b["what"])
            rc = 1
    finally:
        shutil.rmtree(scratch, ignore_errors=True)
    return rc


if __name__ == "__main__":
    if len(sys.argv) == 3 and sys.argv[1] == "zygote":
        zygote_main()
    elif len(sys.argv) == 3 and sys.argv[1] == "child":
        child_main(sys.argv[2])
    elif len(sys.argv) == 3 and sys.argv[1] == "observe":
        observe_main(sys.argv[2])
    else:
        sys.exit("usage: python -m tools.checks.c19 child|observe <spec.json>")
